//! Coverage-guided part of C08's arbitrary-input clause (libFuzzer): a stream dictionary decoded from eight header
//! bytes (one or two filters, optional predictor parameters with boundary values, a limit) and arbitrary stream
//! data, handed to `PdfStream::decode_with_limit`. Oracle inside the target, as in `props/c08.rs::check_arbitrary`:
//! the call returns (no panic with overflow checks and debug assertions on, no signal, bounded memory and time),
//! and an `Ok` result is never longer than the limit.
//! Header layout (kept in step with tools/fuzz.sh, which turns an artifact into a replay case of sub-check `arbitrary`):
//!   h[0] filters: first = FILTERS[h0 % 6]; if h0 >= 128 a second one FILTERS[(h0 / 6) % 6] follows
//!   h[1] predictor: PREDICTORS[h1 % 9] (0 = no /DecodeParms); bit 7 adds /EarlyChange 0
//!   h[2] /Colors COLORS[h2 % 6] · h[3] /BitsPerComponent BPC[h3 % 6] · h[4..6] /Columns (big endian) % 600
//!   h[6] limit: LIMITS[h6 % 12], or h[7] * 4 when h6 >= 128
#![no_main]
use libfuzzer_sys::fuzz_target;
use oxidize_pdf::parser::objects::{PdfArray, PdfDictionary, PdfName, PdfObject, PdfStream};
use oxidize_pdf::parser::ParseOptions;

const FILTERS: [&str; 6] = ["FlateDecode", "LZWDecode", "ASCIIHexDecode", "ASCII85Decode", "RunLengthDecode", "Crypt"];
const PREDICTORS: [i64; 9] = [0, 1, 2, 10, 11, 12, 13, 14, 15];
const COLORS: [i64; 6] = [1, 2, 3, 4, 0, 255];
const BPC: [i64; 6] = [8, 1, 2, 4, 16, 3];
const LIMITS: [usize; 12] = [0, 1, 2, 3, 16, 255, 256, 4096, 65536, 1 << 20, 1 << 32, usize::MAX];

fuzz_target!(|data: &[u8]| {
    if data.len() < 8 || data.len() > 8 + 64 * 1024 {
        return;
    }
    let (h, body) = data.split_at(8);
    let name = |s: &str| PdfObject::Name(PdfName(s.to_string()));
    let mut dict = PdfDictionary::new();
    let first = FILTERS[h[0] as usize % 6];
    if h[0] >= 128 {
        dict.insert("Filter".into(), PdfObject::Array(PdfArray(vec![name(first), name(FILTERS[(h[0] as usize / 6) % 6])])));
    } else {
        dict.insert("Filter".into(), name(first));
    }
    let pred = PREDICTORS[h[1] as usize % 9];
    if pred != 0 {
        let mut p = PdfDictionary::new();
        p.insert("Predictor".into(), PdfObject::Integer(pred));
        p.insert("Colors".into(), PdfObject::Integer(COLORS[h[2] as usize % 6]));
        p.insert("BitsPerComponent".into(), PdfObject::Integer(BPC[h[3] as usize % 6]));
        p.insert("Columns".into(), PdfObject::Integer((u16::from_be_bytes([h[4], h[5]]) % 600) as i64));
        if h[1] & 0x80 != 0 {
            p.insert("EarlyChange".into(), PdfObject::Integer(0));
        }
        dict.insert("DecodeParms".into(), PdfObject::Dictionary(p));
    }
    let limit = if h[6] >= 128 { h[7] as usize * 4 } else { LIMITS[h[6] as usize % 12] };
    let stream = PdfStream { dict, data: body.to_vec() };
    if let Ok(v) = stream.decode_with_limit(&ParseOptions::default(), limit) {
        assert!(v.len() <= limit, "C08/limit-respected: decode_with_limit({limit}) returned {} bytes", v.len());
    }
});
