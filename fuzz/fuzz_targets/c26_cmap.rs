//! Coverage-guided part of C26's robustness clause (libFuzzer): arbitrary bytes handed to the CMap reader.
//! Oracle inside the target, as in `props/c26.rs::check_robust`: `CMap::parse` returns, and every lookup on a
//! map it accepted returns (no panic with overflow checks and debug assertions on, no signal, bounded memory/time).
#![no_main]
use libfuzzer_sys::fuzz_target;
use oxidize_pdf::text::cmap::CMap;

fuzz_target!(|data: &[u8]| {
    if data.len() > 64 * 1024 {
        return;
    }
    if let Ok(m) = CMap::parse(data) {
        for b in (0..=255u8).step_by(5) {
            let _ = m.map(&[b]);
            let _ = m.map(&[0, b]);
            let _ = m.map(&[b, 0xFF]);
            let _ = m.to_unicode(&[b]);
            let _ = m.to_unicode(&[0, b]);
            let _ = m.is_valid_code(&[b]);
        }
        let _ = m.map(&[]);
        let _ = m.map(&[1, 2, 3, 4, 5]);
    }
});
