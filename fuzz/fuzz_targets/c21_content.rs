//! Coverage-guided part of C21's byte-level clause (libFuzzer): arbitrary bytes handed to the content-stream
//! parser. Oracle inside the target, the same as `props/c21.rs::check_bytes`: both entry points return (a panic
//! — overflow checks and debug assertions are on —, a signal, -rss_limit_mb or -timeout end the campaign with
//! an artifact), and when `parse_strict` accepts the input, `parse` returns the same operator list.
#![no_main]
use libfuzzer_sys::fuzz_target;
use oxidize_pdf::parser::content::ContentParser;

fuzz_target!(|data: &[u8]| {
    if data.len() > 64 * 1024 {
        return;
    }
    let best = ContentParser::parse(data);
    let strict = ContentParser::parse_strict(data);
    if let Ok(s) = &strict {
        match &best {
            Ok(b) => assert!(b == s, "C21/strict-ok-implies-same-list: parse_strict {} operators, parse {}", s.len(), b.len()),
            Err(e) => panic!("C21/strict-ok-implies-same-list: parse failed ({e}) where parse_strict succeeded"),
        }
    }
});
