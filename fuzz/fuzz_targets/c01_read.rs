//! Coverage-guided part of C01 (libFuzzer): the same open-and-navigate driver as `props/c01.rs::drive`,
//! in-process. The first input byte selects the ParseOptions preset, the rest is the file. The oracle is
//! inside the target: the driver returns — a panic (overflow checks and debug assertions are on), a signal,
//! more than -rss_limit_mb or more than -timeout seconds end the campaign with an artifact, which
//! `tools/fuzz.sh` turns into a replay file for `./check C01 --replay` (process-isolated confirmation).
//! No state survives an iteration: the reader and document are created and dropped inside `drive`.
#![no_main]
use libfuzzer_sys::fuzz_target;
use oxidize_pdf::parser::content::ContentParser;
use oxidize_pdf::parser::objects::PdfObject;
use oxidize_pdf::parser::{ParseOptions, PdfReader};
use oxidize_pdf::text::extraction::ExtractionOptions;

fn preset(i: u8) -> ParseOptions {
    match i % 5 {
        0 => ParseOptions::strict(),
        1 => ParseOptions::default(),
        2 => ParseOptions::tolerant(),
        3 => ParseOptions::lenient(),
        _ => ParseOptions::skip_errors(),
    }
}

fn drive(p: u8, bytes: &[u8]) {
    let opts = preset(p);
    let mut rd = match PdfReader::new_with_options(std::io::Cursor::new(bytes.to_vec()), opts.clone()) {
        Ok(r) => r,
        Err(_) => return,
    };
    if rd.is_encrypted() {
        let _ = rd.unlock_with_password("");
        let _ = rd.unlock_with_password("o");
    }
    let _ = rd.metadata();
    let size = rd.trailer().dict().get("Size").and_then(|o| o.as_integer()).unwrap_or(0).clamp(0, 257) as u32;
    for n in 0..size {
        if let Ok(o) = rd.get_object(n, 0).map(|o| o.clone()) {
            if let PdfObject::Stream(s) = &o {
                let _ = s.decode(&opts);
                let _ = s.decode_with_limit(&opts, 1 << 20);
            }
        }
    }
    let doc = rd.into_document();
    let n = doc.page_count().unwrap_or(0);
    for i in 0..n.min(16) {
        if let Ok(pg) = doc.get_page(i) {
            let _ = pg.get_resources();
            if let Ok(cs) = doc.get_page_content_streams(&pg) {
                for c in &cs {
                    let _ = ContentParser::parse(c);
                }
            }
            let o1 = ExtractionOptions::default();
            let mut o2 = ExtractionOptions::default();
            o2.preserve_layout = true;
            let mut o3 = ExtractionOptions::default();
            o3.sort_by_position = true;
            o3.detect_columns = true;
            o3.merge_hyphenated = true;
            for o in [o1, o2, o3] {
                let _ = doc.extract_text_from_page_with_options(i, o);
            }
        }
    }
}

fuzz_target!(|data: &[u8]| {
    if data.is_empty() || data.len() > 256 * 1024 + 1 {
        return;
    }
    drive(data[0], &data[1..]);
});
