//! C22 PART 2 — the batch worker pool under shuttle-controlled schedules (fallback of DESIGN §4 H3:
//! the library is NOT modified; build.rs rebuilds batch/{mod,job,progress,result,worker}.rs from the
//! working tree with std::{thread,sync} replaced by shuttle::).
//!
//! usage: vp-shuttle [quick|thorough]     env: VERIF_SEED, VERIF_DIR (known_findings.jsonl), VP_REPO (build time)
//! exit 0: all invariants held (known findings aside) · 1: violation · 2: could not decide
#![allow(dead_code)]

pub mod error {
    #[derive(Debug)]
    pub enum PdfError {
        Io(std::io::Error),
        InvalidStructure(String),
        OperationCancelled,
        Internal(String),
    }
    impl std::fmt::Display for PdfError {
        fn fmt(&self, f: &mut std::fmt::Formatter<'_>) -> std::fmt::Result {
            match self {
                PdfError::Io(e) => write!(f, "IO error: {e}"),
                PdfError::InvalidStructure(s) => write!(f, "Invalid PDF structure: {s}"),
                PdfError::OperationCancelled => write!(f, "Operation cancelled"),
                PdfError::Internal(s) => write!(f, "Internal error: {s}"),
            }
        }
    }
    impl From<std::io::Error> for PdfError {
        fn from(e: std::io::Error) -> Self {
            PdfError::Io(e)
        }
    }
    pub type Result<T> = std::result::Result<T, PdfError>;
}

/// stubs for the three PDF operations the non-custom arm calls (never reached with valid input here)
pub mod operations {
    use std::path::{Path, PathBuf};
    pub mod page_extraction {
        use std::path::Path;
        pub fn extract_pages_to_file<P: AsRef<Path>, Q: AsRef<Path>>(_i: P, _p: &[usize], _o: Q) -> Result<(), String> {
            Err("stub".into())
        }
    }
    pub enum SplitMode {
        ChunkSize(usize),
    }
    pub struct SplitOptions {
        pub mode: SplitMode,
        pub output_pattern: String,
        pub preserve_metadata: bool,
        pub optimize: bool,
    }
    pub fn split_pdf<P: AsRef<Path>>(_i: P, _o: SplitOptions) -> Result<Vec<PathBuf>, String> {
        Err("stub".into())
    }
    pub struct MergeInput;
    impl MergeInput {
        pub fn new(_p: PathBuf) -> Self {
            MergeInput
        }
    }
    #[derive(Default)]
    pub struct MergeOptions;
    pub fn merge_pdfs<P: AsRef<Path>>(_i: Vec<MergeInput>, _o: P, _opt: MergeOptions) -> Result<(), String> {
        Err("stub".into())
    }
}

include!(concat!(env!("OUT_DIR"), "/batch_shuttle.rs"));

use batch::{BatchJob, BatchOptions, BatchProcessor, BatchProgress, JobResult, ProgressInfo, WorkerOptions, WorkerPool};
use error::PdfError;
use std::collections::BTreeMap;
use std::path::PathBuf;
use std::sync::atomic::{AtomicU64, AtomicUsize, Ordering::SeqCst};
use std::sync::{Arc, Mutex};

#[derive(Clone, Copy, Debug, PartialEq, Eq)]
enum J {
    Ok,
    OkYield,
    Err,
    ErrYield,
    CopyMissing, // Rotate on a missing input: a failing NON-custom job (sets the flag under stop_on_error)
}
#[derive(Clone, Copy, Debug, PartialEq, Eq)]
enum Mode {
    Pool,
    Proc,
    ProcCb,
}
#[derive(Clone, Copy, Debug, PartialEq, Eq)]
enum Cancel {
    Never,
    Before,
    InJob(usize),
}
#[derive(Clone, Debug)]
struct Case {
    jobs: Vec<J>,
    par: usize,
    soe: bool,
    mode: Mode,
    cancel: Cancel,
}

#[derive(Clone, Debug)]
struct Ev {
    job: usize,
    start: u64,
    end: u64,
    tid: shuttle::thread::ThreadId,
    failed_at_start: usize,
}

#[derive(Default)]
struct Rec {
    seq: AtomicU64,
    events: Mutex<Vec<Ev>>,
    cb_failed: AtomicUsize,
    last: Mutex<Option<[usize; 4]>>,
}

fn name(i: usize, j: J) -> String {
    match j {
        J::CopyMissing => format!("/nonexistent-vp-c22/j{i}_in.pdf"),
        _ => format!("c22-job-{i}"),
    }
}
fn matches_job(i: usize, j: J, reported: &str) -> bool {
    match j {
        J::CopyMissing => reported.contains(&format!("j{i}_in.pdf")),
        _ => reported == format!("c22-job-{i}"),
    }
}

fn build(c: &Case, rec: &Arc<Rec>, progress: Option<Arc<BatchProgress>>, flag: Option<Arc<shuttle::sync::atomic::AtomicBool>>) -> Vec<BatchJob> {
    let canceller = match (c.mode, c.cancel) {
        (Mode::Pool, Cancel::InJob(k)) => Some(k),
        _ => None,
    };
    c.jobs
        .iter()
        .enumerate()
        .map(|(i, &j)| match j {
            J::CopyMissing => BatchJob::Rotate { input: PathBuf::from(name(i, j)), output: PathBuf::from("/nonexistent-vp-c22/out.pdf"), rotation: 90, pages: None },
            _ => {
                let rec = rec.clone();
                let progress = progress.clone();
                let flag = if canceller == Some(i) { flag.clone() } else { None };
                BatchJob::Custom {
                    name: name(i, j),
                    operation: Box::new(move || {
                        let start = rec.seq.fetch_add(1, SeqCst);
                        let failed_at_start = match &progress {
                            Some(p) => p.get_info().failed_jobs,
                            None => rec.cb_failed.load(SeqCst),
                        };
                        if matches!(j, J::OkYield | J::ErrYield) {
                            shuttle::thread::yield_now();
                        }
                        if let Some(f) = &flag {
                            f.store(true, shuttle::sync::atomic::Ordering::SeqCst);
                        }
                        let end = rec.seq.fetch_add(1, SeqCst);
                        rec.events.lock().unwrap().push(Ev { job: i, start, end, tid: shuttle::thread::current().id(), failed_at_start });
                        match j {
                            J::Ok | J::OkYield => Ok(()),
                            _ => Err(PdfError::InvalidStructure("generated error".into())),
                        }
                    }),
                }
            }
        })
        .collect()
}

#[derive(Clone, Copy, Debug, PartialEq, Eq)]
enum RK {
    S,
    F,
    C,
}

/// one execution under the current shuttle schedule; returns the violated clauses (signature, detail)
fn scenario(c: &Case) -> Vec<(String, String)> {
    let rec = Arc::new(Rec::default());
    let n = c.jobs.len();
    let mut summary = None;
    let mut info: Option<[usize; 4]> = None;
    let results: Vec<JobResult> = match c.mode {
        Mode::Pool => {
            let progress = Arc::new(BatchProgress::new());
            let flag = Arc::new(shuttle::sync::atomic::AtomicBool::new(false));
            let jobs = build(c, &rec, Some(progress.clone()), Some(flag.clone()));
            for _ in 0..n {
                progress.add_job();
            }
            if c.cancel == Cancel::Before {
                flag.store(true, shuttle::sync::atomic::Ordering::SeqCst);
            }
            let pool = WorkerPool::new(WorkerOptions { num_workers: c.par, memory_limit: 1 << 20, job_timeout: None });
            let r = pool.process_jobs(jobs, progress.clone(), flag, c.soe);
            let i = progress.get_info();
            info = Some([i.total_jobs, i.completed_jobs, i.failed_jobs, i.running_jobs]);
            r
        }
        Mode::Proc | Mode::ProcCb => {
            let mut opts = BatchOptions::default().with_parallelism(c.par).stop_on_error(c.soe);
            if c.mode == Mode::ProcCb {
                let rec2 = rec.clone();
                opts = opts.with_progress_callback(move |i: &ProgressInfo| {
                    rec2.cb_failed.fetch_max(i.failed_jobs, SeqCst);
                    *rec2.last.lock().unwrap() = Some([i.total_jobs, i.completed_jobs, i.failed_jobs, i.running_jobs]);
                });
            }
            let mut p = BatchProcessor::new(opts);
            for j in build(c, &rec, None, None) {
                p.add_job(j);
            }
            if c.cancel == Cancel::Before {
                p.cancel();
            }
            match p.execute() {
                Ok(s) => {
                    summary = Some((s.total_jobs, s.successful, s.failed));
                    if c.mode == Mode::ProcCb {
                        info = *rec.last.lock().unwrap();
                    }
                    s.results
                }
                Err(e) => return vec![("C22/returns-summary|no-panic".into(), e.to_string())],
            }
        }
    };
    let events = rec.events.lock().unwrap().clone();
    let res: Vec<(String, RK)> = results
        .iter()
        .map(|r| match r {
            JobResult::Success { job_name, .. } => (job_name.clone(), RK::S),
            JobResult::Failed { job_name, .. } => (job_name.clone(), RK::F),
            JobResult::Cancelled { job_name } => (job_name.clone(), RK::C),
        })
        .collect();
    let mut v = Vec::new();
    let ctxt = || format!("case {c:?}; results {res:?}; events {:?}", events.iter().map(|e| (e.job, e.start, e.end, e.failed_at_start)).collect::<Vec<_>>());
    // one result per job, in submission order
    let mut count = vec![0; n];
    for (nm, _) in &res {
        for i in 0..n {
            if matches_job(i, c.jobs[i], nm) {
                count[i] += 1;
            }
        }
    }
    if res.len() != n || count.iter().any(|&x| x != 1) {
        v.push(("C22/one-result-per-job|no-panic".into(), ctxt()));
    }
    for p in 0..res.len().min(n) {
        if !matches_job(p, c.jobs[p], &res[p].0) {
            v.push(("C22/result-i-is-job-i|no-panic".into(), ctxt()));
            break;
        }
    }
    let result_of = |i: usize| res.iter().find(|(nm, _)| matches_job(i, c.jobs[i], nm)).map(|r| r.1);
    let ran = |i: usize| events.iter().any(|e| e.job == i);
    for i in 0..n {
        let Some(k) = result_of(i) else { continue };
        let bad = match c.jobs[i] {
            J::CopyMissing => k == RK::S,
            J::Ok | J::OkYield => (ran(i) && k != RK::S) || (!ran(i) && k == RK::S),
            J::Err | J::ErrYield => (ran(i) && k != RK::F) || k == RK::S,
        } || (k == RK::C && ran(i));
        if bad {
            let kind = if c.jobs[i] == J::CopyMissing { "copy" } else { "custom" };
            v.push((format!("C22/result-consistent-with-outcome|{kind}"), format!("job {i}: {k:?}; {}", ctxt())));
        }
    }
    let ns = res.iter().filter(|r| r.1 == RK::S).count();
    let nf = res.iter().filter(|r| r.1 == RK::F).count();
    if let Some((t, s, f)) = summary {
        if t != n || s != ns || f != nf {
            v.push(("C22/counts-match-results|summary".into(), format!("summary {t}/{s}/{f}; {}", ctxt())));
        }
    }
    if let Some([t, cpl, f, r]) = info {
        if t != n || cpl != ns || f != nf || r != 0 {
            v.push(("C22/progress-final|no-panic".into(), format!("info total={t} completed={cpl} failed={f} running={r}; {}", ctxt())));
        }
    } else if c.mode == Mode::ProcCb {
        v.push(("C22/progress-final|no-final-callback".into(), ctxt()));
    }
    let cancel = match (c.mode, c.cancel) {
        (Mode::Pool, x) => x,
        (_, Cancel::InJob(_)) => Cancel::Never,
        (_, x) => x,
    };
    if cancel == Cancel::Before {
        if res.iter().any(|r| r.1 != RK::C) {
            v.push(("C22/cancel-before-execute|not-reported-cancelled".into(), ctxt()));
        }
        if !events.is_empty() {
            v.push(("C22/cancel-before-execute|operation-ran".into(), ctxt()));
        }
    }
    if c.soe && cancel == Cancel::Never {
        let failing = |j: usize| matches!(c.jobs[j], J::Err | J::ErrYield);
        let mut hit: Option<&str> = None;
        for k in &events {
            for e in &events {
                if e.tid == k.tid && e.end < k.start && failing(e.job) {
                    hit = Some("failer=custom,victim=custom");
                }
            }
            if hit.is_none() && c.par == 1 && k.failed_at_start >= 1 {
                hit = Some(if events.iter().any(|e| failing(e.job) && e.end < k.start) { "failer=custom,victim=custom" } else { "failer=non-custom,victim=custom" });
            }
        }
        if let Some(h) = hit {
            v.push((format!("C22/stop-on-error|{h}"), ctxt()));
        }
    }
    v
}

struct Rng(u64);
impl Rng {
    fn next(&mut self) -> u64 {
        self.0 ^= self.0 << 13;
        self.0 ^= self.0 >> 7;
        self.0 ^= self.0 << 17;
        self.0
    }
    fn below(&mut self, n: u64) -> u64 {
        (self.next() >> 11) % n
    }
}

fn gen_case(r: &mut Rng, max_jobs: u64, max_par: u64, avoid_custom_fail_with_soe: bool) -> Case {
    let n = 1 + r.below(max_jobs) as usize;
    let mode = [Mode::Pool, Mode::Pool, Mode::Proc, Mode::ProcCb][r.below(4) as usize];
    let soe = r.below(2) == 0;
    let cancel = match (mode, r.below(6)) {
        (_, 0) => Cancel::Before,
        (Mode::Pool, 1 | 2) => Cancel::InJob(r.below(n as u64) as usize),
        _ => Cancel::Never,
    };
    let restricted = soe && cancel == Cancel::Never && avoid_custom_fail_with_soe && r.below(10) != 0;
    let jobs = (0..n)
        .map(|_| {
            let j = [J::Ok, J::OkYield, J::Err, J::ErrYield, J::CopyMissing, J::Ok][r.below(6) as usize];
            if restricted && matches!(j, J::Err | J::ErrYield) {
                J::CopyMissing
            } else {
                j
            }
        })
        .collect();
    Case { jobs, par: 1 + r.below(max_par) as usize, soe, mode, cancel }
}

fn main() {
    let tier = std::env::args().nth(1).unwrap_or_else(|| "quick".into());
    let seed: u64 = std::env::var("VERIF_SEED").ok().and_then(|s| s.parse().ok()).unwrap_or(0);
    let vd = std::env::var("VERIF_DIR").unwrap_or_else(|_| "/verif".into());
    let known: Vec<String> = std::fs::read_to_string(format!("{vd}/known_findings.jsonl"))
        .unwrap_or_default()
        .lines()
        .filter(|l| l.contains("\"C22\"") && l.contains("\"known\""))
        .filter_map(|l| l.split("\"signature\":").nth(1).and_then(|s| s.split('"').nth(1)).map(|s| s.to_string()))
        .collect();
    std::panic::set_hook(Box::new(|_| {})); // shuttle failures are caught and reported below
    let (cases, iters, dfs_cases, dfs_cap) = if tier == "thorough" { (4000, 25, 60, 200_000) } else { (200, 5, 6, 20_000) };
    let mut rng = Rng(0x9E3779B97F4A7C15 ^ seed.wrapping_mul(0xD1342543DE82EF95) | 1);
    let found: Arc<Mutex<BTreeMap<String, (u64, String)>>> = Arc::new(Mutex::new(BTreeMap::new()));
    let executions = Arc::new(AtomicU64::new(0));
    let soe_known = known.iter().any(|k| k == "C22/stop-on-error|failer=custom,victim=custom");
    let run = |c: Case, what: &str, f: &dyn Fn(Box<dyn Fn() + Send + Sync>)| {
        let (found2, ex2, c2) = (found.clone(), executions.clone(), c.clone());
        let body = Box::new(move || {
            ex2.fetch_add(1, SeqCst);
            for (sig, detail) in scenario(&c2) {
                let mut g = found2.lock().unwrap();
                let e = g.entry(sig).or_insert((0, detail));
                e.0 += 1;
            }
        });
        // shuttle reports deadlocks and panics itself by panicking with the failing schedule
        if let Err(p) = std::panic::catch_unwind(std::panic::AssertUnwindSafe(|| f(body))) {
            let msg = p.downcast_ref::<String>().cloned().or_else(|| p.downcast_ref::<&str>().map(|s| s.to_string())).unwrap_or_default();
            let mut g = found.lock().unwrap();
            g.entry("C22/returns|shuttle-deadlock-or-panic".into()).or_insert((0, format!("{what} on {c:?}: {}", &msg[..msg.len().min(600)]))).0 += 1;
        }
    };
    for _ in 0..cases {
        let c = gen_case(&mut rng, 5, 3, soe_known);
        run(c.clone(), "random", &|b| shuttle::check_random(b, iters));
        // PCT is an unfair scheduler: the processor's polling thread (sleep == yield under shuttle) is a
        // spin loop it may run forever ("exceeded max_steps"), an artefact of the scheduler, not a deadlock.
        let mut c = c;
        if c.mode == Mode::ProcCb {
            c.mode = Mode::Proc;
        }
        run(c, "pct", &|b| shuttle::check_pct(b, iters, 3));
    }
    let random_execs = executions.load(SeqCst);
    // bounded exhaustive part: ≤ 3 jobs × ≤ 2 workers, depth-first over all schedules (capped)
    let mut dfs_complete = 0;
    for _ in 0..dfs_cases {
        let mut c = gen_case(&mut rng, 3, 2, soe_known);
        c.mode = Mode::Pool; // the processor's polling thread makes the schedule tree unbounded
        let before = executions.load(SeqCst);
        run(c, "dfs", &|b| shuttle::check_dfs(b, Some(dfs_cap)));
        if executions.load(SeqCst) - before < dfs_cap as u64 {
            dfs_complete += 1;
        }
    }
    let total = executions.load(SeqCst);
    let g = found.lock().unwrap();
    if std::env::var("VP_SHUTTLE_JSON").is_ok() {
        // machine-readable result for the main harness (props/c22.rs), which applies known_findings.jsonl itself
        let esc = |s: &str| s.chars().flat_map(|c| match c { '"' => "\\\"".chars().collect::<Vec<_>>(), '\\' => "\\\\".chars().collect(), '\n' => "\\n".chars().collect(), c if (c as u32) < 0x20 => " ".chars().collect(), c => vec![c] }).collect::<String>();
        let items: Vec<String> = g.iter().map(|(sig, (n, d))| format!("{{\"sig\":\"{}\",\"n\":{n},\"detail\":\"{}\"}}", esc(sig), esc(&d.chars().take(900).collect::<String>()))).collect();
        println!("JSON {{\"cases\":{cases},\"random_pct\":{random_execs},\"dfs\":{},\"dfs_cases\":{dfs_cases},\"dfs_complete\":{dfs_complete},\"found\":[{}]}}", total - random_execs, items.join(","));
        std::process::exit(0);
    }
    let mut violations = 0;
    for (sig, (n, detail)) in g.iter() {
        if known.iter().any(|k| k == sig) {
            println!("KNOWN-FINDING: property=C22 (shuttle) [{sig}] ({n} schedules)");
        } else {
            violations += 1;
            println!("VIOLATION property=C22 (shuttle) signature={sig} schedules={n}\n  detail: {}", &detail[..detail.len().min(900)]);
        }
    }
    eprintln!(
        "[C22-shuttle] tier={tier} seed={seed}: {cases} cases, {random_execs} random+PCT schedules, {} DFS schedules over {dfs_cases} small cases ({dfs_complete} explored completely, cap {dfs_cap}), {violations} violations",
        total - random_execs
    );
    std::process::exit(if violations > 0 { 1 } else { 0 });
}
