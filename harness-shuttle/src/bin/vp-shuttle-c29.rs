//! C29 — the concurrent clause under shuttle-controlled schedules. The library is NOT modified: build.rs copies
//! memory/cache.rs from the working tree with `std::sync::` redirected to shuttle's primitives (crate::ssync).
//! For every generated case (capacity 0–3, two or three threads with one to three/four operations each over three
//! keys) ALL interleavings at lock granularity are enumerated depth-first (capped), plus random and PCT schedules;
//! each execution's recorded history, followed by a quiescent probe (len, get of every key) made after the threads
//! were joined, must be linearizable with respect to the abstract LRU model, and no observed size may exceed
//! the capacity.
//!
//! usage: vp-shuttle-c29 [quick|thorough]   env: VERIF_SEED   output: one line `JSON {...}`; exit 0 always
#![allow(dead_code)]

pub mod ssync {
    pub use shuttle::sync::*;
    pub use std::sync::Arc;
    pub use std::sync::Weak;
}

#[derive(Clone, Copy, Debug, PartialEq, Eq, Hash, PartialOrd, Ord)]
pub struct ObjectId(u32, u16);
impl ObjectId {
    pub fn new(n: u32, g: u16) -> Self {
        ObjectId(n, g)
    }
    pub fn number(&self) -> u32 {
        self.0
    }
    pub fn generation(&self) -> u16 {
        self.1
    }
}
#[derive(Clone, Debug, PartialEq)]
pub enum PdfObject {
    Null,
    Integer(i64),
}

include!(concat!(env!("OUT_DIR"), "/cache_shuttle.rs"));

use cache::ObjectCache;
use std::collections::{BTreeMap, HashSet};
use std::sync::atomic::{AtomicU64, Ordering::SeqCst};
use std::sync::{Arc, Mutex};

#[derive(Clone, Copy, Debug, PartialEq, Eq, Hash)]
enum Op {
    Get(u8),
    Put(u8, u8),
    Clear,
    Len,
}
#[derive(Clone, Copy, Debug, PartialEq, Eq)]
enum Res {
    Got(Option<u8>),
    Unit,
    Len(usize),
}

/// Abstract LRU: front = most recently used (same 30 lines as props/c29.rs).
#[derive(Clone, Debug, Default, PartialEq, Eq, Hash)]
struct Model {
    cap: usize,
    order: Vec<(u8, u8)>,
}
impl Model {
    fn apply(&mut self, op: Op) -> Res {
        match op {
            Op::Get(k) => {
                if let Some(i) = self.order.iter().position(|e| e.0 == k) {
                    let e = self.order.remove(i);
                    self.order.insert(0, e);
                    Res::Got(Some(e.1))
                } else {
                    Res::Got(None)
                }
            }
            Op::Put(k, v) => {
                if self.cap == 0 {
                    return Res::Unit;
                }
                if let Some(i) = self.order.iter().position(|e| e.0 == k) {
                    self.order.remove(i);
                } else if self.order.len() >= self.cap {
                    self.order.pop();
                }
                self.order.insert(0, (k, v));
                Res::Unit
            }
            Op::Clear => {
                self.order.clear();
                Res::Unit
            }
            Op::Len => Res::Len(self.order.len()),
        }
    }
}

#[derive(Clone, Debug)]
struct Event {
    op: Op,
    res: Res,
    start: u64,
    end: u64,
}

fn linearizable(cap: usize, evs: &[Event]) -> bool {
    fn go(m: &Model, evs: &[Event], done: u32, memo: &mut HashSet<(u32, Model)>) -> bool {
        if done.count_ones() as usize == evs.len() {
            return true;
        }
        if !memo.insert((done, m.clone())) {
            return false;
        }
        for i in 0..evs.len() {
            if done & (1 << i) != 0 {
                continue;
            }
            let minimal = (0..evs.len()).all(|j| j == i || done & (1 << j) != 0 || !(evs[j].end < evs[i].start));
            if !minimal {
                continue;
            }
            let mut m2 = m.clone();
            if m2.apply(evs[i].op) == evs[i].res && go(&m2, evs, done | (1 << i), memo) {
                return true;
            }
        }
        false
    }
    go(&Model { cap, order: Vec::new() }, evs, 0, &mut HashSet::new())
}

#[derive(Clone, Debug)]
struct Case {
    capacity: usize,
    threads: Vec<Vec<Op>>,
    prefill: Vec<Op>,
}

fn oid(k: u8) -> ObjectId {
    ObjectId::new(k as u32 + 1, 0)
}
fn val_of(o: &PdfObject) -> u8 {
    match o {
        PdfObject::Integer(i) => *i as u8,
        _ => 255,
    }
}
fn exec(cache: &ObjectCache, vals: &[Arc<PdfObject>; 2], op: Op) -> Res {
    match op {
        Op::Get(k) => Res::Got(cache.get(&oid(k)).map(|a| val_of(&a))),
        Op::Put(k, v) => {
            cache.put(oid(k), vals[(v & 1) as usize].clone());
            Res::Unit
        }
        Op::Clear => {
            cache.clear();
            Res::Unit
        }
        Op::Len => Res::Len(cache.stats().size),
    }
}

const KEYS: u8 = 3;

/// One execution under the current schedule; returns the failed clauses.
fn scenario(c: &Case) -> Vec<(String, String)> {
    let cache = Arc::new(ObjectCache::new(c.capacity));
    let vals = [Arc::new(PdfObject::Integer(0)), Arc::new(PdfObject::Integer(1))];
    let clock = Arc::new(AtomicU64::new(0)); // std atomic: not a scheduling point
    let all: Arc<Mutex<Vec<Event>>> = Arc::new(Mutex::new(Vec::new()));
    let record = |all: &Mutex<Vec<Event>>, clock: &AtomicU64, cache: &ObjectCache, vals: &[Arc<PdfObject>; 2], op: Op| {
        let start = clock.fetch_add(1, SeqCst);
        let res = exec(cache, vals, op);
        let end = clock.fetch_add(1, SeqCst);
        all.lock().unwrap().push(Event { op, res, start, end });
    };
    for &op in &c.prefill {
        record(&all, &clock, &cache, &vals, op);
    }
    let mut hs = Vec::new();
    for t in &c.threads {
        let (cache, vals, clock, all, t) = (cache.clone(), vals.clone(), clock.clone(), all.clone(), t.clone());
        hs.push(shuttle::thread::spawn(move || {
            for op in t {
                let start = clock.fetch_add(1, SeqCst);
                let res = exec(&cache, &vals, op);
                let end = clock.fetch_add(1, SeqCst);
                all.lock().unwrap().push(Event { op, res, start, end });
            }
        }));
    }
    let mut v = Vec::new();
    for h in hs {
        if h.join().is_err() {
            v.push(("C29/no-panic|ObjectCache,schedule".to_string(), format!("a cache thread panicked in {c:?}")));
            return v;
        }
    }
    // quiescent probe: part of the same history, after everything else in real time
    record(&all, &clock, &cache, &vals, Op::Len);
    for k in 0..KEYS {
        record(&all, &clock, &cache, &vals, Op::Get(k));
    }
    // a recency entry left behind without its map entry only shows when it is evicted: fill with fresh keys
    for j in 0..(c.capacity as u8 + 1) {
        record(&all, &clock, &cache, &vals, Op::Put(10 + j, 0));
    }
    record(&all, &clock, &cache, &vals, Op::Len);
    record(&all, &clock, &cache, &vals, Op::Get(10 + c.capacity as u8));
    let evs = all.lock().unwrap().clone();
    for e in &evs {
        if let Res::Len(l) = e.res {
            if l > c.capacity {
                v.push(("C29/never-more-than-capacity|ObjectCache,schedule".to_string(), format!("stats().size {l} > capacity {} in {c:?}; history {evs:?}", c.capacity)));
                break;
            }
        }
    }
    if evs.len() <= 30 && !linearizable(c.capacity, &evs) {
        v.push(("C29/concurrent-history-linearizable|ObjectCache,schedule".to_string(), format!("no linearization for {c:?}; history {evs:?}")));
    }
    v
}

struct Rng(u64);
impl Rng {
    fn next(&mut self) -> u64 {
        self.0 ^= self.0 << 13;
        self.0 ^= self.0 >> 7;
        self.0 ^= self.0 << 17;
        self.0
    }
    fn below(&mut self, n: u64) -> u64 {
        (self.next() >> 11) % n
    }
}
fn gen_op(r: &mut Rng) -> Op {
    match r.below(10) {
        0..=3 => Op::Get(r.below(KEYS as u64) as u8),
        4..=7 => Op::Put(r.below(KEYS as u64) as u8, r.below(2) as u8),
        8 => Op::Len,
        _ => Op::Clear,
    }
}
fn gen_case(r: &mut Rng, max_threads: u64, max_ops: u64) -> Case {
    let nt = 2 + r.below(max_threads - 1) as usize;
    let capacity = r.below(4) as usize;
    let prefill = (0..r.below(capacity as u64 + 2)).map(|_| Op::Put(r.below(KEYS as u64) as u8, r.below(2) as u8)).collect();
    let threads = (0..nt).map(|_| (0..1 + r.below(max_ops)).map(|_| gen_op(r)).collect()).collect();
    Case { capacity, threads, prefill }
}

fn main() {
    let tier = std::env::args().nth(1).unwrap_or_else(|| "quick".into());
    let seed: u64 = std::env::var("VERIF_SEED").ok().and_then(|s| s.parse().ok()).unwrap_or(0);
    if !CACHE_SRC_OK {
        println!("JSON {{\"ran\":false,\"why\":{:?}}}", CACHE_SRC_WHY);
        return;
    }
    std::panic::set_hook(Box::new(|_| {}));
    let (dfs_cases, dfs_cap, rnd_cases, iters) = if tier == "thorough" { (3200, 40_000, 8000, 40) } else { (640, 4_000, 800, 10) };
    let found: Arc<Mutex<BTreeMap<String, (u64, String)>>> = Arc::new(Mutex::new(BTreeMap::new()));
    let counters: Arc<[AtomicU64; 6]> = Arc::new(Default::default()); // dfs execs, random+pct execs, dfs complete, two, three, (unused)
    let shards = 8u64;
    let mut hs = Vec::new();
    for shard in 0..shards {
        let (found, counters) = (found.clone(), counters.clone());
        // shuttle keeps its execution state per OS thread, so independent campaigns can run side by side
        hs.push(std::thread::spawn(move || {
            let mut rng = Rng((0xC29C29C29C29C29 ^ seed.wrapping_mul(0xD1342543DE82EF95) ^ (shard + 1).wrapping_mul(0x9E3779B97F4A7C15)) | 1);
            let executions = Arc::new(AtomicU64::new(0));
            let run = |c: Case, what: &str, f: &dyn Fn(Box<dyn Fn() + Send + Sync>)| {
                let (found2, ex2, c2) = (found.clone(), executions.clone(), c.clone());
                let body = Box::new(move || {
                    ex2.fetch_add(1, SeqCst);
                    for (sig, detail) in scenario(&c2) {
                        let mut g = found2.lock().unwrap();
                        g.entry(sig).or_insert((0, detail)).0 += 1;
                    }
                });
                if let Err(p) = std::panic::catch_unwind(std::panic::AssertUnwindSafe(|| f(body))) {
                    let msg = p.downcast_ref::<String>().cloned().or_else(|| p.downcast_ref::<&str>().map(|s| s.to_string())).unwrap_or_default();
                    let mut g = found.lock().unwrap();
                    g.entry("C29/returns|ObjectCache,schedule,deadlock-or-panic".into()).or_insert((0, format!("{what} on {c:?}: {}", &msg[..msg.len().min(600)]))).0 += 1;
                }
            };
            for _ in 0..dfs_cases / shards {
                // 2 threads × ≤ 3 ops or 3 threads × ≤ 2 ops, enumerated completely unless the cap is hit
                let c = if rng.below(2) == 0 { gen_case(&mut rng, 2, 3) } else { gen_case(&mut rng, 3, 2) };
                counters[if c.threads.len() == 2 { 3 } else { 4 }].fetch_add(1, SeqCst);
                let before = executions.load(SeqCst);
                run(c, "dfs", &|b| shuttle::check_dfs(b, Some(dfs_cap)));
                if executions.load(SeqCst) - before < dfs_cap as u64 {
                    counters[2].fetch_add(1, SeqCst);
                }
            }
            let dfs_execs = executions.load(SeqCst);
            counters[0].fetch_add(dfs_execs, SeqCst);
            for _ in 0..rnd_cases / shards {
                let c = gen_case(&mut rng, 3, 4);
                run(c.clone(), "random", &|b| shuttle::check_random(b, iters));
                run(c, "pct", &|b| shuttle::check_pct(b, iters, 3));
            }
            counters[1].fetch_add(executions.load(SeqCst) - dfs_execs, SeqCst);
        }));
    }
    for h in hs {
        let _ = h.join();
    }
    let (dfs_execs, rnd_execs, dfs_complete, two, three) = (counters[0].load(SeqCst), counters[1].load(SeqCst), counters[2].load(SeqCst), counters[3].load(SeqCst), counters[4].load(SeqCst));
    let total = dfs_execs + rnd_execs;
    let g = found.lock().unwrap();
    let esc = |s: &str| s.chars().flat_map(|c| match c { '"' => "\\\"".chars().collect::<Vec<_>>(), '\\' => "\\\\".chars().collect(), '\n' => "\\n".chars().collect(), c if (c as u32) < 0x20 => " ".chars().collect(), c => vec![c] }).collect::<String>();
    let items: Vec<String> = g.iter().map(|(sig, (n, d))| format!("{{\"sig\":\"{}\",\"n\":{n},\"detail\":\"{}\"}}", esc(sig), esc(&d.chars().take(1200).collect::<String>()))).collect();
    println!(
        "JSON {{\"ran\":true,\"dfs_cases\":{dfs_cases},\"dfs_complete\":{dfs_complete},\"dfs\":{dfs_execs},\"two_thread_cases\":{two},\"three_thread_cases\":{three},\"random_cases\":{rnd_cases},\"random_pct\":{},\"found\":[{}]}}",
        total - dfs_execs,
        items.join(",")
    );
}
