//! Fallback of DESIGN §4 H3: no change in the library. The batch sources are read from the working
//! tree at build time, std::{thread, sync} is substituted textually by shuttle::, and the result is
//! written as ONE inline module tree into OUT_DIR. Every substitution anchor must be present exactly
//! as expected, otherwise the build fails (the caller reports exit 2, never guesses).
use std::{env, fs, path::PathBuf};

fn sub(src: &str, file: &str, from: &str, to: &str) -> String {
    if src.matches(from).count() != 1 {
        panic!("substitution anchor not found exactly once in {file}: {from:?}");
    }
    src.replacen(from, to, 1)
}

fn strip(src: &str) -> String {
    // keep only the non-test part; drop inner doc comments (illegal after items in an inline module)
    let cut = src.find("#[cfg(test)]").unwrap_or(src.len());
    src[..cut].lines().filter(|l| !l.trim_start().starts_with("//!")).collect::<Vec<_>>().join("\n")
}

fn main() {
    let repo = env::var("VP_REPO").unwrap_or_else(|_| "/repo".into());
    let dir = PathBuf::from(&repo).join("oxidize-pdf-core/src/batch");
    println!("cargo:rerun-if-env-changed=VP_REPO");
    let rd = |n: &str| {
        let p = dir.join(n);
        println!("cargo:rerun-if-changed={}", p.display());
        strip(&fs::read_to_string(&p).unwrap_or_else(|e| panic!("cannot read {}: {e}", p.display())))
    };
    let mut m = rd("mod.rs");
    m = sub(&m, "mod.rs", "use std::sync::{\n    atomic::{AtomicBool, Ordering},\n    Arc, Mutex,\n};", "use shuttle::sync::{atomic::{AtomicBool, Ordering}, Mutex};\nuse std::sync::Arc;");
    m = sub(&m, "mod.rs", "use std::thread;", "use shuttle::thread;");
    let mut w = rd("worker.rs");
    w = sub(&w, "worker.rs", "use std::sync::atomic::{AtomicBool, Ordering};", "use shuttle::sync::atomic::{AtomicBool, Ordering};");
    w = sub(&w, "worker.rs", "use std::sync::{mpsc, Arc, Mutex};", "use shuttle::sync::{mpsc, Mutex};\nuse std::sync::Arc;");
    w = sub(&w, "worker.rs", "use std::thread;", "use shuttle::thread;");
    let mut p = rd("progress.rs");
    p = sub(&p, "progress.rs", "use std::sync::atomic::{AtomicUsize, Ordering};", "use shuttle::sync::atomic::{AtomicUsize, Ordering};");
    let j = rd("job.rs");
    let r = rd("result.rs");
    for (name, body) in [("job", &j), ("progress", &p), ("result", &r), ("worker", &w)] {
        m = sub(&m, "mod.rs", &format!("pub mod {name};"), &format!("pub mod {name} {{\n{body}\n}}"));
    }
    cache_part(&repo);
    let out = PathBuf::from(env::var("OUT_DIR").unwrap()).join("batch_shuttle.rs");
    fs::write(&out, format!("#[allow(dead_code, unused_imports, clippy::all)]\npub mod batch {{\n{m}\n}}\n")).unwrap();
}

/// C29: memory/cache.rs from the working tree, every `std::sync::` path redirected to `crate::ssync::` (shuttle's
/// RwLock/Mutex/atomics, std's Arc) and `std::thread` to shuttle's. The substitution is global rather than anchored, so a
/// change of the locking discipline in the library (Mutex instead of RwLock, an added atomic) still builds and is still
/// explored. If the file cannot be transformed the generated module only says so and `vp-shuttle-c29` reports ran=false.
fn cache_part(repo: &str) {
    let p = PathBuf::from(repo).join("oxidize-pdf-core/src/memory/cache.rs");
    println!("cargo:rerun-if-changed={}", p.display());
    let out = PathBuf::from(env::var("OUT_DIR").unwrap()).join("cache_shuttle.rs");
    let stub = |why: &str| {
        format!(
            "pub const CACHE_SRC_OK: bool = false;\npub const CACHE_SRC_WHY: &str = {why:?};\npub mod cache {{\n use super::{{ObjectId, PdfObject}};\n use std::sync::Arc;\n pub struct CacheStats {{ pub size: usize, pub capacity: usize }}\n pub struct ObjectCache;\n impl ObjectCache {{\n  pub fn new(_c: usize) -> Self {{ ObjectCache }}\n  pub fn get(&self, _i: &ObjectId) -> Option<Arc<PdfObject>> {{ None }}\n  pub fn put(&self, _i: ObjectId, _o: Arc<PdfObject>) {{}}\n  pub fn clear(&self) {{}}\n  pub fn stats(&self) -> CacheStats {{ CacheStats {{ size: 0, capacity: 0 }} }}\n }}\n}}\n"
        )
    };
    let src = match fs::read_to_string(&p) {
        Ok(s) => s,
        Err(e) => {
            fs::write(&out, stub(&format!("cannot read {}: {e}", p.display()))).unwrap();
            return;
        }
    };
    let mut m = strip(&src);
    let uses = ["use crate::objects::ObjectId;", "use crate::parser::PdfObject;"];
    for u in uses {
        if m.matches(u).count() != 1 {
            fs::write(&out, stub(&format!("anchor not found exactly once in memory/cache.rs: {u}"))).unwrap();
            return;
        }
    }
    m = m.replacen(uses[0], "use super::ObjectId;", 1).replacen(uses[1], "use super::PdfObject;", 1);
    if m.contains("crate::") {
        fs::write(&out, stub("memory/cache.rs refers to further crate-internal items")).unwrap();
        return;
    }
    m = m.replace("std::sync::", "crate::ssync::").replace("std::thread", "shuttle::thread");
    fs::write(&out, format!("pub const CACHE_SRC_OK: bool = true;\npub const CACHE_SRC_WHY: &str = \"\";\n#[allow(dead_code, unused_imports, clippy::all)]\npub mod cache {{\n{m}\n}}\n")).unwrap();
}
