//! reftab — ISO 32000-1 Annex D single-byte encodings as data.
//!
//! `LATIN` is a transcription of Table D.2 ("Latin character set and encodings": one row per
//! character NAME with its octal code in StandardEncoding, MacRomanEncoding, WinAnsiEncoding and
//! PDFDocEncoding; 0 stands for the spec's "—"). `DUPLICATES` carries the codes that the table's
//! footnotes add (hyphen 255 in WIN, space 312 in MAC and 240 in WIN). `PDFDOC_EXTRA` are the
//! rows of Table D.3 that are not in the Latin character set (HT, LF, CR). Glyph names are turned
//! into Unicode through `AGL`, a subset of the Adobe Glyph List (first value = the AGLFN value,
//! further values = the additional values the Adobe Glyph List 1.2 gave the same name).
//!
//! The tables are redundantly checked at start-up (`self_check`): StandardEncoding against a
//! second transcription in *code order* (PostScript Language Reference, Appendix E.6);
//! PDFDocEncoding against `refpdf::textstring` (transcribed from Table D.3 by code);
//! WinAnsi and MacRoman against Python's `cp1252` and `mac_roman` codecs (`calibrate_python`).
//!
//! Accepted differences between Annex D and the Python codecs — every one is listed here with its
//! reason; any other difference is a calibration failure (exit 2, "harness broken"):
//!
//!   WinAnsi vs cp1252
//!   * 0x00–0x1F, 0x7F  Annex D lists no character below 040 and none at 177; cp1252 maps the C0
//!                      controls to themselves. Treated as undefined (any decoding accepted).
//!   * 0x81 0x8D 0x8F 0x90 0x9D  undefined on both sides (Python refuses to decode them). Footnote 3
//!                      of Table D.2 says unused codes > 040 "map to the bullet character … other
//!                      codes are subject to future reassignment": undefined, any decoding accepted.
//!   * 0xA0             Annex D: `space` (footnote 6: "signifies a nonbreaking space; typeset the same
//!                      as space"); cp1252: U+00A0. Both U+0020 and U+00A0 accepted.
//!   * 0xAD             Annex D: `hyphen` (footnote 5: "soft hyphen, typeset the same as hyphen");
//!                      cp1252: U+00AD. Both U+002D and U+00AD accepted.
//!   MacRoman vs mac_roman
//!   * 0x00–0x1F, 0x7F  as above.
//!   * 0xCA             Annex D: `space` (footnote 6); mac_roman: U+00A0. Both accepted.
//!   * 0xDB             Annex D: `currency` (footnote 1: Apple changed 333 to Euro, "this incompatible
//!                      change has not been reflected in PDF's MacRomanEncoding, which continues to map
//!                      code 333 to currency"); mac_roman: U+20AC. The TABLE says U+00A4 only.
//!   * 0xAD 0xB0 0xB2 0xB3 0xB6 0xB7 0xB8 0xB9 0xBA 0xBD 0xC3 0xC5 0xC6 0xD7 0xF0
//!                      not in Annex D's MacRomanEncoding; they are the 15 additional Mac OS Roman
//!                      entries of ISO 32000-1 Table 115 (notequal … apple). Undefined in the table
//!                      (any decoding accepted); `MACOS_ROMAN_EXTRA` lists them so that an encoder
//!                      that maps e.g. U+2260 to 0xAD is not blamed. Python must agree with that list.
//!   AGL double mappings accepted on the decode side (and optional on the encode side):
//!   mu U+00B5/U+03BC, macron U+00AF/U+02C9, periodcentered U+00B7/U+2219, fraction U+2044/U+2215.
//!   PDFDocEncoding
//!   * 0x00–0x08 0x0B 0x0C 0x0E–0x17  ISO 32000-1 D.3 lists them as the C0 controls, ISO 32000-2 marks
//!                      them undefined: treated as undefined (any decoding accepted; encoding the
//!                      control to its own code or refusing it are both accepted).
//!   * 0x7F 0x9F 0xAD   undefined in Table D.3.

use std::collections::BTreeMap;
use std::sync::OnceLock;

#[derive(Clone, Copy, Debug, PartialEq, Eq, PartialOrd, Ord, Hash, serde::Serialize, serde::Deserialize)]
pub enum Enc {
    Standard,
    MacRoman,
    WinAnsi,
    PdfDoc,
}

pub const ALL: [Enc; 4] = [Enc::Standard, Enc::MacRoman, Enc::WinAnsi, Enc::PdfDoc];

impl Enc {
    pub fn name(self) -> &'static str {
        match self {
            Enc::Standard => "Standard",
            Enc::MacRoman => "MacRoman",
            Enc::WinAnsi => "WinAnsi",
            Enc::PdfDoc => "PDFDoc",
        }
    }
    fn col(self) -> usize {
        match self {
            Enc::Standard => 0,
            Enc::MacRoman => 1,
            Enc::WinAnsi => 2,
            Enc::PdfDoc => 3,
        }
    }
}

/// Table D.2: (name, STD, MAC, WIN, PDF) — octal exactly as printed; 0 = "—".
#[rustfmt::skip]
pub const LATIN: &[(&str, u16, u16, u16, u16)] = &[
    ("A", 0o101, 0o101, 0o101, 0o101), ("AE", 0o341, 0o256, 0o306, 0o306), ("Aacute", 0, 0o347, 0o301, 0o301),
    ("Acircumflex", 0, 0o345, 0o302, 0o302), ("Adieresis", 0, 0o200, 0o304, 0o304), ("Agrave", 0, 0o313, 0o300, 0o300),
    ("Aring", 0, 0o201, 0o305, 0o305), ("Atilde", 0, 0o314, 0o303, 0o303), ("B", 0o102, 0o102, 0o102, 0o102),
    ("C", 0o103, 0o103, 0o103, 0o103), ("Ccedilla", 0, 0o202, 0o307, 0o307), ("D", 0o104, 0o104, 0o104, 0o104),
    ("E", 0o105, 0o105, 0o105, 0o105), ("Eacute", 0, 0o203, 0o311, 0o311), ("Ecircumflex", 0, 0o346, 0o312, 0o312),
    ("Edieresis", 0, 0o350, 0o313, 0o313), ("Egrave", 0, 0o351, 0o310, 0o310), ("Eth", 0, 0, 0o320, 0o320),
    ("Euro", 0, 0, 0o200, 0o240), ("F", 0o106, 0o106, 0o106, 0o106), ("G", 0o107, 0o107, 0o107, 0o107),
    ("H", 0o110, 0o110, 0o110, 0o110), ("I", 0o111, 0o111, 0o111, 0o111), ("Iacute", 0, 0o352, 0o315, 0o315),
    ("Icircumflex", 0, 0o353, 0o316, 0o316), ("Idieresis", 0, 0o354, 0o317, 0o317), ("Igrave", 0, 0o355, 0o314, 0o314),
    ("J", 0o112, 0o112, 0o112, 0o112), ("K", 0o113, 0o113, 0o113, 0o113), ("L", 0o114, 0o114, 0o114, 0o114),
    ("Lslash", 0o350, 0, 0, 0o225), ("M", 0o115, 0o115, 0o115, 0o115), ("N", 0o116, 0o116, 0o116, 0o116),
    ("Ntilde", 0, 0o204, 0o321, 0o321), ("O", 0o117, 0o117, 0o117, 0o117), ("OE", 0o352, 0o316, 0o214, 0o226),
    ("Oacute", 0, 0o356, 0o323, 0o323), ("Ocircumflex", 0, 0o357, 0o324, 0o324), ("Odieresis", 0, 0o205, 0o326, 0o326),
    ("Ograve", 0, 0o361, 0o322, 0o322), ("Oslash", 0o351, 0o257, 0o330, 0o330), ("Otilde", 0, 0o315, 0o325, 0o325),
    ("P", 0o120, 0o120, 0o120, 0o120), ("Q", 0o121, 0o121, 0o121, 0o121), ("R", 0o122, 0o122, 0o122, 0o122),
    ("S", 0o123, 0o123, 0o123, 0o123), ("Scaron", 0, 0, 0o212, 0o227), ("T", 0o124, 0o124, 0o124, 0o124),
    ("Thorn", 0, 0, 0o336, 0o336), ("U", 0o125, 0o125, 0o125, 0o125), ("Uacute", 0, 0o362, 0o332, 0o332),
    ("Ucircumflex", 0, 0o363, 0o333, 0o333), ("Udieresis", 0, 0o206, 0o334, 0o334), ("Ugrave", 0, 0o364, 0o331, 0o331),
    ("V", 0o126, 0o126, 0o126, 0o126), ("W", 0o127, 0o127, 0o127, 0o127), ("X", 0o130, 0o130, 0o130, 0o130),
    ("Y", 0o131, 0o131, 0o131, 0o131), ("Yacute", 0, 0, 0o335, 0o335), ("Ydieresis", 0, 0o331, 0o237, 0o230),
    ("Z", 0o132, 0o132, 0o132, 0o132), ("Zcaron", 0, 0, 0o216, 0o231), ("a", 0o141, 0o141, 0o141, 0o141),
    ("aacute", 0, 0o207, 0o341, 0o341), ("acircumflex", 0, 0o211, 0o342, 0o342), ("acute", 0o302, 0o253, 0o264, 0o264),
    ("adieresis", 0, 0o212, 0o344, 0o344), ("ae", 0o361, 0o276, 0o346, 0o346), ("agrave", 0, 0o210, 0o340, 0o340),
    ("ampersand", 0o046, 0o046, 0o046, 0o046), ("aring", 0, 0o214, 0o345, 0o345), ("asciicircum", 0o136, 0o136, 0o136, 0o136),
    ("asciitilde", 0o176, 0o176, 0o176, 0o176), ("asterisk", 0o052, 0o052, 0o052, 0o052), ("at", 0o100, 0o100, 0o100, 0o100),
    ("atilde", 0, 0o213, 0o343, 0o343), ("b", 0o142, 0o142, 0o142, 0o142), ("backslash", 0o134, 0o134, 0o134, 0o134),
    ("bar", 0o174, 0o174, 0o174, 0o174), ("braceleft", 0o173, 0o173, 0o173, 0o173), ("braceright", 0o175, 0o175, 0o175, 0o175),
    ("bracketleft", 0o133, 0o133, 0o133, 0o133), ("bracketright", 0o135, 0o135, 0o135, 0o135), ("breve", 0o306, 0o371, 0, 0o030),
    ("brokenbar", 0, 0, 0o246, 0o246), ("bullet", 0o267, 0o245, 0o225, 0o200), ("c", 0o143, 0o143, 0o143, 0o143),
    ("caron", 0o317, 0o377, 0, 0o031), ("ccedilla", 0, 0o215, 0o347, 0o347), ("cedilla", 0o313, 0o374, 0o270, 0o270),
    ("cent", 0o242, 0o242, 0o242, 0o242), ("circumflex", 0o303, 0o366, 0o210, 0o032), ("colon", 0o072, 0o072, 0o072, 0o072),
    ("comma", 0o054, 0o054, 0o054, 0o054), ("copyright", 0, 0o251, 0o251, 0o251), ("currency", 0o250, 0o333, 0o244, 0o244),
    ("d", 0o144, 0o144, 0o144, 0o144), ("dagger", 0o262, 0o240, 0o206, 0o201), ("daggerdbl", 0o263, 0o340, 0o207, 0o202),
    ("degree", 0, 0o241, 0o260, 0o260), ("dieresis", 0o310, 0o254, 0o250, 0o250), ("divide", 0, 0o326, 0o367, 0o367),
    ("dollar", 0o044, 0o044, 0o044, 0o044), ("dotaccent", 0o307, 0o372, 0, 0o033), ("dotlessi", 0o365, 0o365, 0, 0o232),
    ("e", 0o145, 0o145, 0o145, 0o145), ("eacute", 0, 0o216, 0o351, 0o351), ("ecircumflex", 0, 0o220, 0o352, 0o352),
    ("edieresis", 0, 0o221, 0o353, 0o353), ("egrave", 0, 0o217, 0o350, 0o350), ("eight", 0o070, 0o070, 0o070, 0o070),
    ("ellipsis", 0o274, 0o311, 0o205, 0o203), ("emdash", 0o320, 0o321, 0o227, 0o204), ("endash", 0o261, 0o320, 0o226, 0o205),
    ("equal", 0o075, 0o075, 0o075, 0o075), ("eth", 0, 0, 0o360, 0o360), ("exclam", 0o041, 0o041, 0o041, 0o041),
    ("exclamdown", 0o241, 0o301, 0o241, 0o241), ("f", 0o146, 0o146, 0o146, 0o146), ("fi", 0o256, 0o336, 0, 0o223),
    ("five", 0o065, 0o065, 0o065, 0o065), ("fl", 0o257, 0o337, 0, 0o224), ("florin", 0o246, 0o304, 0o203, 0o206),
    ("four", 0o064, 0o064, 0o064, 0o064), ("fraction", 0o244, 0o332, 0, 0o207), ("g", 0o147, 0o147, 0o147, 0o147),
    ("germandbls", 0o373, 0o247, 0o337, 0o337), ("grave", 0o301, 0o140, 0o140, 0o140), ("greater", 0o076, 0o076, 0o076, 0o076),
    ("guillemotleft", 0o253, 0o307, 0o253, 0o253), ("guillemotright", 0o273, 0o310, 0o273, 0o273),
    ("guilsinglleft", 0o254, 0o334, 0o213, 0o210), ("guilsinglright", 0o255, 0o335, 0o233, 0o211),
    ("h", 0o150, 0o150, 0o150, 0o150), ("hungarumlaut", 0o315, 0o375, 0, 0o034), ("hyphen", 0o055, 0o055, 0o055, 0o055),
    ("i", 0o151, 0o151, 0o151, 0o151), ("iacute", 0, 0o222, 0o355, 0o355), ("icircumflex", 0, 0o224, 0o356, 0o356),
    ("idieresis", 0, 0o225, 0o357, 0o357), ("igrave", 0, 0o223, 0o354, 0o354), ("j", 0o152, 0o152, 0o152, 0o152),
    ("k", 0o153, 0o153, 0o153, 0o153), ("l", 0o154, 0o154, 0o154, 0o154), ("less", 0o074, 0o074, 0o074, 0o074),
    ("logicalnot", 0, 0o302, 0o254, 0o254), ("lslash", 0o370, 0, 0, 0o233), ("m", 0o155, 0o155, 0o155, 0o155),
    ("macron", 0o305, 0o370, 0o257, 0o257), ("minus", 0, 0, 0, 0o212), ("mu", 0, 0o265, 0o265, 0o265),
    ("multiply", 0, 0, 0o327, 0o327), ("n", 0o156, 0o156, 0o156, 0o156), ("nine", 0o071, 0o071, 0o071, 0o071),
    ("ntilde", 0, 0o226, 0o361, 0o361), ("numbersign", 0o043, 0o043, 0o043, 0o043), ("o", 0o157, 0o157, 0o157, 0o157),
    ("oacute", 0, 0o227, 0o363, 0o363), ("ocircumflex", 0, 0o231, 0o364, 0o364), ("odieresis", 0, 0o232, 0o366, 0o366),
    ("oe", 0o372, 0o317, 0o234, 0o234), ("ogonek", 0o316, 0o376, 0, 0o035), ("ograve", 0, 0o230, 0o362, 0o362),
    ("one", 0o061, 0o061, 0o061, 0o061), ("onehalf", 0, 0, 0o275, 0o275), ("onequarter", 0, 0, 0o274, 0o274),
    ("onesuperior", 0, 0, 0o271, 0o271), ("ordfeminine", 0o343, 0o273, 0o252, 0o252), ("ordmasculine", 0o353, 0o274, 0o272, 0o272),
    ("oslash", 0o371, 0o277, 0o370, 0o370), ("otilde", 0, 0o233, 0o365, 0o365), ("p", 0o160, 0o160, 0o160, 0o160),
    ("paragraph", 0o266, 0o246, 0o266, 0o266), ("parenleft", 0o050, 0o050, 0o050, 0o050), ("parenright", 0o051, 0o051, 0o051, 0o051),
    ("percent", 0o045, 0o045, 0o045, 0o045), ("period", 0o056, 0o056, 0o056, 0o056), ("periodcentered", 0o264, 0o341, 0o267, 0o267),
    ("perthousand", 0o275, 0o344, 0o211, 0o213), ("plus", 0o053, 0o053, 0o053, 0o053), ("plusminus", 0, 0o261, 0o261, 0o261),
    ("q", 0o161, 0o161, 0o161, 0o161), ("question", 0o077, 0o077, 0o077, 0o077), ("questiondown", 0o277, 0o300, 0o277, 0o277),
    ("quotedbl", 0o042, 0o042, 0o042, 0o042), ("quotedblbase", 0o271, 0o343, 0o204, 0o214), ("quotedblleft", 0o252, 0o322, 0o223, 0o215),
    ("quotedblright", 0o272, 0o323, 0o224, 0o216), ("quoteleft", 0o140, 0o324, 0o221, 0o217), ("quoteright", 0o047, 0o325, 0o222, 0o220),
    ("quotesinglbase", 0o270, 0o342, 0o202, 0o221), ("quotesingle", 0o251, 0o047, 0o047, 0o047), ("r", 0o162, 0o162, 0o162, 0o162),
    ("registered", 0, 0o250, 0o256, 0o256), ("ring", 0o312, 0o373, 0, 0o036), ("s", 0o163, 0o163, 0o163, 0o163),
    ("scaron", 0, 0, 0o232, 0o235), ("section", 0o247, 0o244, 0o247, 0o247), ("semicolon", 0o073, 0o073, 0o073, 0o073),
    ("seven", 0o067, 0o067, 0o067, 0o067), ("six", 0o066, 0o066, 0o066, 0o066), ("slash", 0o057, 0o057, 0o057, 0o057),
    ("space", 0o040, 0o040, 0o040, 0o040), ("sterling", 0o243, 0o243, 0o243, 0o243), ("t", 0o164, 0o164, 0o164, 0o164),
    ("thorn", 0, 0, 0o376, 0o376), ("three", 0o063, 0o063, 0o063, 0o063), ("threequarters", 0, 0, 0o276, 0o276),
    ("threesuperior", 0, 0, 0o263, 0o263), ("tilde", 0o304, 0o367, 0o230, 0o037), ("trademark", 0, 0o252, 0o231, 0o222),
    ("two", 0o062, 0o062, 0o062, 0o062), ("twosuperior", 0, 0, 0o262, 0o262), ("u", 0o165, 0o165, 0o165, 0o165),
    ("uacute", 0, 0o234, 0o372, 0o372), ("ucircumflex", 0, 0o236, 0o373, 0o373), ("udieresis", 0, 0o237, 0o374, 0o374),
    ("ugrave", 0, 0o235, 0o371, 0o371), ("underscore", 0o137, 0o137, 0o137, 0o137), ("v", 0o166, 0o166, 0o166, 0o166),
    ("w", 0o167, 0o167, 0o167, 0o167), ("x", 0o170, 0o170, 0o170, 0o170), ("y", 0o171, 0o171, 0o171, 0o171),
    ("yacute", 0, 0, 0o375, 0o375), ("ydieresis", 0, 0o330, 0o377, 0o377), ("yen", 0o245, 0o264, 0o245, 0o245),
    ("z", 0o172, 0o172, 0o172, 0o172), ("zcaron", 0, 0, 0o236, 0o236), ("zero", 0o060, 0o060, 0o060, 0o060),
];

/// Footnotes 5 and 6 of Table D.2: second codes of `hyphen` and `space`, with the Unicode value
/// the duplicate "signifies" as an accepted alternative on that code only.
pub const DUPLICATES: &[(Enc, u8, &str, u32)] = &[
    (Enc::WinAnsi, 0o255, "hyphen", 0x00AD),
    (Enc::MacRoman, 0o312, "space", 0x00A0),
    (Enc::WinAnsi, 0o240, "space", 0x00A0),
];

/// Table D.3 rows outside the Latin character set.
pub const PDFDOC_EXTRA: &[(u8, &str, u32)] = &[(0x09, "controlHT", 0x09), (0x0A, "controlLF", 0x0A), (0x0D, "controlCR", 0x0D)];

/// ISO 32000-1 Table 115: Mac OS Roman entries that MacRomanEncoding lacks (code, name, Unicode).
pub const MACOS_ROMAN_EXTRA: &[(u8, &str, u32)] = &[
    (0o255, "notequal", 0x2260), (0o260, "infinity", 0x221E), (0o262, "lessequal", 0x2264), (0o263, "greaterequal", 0x2265),
    (0o266, "partialdiff", 0x2202), (0o267, "summation", 0x2211), (0o270, "product", 0x220F), (0o271, "pi", 0x03C0),
    (0o272, "integral", 0x222B), (0o275, "Omega", 0x03A9), (0o303, "radical", 0x221A), (0o305, "approxequal", 0x2248),
    (0o306, "Delta", 0x2206), (0o327, "lozenge", 0x25CA), (0o360, "apple", 0xF8FF),
];

/// Adobe Glyph List subset for the non-trivial names (single letters and the names below are the
/// whole Latin character set). First value: AGLFN; others: extra values of AGL 1.2.
#[rustfmt::skip]
pub const AGL: &[(&str, &[u32])] = &[
    ("AE", &[0x00C6]), ("Aacute", &[0x00C1]), ("Acircumflex", &[0x00C2]), ("Adieresis", &[0x00C4]), ("Agrave", &[0x00C0]),
    ("Aring", &[0x00C5]), ("Atilde", &[0x00C3]), ("Ccedilla", &[0x00C7]), ("Eacute", &[0x00C9]), ("Ecircumflex", &[0x00CA]),
    ("Edieresis", &[0x00CB]), ("Egrave", &[0x00C8]), ("Eth", &[0x00D0]), ("Euro", &[0x20AC]), ("Iacute", &[0x00CD]),
    ("Icircumflex", &[0x00CE]), ("Idieresis", &[0x00CF]), ("Igrave", &[0x00CC]), ("Lslash", &[0x0141]), ("Ntilde", &[0x00D1]),
    ("OE", &[0x0152]), ("Oacute", &[0x00D3]), ("Ocircumflex", &[0x00D4]), ("Odieresis", &[0x00D6]), ("Ograve", &[0x00D2]),
    ("Oslash", &[0x00D8]), ("Otilde", &[0x00D5]), ("Scaron", &[0x0160]), ("Thorn", &[0x00DE]), ("Uacute", &[0x00DA]),
    ("Ucircumflex", &[0x00DB]), ("Udieresis", &[0x00DC]), ("Ugrave", &[0x00D9]), ("Yacute", &[0x00DD]), ("Ydieresis", &[0x0178]),
    ("Zcaron", &[0x017D]), ("aacute", &[0x00E1]), ("acircumflex", &[0x00E2]), ("acute", &[0x00B4]), ("adieresis", &[0x00E4]),
    ("ae", &[0x00E6]), ("agrave", &[0x00E0]), ("ampersand", &[0x0026]), ("aring", &[0x00E5]), ("asciicircum", &[0x005E]),
    ("asciitilde", &[0x007E]), ("asterisk", &[0x002A]), ("at", &[0x0040]), ("atilde", &[0x00E3]), ("backslash", &[0x005C]),
    ("bar", &[0x007C]), ("braceleft", &[0x007B]), ("braceright", &[0x007D]), ("bracketleft", &[0x005B]), ("bracketright", &[0x005D]),
    ("breve", &[0x02D8]), ("brokenbar", &[0x00A6]), ("bullet", &[0x2022]), ("caron", &[0x02C7]), ("ccedilla", &[0x00E7]),
    ("cedilla", &[0x00B8]), ("cent", &[0x00A2]), ("circumflex", &[0x02C6]), ("colon", &[0x003A]), ("comma", &[0x002C]),
    ("copyright", &[0x00A9]), ("currency", &[0x00A4]), ("dagger", &[0x2020]), ("daggerdbl", &[0x2021]), ("degree", &[0x00B0]),
    ("dieresis", &[0x00A8]), ("divide", &[0x00F7]), ("dollar", &[0x0024]), ("dotaccent", &[0x02D9]), ("dotlessi", &[0x0131]),
    ("eacute", &[0x00E9]), ("ecircumflex", &[0x00EA]), ("edieresis", &[0x00EB]), ("egrave", &[0x00E8]), ("eight", &[0x0038]),
    ("ellipsis", &[0x2026]), ("emdash", &[0x2014]), ("endash", &[0x2013]), ("equal", &[0x003D]), ("eth", &[0x00F0]),
    ("exclam", &[0x0021]), ("exclamdown", &[0x00A1]), ("fi", &[0xFB01]), ("five", &[0x0035]), ("fl", &[0xFB02]),
    ("florin", &[0x0192]), ("four", &[0x0034]), ("fraction", &[0x2044, 0x2215]), ("germandbls", &[0x00DF]), ("grave", &[0x0060]),
    ("greater", &[0x003E]), ("guillemotleft", &[0x00AB]), ("guillemotright", &[0x00BB]), ("guilsinglleft", &[0x2039]),
    ("guilsinglright", &[0x203A]), ("hungarumlaut", &[0x02DD]), ("hyphen", &[0x002D]), ("iacute", &[0x00ED]),
    ("icircumflex", &[0x00EE]), ("idieresis", &[0x00EF]), ("igrave", &[0x00EC]), ("less", &[0x003C]), ("logicalnot", &[0x00AC]),
    ("lslash", &[0x0142]), ("macron", &[0x00AF, 0x02C9]), ("minus", &[0x2212]), ("mu", &[0x00B5, 0x03BC]), ("multiply", &[0x00D7]),
    ("nine", &[0x0039]), ("ntilde", &[0x00F1]), ("numbersign", &[0x0023]), ("oacute", &[0x00F3]), ("ocircumflex", &[0x00F4]),
    ("odieresis", &[0x00F6]), ("oe", &[0x0153]), ("ogonek", &[0x02DB]), ("ograve", &[0x00F2]), ("one", &[0x0031]),
    ("onehalf", &[0x00BD]), ("onequarter", &[0x00BC]), ("onesuperior", &[0x00B9]), ("ordfeminine", &[0x00AA]),
    ("ordmasculine", &[0x00BA]), ("oslash", &[0x00F8]), ("otilde", &[0x00F5]), ("paragraph", &[0x00B6]), ("parenleft", &[0x0028]),
    ("parenright", &[0x0029]), ("percent", &[0x0025]), ("period", &[0x002E]), ("periodcentered", &[0x00B7, 0x2219]),
    ("perthousand", &[0x2030]), ("plus", &[0x002B]), ("plusminus", &[0x00B1]), ("question", &[0x003F]), ("questiondown", &[0x00BF]),
    ("quotedbl", &[0x0022]), ("quotedblbase", &[0x201E]), ("quotedblleft", &[0x201C]), ("quotedblright", &[0x201D]),
    ("quoteleft", &[0x2018]), ("quoteright", &[0x2019]), ("quotesinglbase", &[0x201A]), ("quotesingle", &[0x0027]),
    ("registered", &[0x00AE]), ("ring", &[0x02DA]), ("scaron", &[0x0161]), ("section", &[0x00A7]), ("semicolon", &[0x003B]),
    ("seven", &[0x0037]), ("six", &[0x0036]), ("slash", &[0x002F]), ("space", &[0x0020]), ("sterling", &[0x00A3]),
    ("thorn", &[0x00FE]), ("three", &[0x0033]), ("threequarters", &[0x00BE]), ("threesuperior", &[0x00B3]), ("tilde", &[0x02DC]),
    ("trademark", &[0x2122]), ("two", &[0x0032]), ("twosuperior", &[0x00B2]), ("uacute", &[0x00FA]), ("ucircumflex", &[0x00FB]),
    ("udieresis", &[0x00FC]), ("ugrave", &[0x00F9]), ("underscore", &[0x005F]), ("yacute", &[0x00FD]), ("ydieresis", &[0x00FF]),
    ("yen", &[0x00A5]), ("zcaron", &[0x017E]), ("zero", &[0x0030]),
];

/// AGL lookup: single ASCII letters name themselves.
pub fn agl(name: &str) -> Option<&'static [u32]> {
    const LETTERS: [[u32; 1]; 128] = {
        let mut t = [[0u32; 1]; 128];
        let mut i = 0;
        while i < 128 {
            t[i] = [i as u32];
            i += 1;
        }
        t
    };
    if name.len() == 1 && name.as_bytes()[0].is_ascii_alphabetic() {
        return Some(&LETTERS[name.as_bytes()[0] as usize]);
    }
    AGL.iter().find(|(n, _)| *n == name).map(|(_, u)| *u)
}

/// StandardEncoding in code order (second, independent transcription; "" = .notdef).
#[rustfmt::skip]
pub const STANDARD_BY_CODE: [&str; 256] = {
    let mut t = [""; 256];
    let lo: [&str; 95] = [
        "space", "exclam", "quotedbl", "numbersign", "dollar", "percent", "ampersand", "quoteright", "parenleft", "parenright",
        "asterisk", "plus", "comma", "hyphen", "period", "slash", "zero", "one", "two", "three", "four", "five", "six", "seven",
        "eight", "nine", "colon", "semicolon", "less", "equal", "greater", "question", "at", "A", "B", "C", "D", "E", "F", "G",
        "H", "I", "J", "K", "L", "M", "N", "O", "P", "Q", "R", "S", "T", "U", "V", "W", "X", "Y", "Z", "bracketleft",
        "backslash", "bracketright", "asciicircum", "underscore", "quoteleft", "a", "b", "c", "d", "e", "f", "g", "h", "i", "j",
        "k", "l", "m", "n", "o", "p", "q", "r", "s", "t", "u", "v", "w", "x", "y", "z", "braceleft", "bar", "braceright",
        "asciitilde",
    ];
    let mut i = 0;
    while i < 95 { t[0x20 + i] = lo[i]; i += 1; }
    let hi: [&str; 95] = [
        /* A1 */ "exclamdown", "cent", "sterling", "fraction", "yen", "florin", "section", "currency", "quotesingle",
        "quotedblleft", "guillemotleft", "guilsinglleft", "guilsinglright", "fi", "fl",
        /* B0 */ "", "endash", "dagger", "daggerdbl", "periodcentered", "", "paragraph", "bullet", "quotesinglbase",
        "quotedblbase", "quotedblright", "guillemotright", "ellipsis", "perthousand", "", "questiondown",
        /* C0 */ "", "grave", "acute", "circumflex", "tilde", "macron", "breve", "dotaccent", "dieresis", "", "ring", "cedilla",
        "", "hungarumlaut", "ogonek", "caron",
        /* D0 */ "emdash", "", "", "", "", "", "", "", "", "", "", "", "", "", "", "",
        /* E0 */ "", "AE", "", "ordfeminine", "", "", "", "", "Lslash", "Oslash", "OE", "ordmasculine", "", "", "", "",
        /* F0 */ "", "ae", "", "", "", "dotlessi", "", "", "lslash", "oslash", "oe", "germandbls", "", "", "", "",
    ];
    let mut j = 0;
    while j < 95 { t[0xA1 + j] = hi[j]; j += 1; }
    t
};

#[derive(Clone, Debug)]
pub struct Slot {
    pub name: &'static str,
    /// the Unicode value an encoder is given for this character
    pub primary: char,
    /// further values a decoder may return for this code
    pub alts: Vec<char>,
}

impl Slot {
    pub fn admits(&self, c: char) -> bool {
        c == self.primary || self.alts.contains(&c)
    }
}

/// What Annex D says about a Unicode scalar as input of an encoder.
#[derive(Clone, Debug, PartialEq, Eq)]
pub enum CharClass {
    /// primary Unicode of the glyph at these codes: the encoder must return one of them
    Repertoire(Vec<u8>),
    /// only an accepted alternative reading of these codes (U+00A0, U+00AD, AGL doubles), a control
    /// whose own code is undefined, or a Mac OS Roman extra: returning one of the codes or
    /// refusing the character are both accepted
    Optional(Vec<u8>),
    /// not representable: must be refused
    Outside,
}

pub struct Table {
    pub enc: Enc,
    pub slots: Vec<Option<Slot>>, // 256
    chars: BTreeMap<char, CharClass>,
}

impl Table {
    pub fn defined(&self, b: u8) -> bool {
        self.slots[b as usize].is_some()
    }
    pub fn slot(&self, b: u8) -> Option<&Slot> {
        self.slots[b as usize].as_ref()
    }
    pub fn classify(&self, c: char) -> &CharClass {
        static OUT: CharClass = CharClass::Outside;
        self.chars.get(&c).unwrap_or(&OUT)
    }
    /// all scalars with a non-`Outside` class, ascending
    pub fn known_chars(&self) -> impl Iterator<Item = (char, &CharClass)> {
        self.chars.iter().map(|(c, k)| (*c, k))
    }
    pub fn defined_count(&self) -> usize {
        self.slots.iter().filter(|s| s.is_some()).count()
    }
}

fn build(enc: Enc) -> Table {
    let mut slots: Vec<Option<Slot>> = vec![None; 256];
    let mut put = |code: u8, name: &'static str, extra: Option<u32>| {
        let u = agl(name).unwrap_or_else(|| panic!("reftab: glyph {name} not in AGL subset"));
        let mut alts: Vec<char> = u[1..].iter().map(|x| char::from_u32(*x).unwrap()).collect();
        if let Some(x) = extra {
            alts.push(char::from_u32(x).unwrap());
        }
        assert!(slots[code as usize].is_none(), "reftab: code {code:#x} assigned twice in {enc:?}");
        slots[code as usize] = Some(Slot { name, primary: char::from_u32(u[0]).unwrap(), alts });
    };
    for row in LATIN {
        let code = [row.1, row.2, row.3, row.4][enc.col()];
        if code != 0 {
            assert!(code <= 0o377);
            put(code as u8, row.0, None);
        }
    }
    for (e, code, name, alt) in DUPLICATES {
        if *e == enc {
            put(*code, name, Some(*alt));
        }
    }
    if enc == Enc::PdfDoc {
        for (code, name, u) in PDFDOC_EXTRA {
            assert!(slots[*code as usize].is_none());
            slots[*code as usize] = Some(Slot { name, primary: char::from_u32(*u).unwrap(), alts: vec![] });
        }
    }
    // encoder view
    let mut chars: BTreeMap<char, CharClass> = BTreeMap::new();
    for (b, s) in slots.iter().enumerate() {
        if let Some(s) = s {
            match chars.entry(s.primary).or_insert_with(|| CharClass::Repertoire(vec![])) {
                CharClass::Repertoire(v) => v.push(b as u8),
                _ => unreachable!(),
            }
        }
    }
    let optional = |c: char, b: u8, chars: &mut BTreeMap<char, CharClass>| match chars.entry(c).or_insert_with(|| CharClass::Optional(vec![])) {
        CharClass::Optional(v) => {
            if !v.contains(&b) {
                v.push(b)
            }
        }
        CharClass::Repertoire(_) => {}
        CharClass::Outside => unreachable!(),
    };
    for (b, s) in slots.iter().enumerate() {
        if let Some(s) = s {
            for a in &s.alts {
                optional(*a, b as u8, &mut chars);
            }
        }
    }
    // controls whose own code carries no character: identity or refusal
    for b in (0u8..0x20).chain([0x7F]) {
        if slots[b as usize].is_none() {
            optional(b as char, b, &mut chars);
        }
    }
    if enc == Enc::MacRoman {
        for (b, _, u) in MACOS_ROMAN_EXTRA {
            assert!(slots[*b as usize].is_none());
            optional(char::from_u32(*u).unwrap(), *b, &mut chars);
        }
    }
    Table { enc, slots, chars }
}

pub fn table(enc: Enc) -> &'static Table {
    static T: OnceLock<Vec<Table>> = OnceLock::new();
    &T.get_or_init(|| ALL.iter().map(|e| build(*e)).collect())[enc.col()]
}

/// Internal consistency + redundancy checks that need no external tool. Err = harness broken.
pub fn self_check() -> Result<Vec<String>, String> {
    let mut notes = Vec::new();
    // every name has an AGL value; every AGL entry is used; names are unique and sorted as in the spec
    for w in LATIN.windows(2) {
        if w[0].0 == w[1].0 {
            return Err(format!("duplicate row {}", w[0].0));
        }
    }
    for (n, _) in AGL {
        if !LATIN.iter().any(|r| r.0 == *n) {
            return Err(format!("AGL entry {n} names no Table D.2 row"));
        }
    }
    if LATIN.len() != 229 {
        return Err(format!("Table D.2 has 229 characters, transcription has {}", LATIN.len()));
    }
    // published sizes: StandardEncoding has 149 encoded characters
    let counts: Vec<usize> = ALL.iter().map(|e| table(*e).defined_count()).collect();
    if counts[0] != 149 {
        return Err(format!("StandardEncoding must define 149 codes, table has {}", counts[0]));
    }
    notes.push(format!("defined codes: Standard {}, MacRoman {}, WinAnsi {}, PDFDoc {}", counts[0], counts[1], counts[2], counts[3]));
    // Standard: by-name table == by-code transcription
    let st = table(Enc::Standard);
    for b in 0..=255u8 {
        let a = st.slot(b).map(|s| s.name).unwrap_or("");
        if a != STANDARD_BY_CODE[b as usize] {
            return Err(format!("StandardEncoding code {b:#04x}: Table D.2 says '{a}', code-order transcription says '{}'", STANDARD_BY_CODE[b as usize]));
        }
    }
    // PDFDoc: by-name table == refpdf::textstring (transcribed by code from Table D.3)
    let pd = table(Enc::PdfDoc);
    for b in 0..=255u8 {
        let ours = pd.slot(b).map(|s| s.primary);
        let theirs = if crate::refpdf::textstring::pdfdoc_defined(b) { crate::refpdf::textstring::pdfdoc_to_unicode(b) } else { None };
        if ours != theirs {
            return Err(format!("PDFDocEncoding code {b:#04x}: reftab {ours:?} vs refpdf::textstring {theirs:?}"));
        }
    }
    // injectivity: apart from the footnoted duplicates no character has two codes
    for e in ALL {
        for (c, k) in table(e).known_chars() {
            if let CharClass::Repertoire(v) = k {
                let dup_ok = matches!((e, c), (Enc::WinAnsi, ' ') | (Enc::WinAnsi, '-') | (Enc::MacRoman, ' '));
                if v.len() != if dup_ok { 2 } else { 1 } {
                    return Err(format!("{e:?}: {c:?} has codes {v:?}"));
                }
            }
        }
    }
    Ok(notes)
}

/// Calibration against Python's codecs. Ok(None) = python3 not available (skipped).
pub fn calibrate_python() -> Result<Option<String>, String> {
    let script = "for n in ('cp1252','mac_roman'):\n    print(' '.join(str(ord(bytes([b]).decode(n,'replace'))) for b in range(256)))\n";
    let out = match std::process::Command::new("python3").arg("-c").arg(script).output() {
        Ok(o) if o.status.success() => o,
        _ => return Ok(None),
    };
    let text = String::from_utf8_lossy(&out.stdout);
    let rows: Vec<Vec<u32>> = text.lines().map(|l| l.split_whitespace().filter_map(|x| x.parse().ok()).collect()).collect();
    if rows.len() != 2 || rows.iter().any(|r| r.len() != 256) {
        return Err(format!("python3 calibration output malformed: {text:?}"));
    }
    let mut accepted = Vec::new();
    for (enc, row) in [(Enc::WinAnsi, &rows[0]), (Enc::MacRoman, &rows[1])] {
        let t = table(enc);
        for b in 0..=255u8 {
            let py = row[b as usize]; // 0xFFFD = undefined in Python
            let py_c = char::from_u32(py).unwrap();
            match t.slot(b) {
                Some(s) if py != 0xFFFD && s.primary == py_c => {}
                Some(s) if py != 0xFFFD && s.alts.contains(&py_c) => accepted.push(format!("{}:{b:#04x} {}={:04X}|py {py:04X} (footnote duplicate / AGL double)", enc.name(), s.name, s.primary as u32)),
                Some(s) if enc == Enc::MacRoman && b == 0xDB && py == 0x20AC && s.primary == '\u{A4}' => {
                    accepted.push("MacRoman:0xdb currency=00A4|py 20AC (footnote 1)".into())
                }
                Some(s) => return Err(format!("{} code {b:#04x}: Annex D {} U+{:04X}, Python U+{py:04X}", enc.name(), s.name, s.primary as u32)),
                None => {
                    let control = b < 0x20 || b == 0x7F;
                    let win_unused = enc == Enc::WinAnsi && matches!(b, 0x81 | 0x8D | 0x8F | 0x90 | 0x9D);
                    let mac_extra = enc == Enc::MacRoman && MACOS_ROMAN_EXTRA.iter().any(|(c, _, u)| *c == b && *u == py);
                    if control && py == b as u32 {
                    } else if win_unused && py == 0xFFFD {
                        accepted.push(format!("WinAnsi:{b:#04x} unused on both sides"));
                    } else if mac_extra {
                        accepted.push(format!("MacRoman:{b:#04x} Table 115 extra U+{py:04X}"));
                    } else {
                        return Err(format!("{} code {b:#04x}: undefined in Annex D, Python U+{py:04X} — not a documented difference", enc.name()));
                    }
                }
            }
        }
    }
    // encoder direction: Python's encoders are the inverse of the decoders checked above
    Ok(Some(format!("cp1252 and mac_roman agree with Annex D on all codes except the documented ones: {}", accepted.join("; "))))
}
