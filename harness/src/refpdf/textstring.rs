//! PDF text strings (ISO 32000-1 §7.9.2.2): UTF-16BE with BOM, else PDFDocEncoding (Annex D.2);
//! UTF-8 with BOM accepted on the read side (ISO 32000-2).

/// PDFDocEncoding code → Unicode for the codes that differ from Latin-1 (Annex D.2, Table D.2).
pub const PDFDOC_SPECIAL: &[(u8, u32)] = &[
    (0x18, 0x02D8), (0x19, 0x02C7), (0x1A, 0x02C6), (0x1B, 0x02D9), (0x1C, 0x02DD), (0x1D, 0x02DB), (0x1E, 0x02DA), (0x1F, 0x02DC),
    (0x80, 0x2022), (0x81, 0x2020), (0x82, 0x2021), (0x83, 0x2026), (0x84, 0x2014), (0x85, 0x2013), (0x86, 0x0192), (0x87, 0x2044),
    (0x88, 0x2039), (0x89, 0x203A), (0x8A, 0x2212), (0x8B, 0x2030), (0x8C, 0x201E), (0x8D, 0x201C), (0x8E, 0x201D), (0x8F, 0x2018),
    (0x90, 0x2019), (0x91, 0x201A), (0x92, 0x2122), (0x93, 0xFB01), (0x94, 0xFB02), (0x95, 0x0141), (0x96, 0x0152), (0x97, 0x0160),
    (0x98, 0x0178), (0x99, 0x017D), (0x9A, 0x0131), (0x9B, 0x0142), (0x9C, 0x0153), (0x9D, 0x0161), (0x9E, 0x017E), (0xA0, 0x20AC),
];

/// Codes with no character in PDFDocEncoding.
pub const PDFDOC_UNDEFINED: &[u8] = &[0x7F, 0x9F, 0xAD];

/// Unicode of PDFDocEncoding byte `b`; None where the table defines nothing.
/// Control codes 0x00–0x17 are not in Table D.2 except HT/LF/CR; they are passed through as
/// themselves (every implementation does) but flagged by `pdfdoc_defined`.
pub fn pdfdoc_to_unicode(b: u8) -> Option<char> {
    if PDFDOC_UNDEFINED.contains(&b) {
        return None;
    }
    if let Some((_, u)) = PDFDOC_SPECIAL.iter().find(|(c, _)| *c == b) {
        return char::from_u32(*u);
    }
    Some(b as char)
}

pub fn pdfdoc_defined(b: u8) -> bool {
    if PDFDOC_UNDEFINED.contains(&b) {
        return false;
    }
    if b < 0x18 {
        return matches!(b, 9 | 10 | 13);
    }
    true
}

pub fn unicode_to_pdfdoc(c: char) -> Option<u8> {
    let u = c as u32;
    if let Some((b, _)) = PDFDOC_SPECIAL.iter().find(|(_, x)| *x == u) {
        return Some(*b);
    }
    if u < 0x18 || (0x20..0x7F).contains(&u) || (0xA1..=0xFF).contains(&u) && u != 0xAD {
        return Some(u as u8);
    }
    None
}

pub fn decode(b: &[u8]) -> String {
    if b.len() >= 2 && b[0] == 0xFE && b[1] == 0xFF {
        let units: Vec<u16> = b[2..].chunks(2).map(|c| if c.len() == 2 { u16::from_be_bytes([c[0], c[1]]) } else { 0xFFFD }).collect();
        return char::decode_utf16(units).map(|r| r.unwrap_or('\u{FFFD}')).collect();
    }
    if b.len() >= 3 && b[0] == 0xEF && b[1] == 0xBB && b[2] == 0xBF {
        return String::from_utf8_lossy(&b[3..]).into_owned();
    }
    b.iter().map(|&c| pdfdoc_to_unicode(c).unwrap_or('\u{FFFD}')).collect()
}

/// Encode as a conforming writer would: PDFDocEncoding when every character is representable
/// (and the string would not be mistaken for a BOM), else UTF-16BE with BOM.
pub fn encode(s: &str) -> Vec<u8> {
    let pd: Option<Vec<u8>> = s.chars().map(unicode_to_pdfdoc).collect();
    if let Some(v) = pd {
        let bom = v.starts_with(&[0xFE, 0xFF]) || v.starts_with(&[0xEF, 0xBB, 0xBF]);
        if !bom {
            return v;
        }
    }
    let mut out = vec![0xFE, 0xFF];
    for u in s.encode_utf16() {
        out.extend_from_slice(&u.to_be_bytes());
    }
    out
}
