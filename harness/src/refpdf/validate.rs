//! Validator on top of the strict reader — the stand-in for `qpdf --check`.
use super::reader::{Entry, Reader};
use super::{Lexer, Obj, Tok};

#[derive(Clone, Debug)]
pub struct Problem {
    pub clause: &'static str,
    pub detail: String,
}

fn p(clause: &'static str, detail: impl Into<String>) -> Problem {
    Problem { clause, detail: detail.into() }
}

pub struct Report {
    pub problems: Vec<Problem>,
    pub objects: usize,
    pub streams: usize,
    pub revisions: usize,
    pub objstm_members: usize,
    /// (number, generation) of every live object that loaded
    pub object_ids: Vec<(u32, u16)>,
}

pub fn validate(bytes: &[u8], password: Option<&[u8]>) -> Report {
    let mut rep = Report { problems: vec![], objects: 0, streams: 0, revisions: 0, objstm_members: 0, object_ids: vec![] };
    let rd = match Reader::open(bytes, password) {
        Ok(r) => r,
        Err(e) => {
            rep.problems.push(p("open", format!("at {}: {}", e.at, e.msg)));
            return rep;
        }
    };
    rep.revisions = rd.sections.iter().filter(|s| s.hybrid_of.is_none()).count();
    // every entry of every section addresses "N G obj"
    let mut max_obj = 0u32;
    for sec in &rd.sections {
        let mut nums: Vec<u32> = sec.entries.iter().map(|(n, _)| *n).collect();
        nums.sort_unstable();
        if let Some(w) = nums.windows(2).find(|w| w[0] == w[1]) {
            rep.problems.push(p("xref-duplicate-entry", format!("object {} listed twice in the section at {}", w[0], sec.offset)));
        }
        let mut sec_max = 0u32;
        for (n, e) in &sec.entries {
            max_obj = max_obj.max(*n);
            sec_max = sec_max.max(*n);
            if let Entry::InUse { off, gen } = e {
                let off = *off as usize;
                if off >= bytes.len() || !bytes[off].is_ascii_digit() {
                    rep.problems.push(p("xref-offset", format!("object {n}: offset {off} is not the first byte of an object header")));
                    continue;
                }
                let mut lx = Lexer::new(bytes, off);
                let ok = matches!(lx.next_tok(), Ok(Tok::Int(i)) if i == *n as i64)
                    && matches!(lx.next_tok(), Ok(Tok::Int(i)) if i == *gen as i64)
                    && matches!(lx.next_tok(), Ok(Tok::Kw(k)) if k == b"obj");
                if !ok {
                    rep.problems.push(p("xref-offset", format!("object {n} gen {gen}: offset {off} does not address '{n} {gen} obj'")));
                }
                // an object header must start a line (preceded by EOL) — §7.3.10 practice; qpdf warns otherwise
                if off > 0 && !matches!(bytes[off - 1], b'\n' | b'\r') {
                    rep.problems.push(p("xref-offset", format!("object {n}: header at {off} does not start a line")));
                }
            }
        }
        if let Some(sz) = sec.trailer.int(b"Size") {
            if (sz as u64) < sec_max as u64 + 1 {
                rep.problems.push(p("size", format!("section at {}: /Size {sz} smaller than highest entry {sec_max}+1", sec.offset)));
            }
        } else {
            rep.problems.push(p("size", format!("section at {}: no integer /Size", sec.offset)));
        }
    }
    match rd.trailer.int(b"Size") {
        Some(sz) if sz as u64 == max_obj as u64 + 1 => {}
        other => rep.problems.push(p("size", format!("newest /Size {other:?}, highest object number {max_obj}"))),
    }
    // entry 0
    match rd.entry(0) {
        Entry::Free { gen: 65535, .. } => {}
        other => rep.problems.push(p("xref-entry-zero", format!("object 0 is {other:?}, expected a free entry with generation 65535"))),
    }
    // every live object loads; streams decode
    let mut refs: Vec<(u32, u16, u32)> = Vec::new(); // target n, g, from
    for n in rd.object_numbers() {
        let g = rd.gen_of(n);
        match rd.load(n, g) {
            Ok(o) => {
                rep.objects += 1;
                rep.object_ids.push((n, g));
                if matches!(rd.entry(n), Entry::Compressed { .. }) {
                    rep.objstm_members += 1;
                }
                collect_refs(&o, n, &mut refs);
                if let Obj::Stream(s) = &o {
                    rep.streams += 1;
                    match rd.stream_data(s) {
                        Ok(_) => {}
                        Err(e) if e.msg.starts_with("Unsupported") => {}
                        Err(e) => rep.problems.push(p("stream-decodes", format!("object {n}: {}", e.msg))),
                    }
                }
            }
            Err(e) => rep.problems.push(p("object-parses", format!("object {n}: at {}: {}", e.at, e.msg))),
        }
    }
    collect_refs(&Obj::Dict(rd.trailer.clone()), 0, &mut refs);
    for (n, g, from) in refs {
        match rd.entry(n) {
            Entry::InUse { gen, .. } if gen == g as u32 => {}
            Entry::Compressed { .. } if g == 0 => {}
            other => rep.problems.push(p("reference-resolves", format!("{n} {g} R (in object {from}) → {other:?}"))),
        }
    }
    if let Err(e) = rd.catalog() {
        rep.problems.push(p("catalog", e.msg));
    } else if let Err(e) = rd.pages() {
        rep.problems.push(p("page-tree", e.msg));
    }
    rep
}

fn collect_refs(o: &Obj, from: u32, out: &mut Vec<(u32, u16, u32)>) {
    match o {
        Obj::Ref(n, g) => out.push((*n, *g, from)),
        Obj::Arr(a) => a.iter().for_each(|x| collect_refs(x, from, out)),
        Obj::Dict(d) => d.0.iter().for_each(|(_, v)| collect_refs(v, from, out)),
        Obj::Stream(s) => s.dict.0.iter().for_each(|(_, v)| collect_refs(v, from, out)),
        _ => {}
    }
}
