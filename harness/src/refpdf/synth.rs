//! Synthesizer: serialises model objects into complete PDF files in any cross-reference layout,
//! with appended revisions, object streams and (reference) encryption. Stand-in for "files
//! produced by another tool".
use super::{is_delim, is_ws, Dict, Obj};
use crate::refcrypto;
use std::collections::BTreeMap;
use std::io::Write;

#[derive(Clone, Copy, Debug, PartialEq, Eq, serde::Serialize, serde::Deserialize)]
pub enum StrStyle {
    Literal,
    Hex,
}

pub fn write_name(n: &[u8], out: &mut Vec<u8>) {
    out.push(b'/');
    for &c in n {
        if (0x21..=0x7e).contains(&c) && !is_delim(c) && c != b'#' {
            out.push(c);
        } else {
            let _ = write!(out, "#{c:02X}");
        }
    }
}

pub fn write_string(s: &[u8], style: StrStyle, out: &mut Vec<u8>) {
    match style {
        StrStyle::Hex => {
            out.push(b'<');
            for c in s {
                let _ = write!(out, "{c:02X}");
            }
            out.push(b'>');
        }
        StrStyle::Literal => {
            out.push(b'(');
            for &c in s {
                match c {
                    b'\\' => out.extend_from_slice(b"\\\\"),
                    b'(' => out.extend_from_slice(b"\\("),
                    b')' => out.extend_from_slice(b"\\)"),
                    b'\r' => out.extend_from_slice(b"\\r"),
                    b'\n' => out.extend_from_slice(b"\\n"),
                    _ => out.push(c),
                }
            }
            out.push(b')');
        }
    }
}

pub fn write_real(r: f64, out: &mut Vec<u8>) {
    let s = format!("{r}");
    out.extend_from_slice(s.as_bytes());
    if !s.contains('.') {
        out.extend_from_slice(b".0");
    }
}

pub fn write_obj(o: &Obj, style: StrStyle, out: &mut Vec<u8>) {
    match o {
        Obj::Null => out.extend_from_slice(b"null"),
        Obj::Bool(b) => out.extend_from_slice(if *b { b"true" } else { b"false" }),
        Obj::Int(i) => {
            let _ = write!(out, "{i}");
        }
        Obj::Real(r) => write_real(*r, out),
        Obj::Str(s) => write_string(s, style, out),
        Obj::Name(n) => write_name(n, out),
        Obj::Arr(a) => {
            out.push(b'[');
            for (i, x) in a.iter().enumerate() {
                if i > 0 {
                    out.push(b' ');
                }
                write_obj(x, style, out);
            }
            out.push(b']');
        }
        Obj::Dict(d) => write_dict(d, style, out),
        Obj::Stream(s) => {
            // only meaningful at top level; Builder handles streams itself
            write_dict(&s.dict, style, out);
        }
        Obj::Ref(n, g) => {
            let _ = write!(out, "{n} {g} R");
        }
    }
}

pub fn write_dict(d: &Dict, style: StrStyle, out: &mut Vec<u8>) {
    out.extend_from_slice(b"<<");
    for (k, v) in &d.0 {
        out.push(b' ');
        write_name(k, out);
        out.push(b' ');
        write_obj(v, style, out);
    }
    out.extend_from_slice(b" >>");
}

pub fn to_bytes(o: &Obj) -> Vec<u8> {
    let mut v = Vec::new();
    write_obj(o, StrStyle::Literal, &mut v);
    v
}

#[derive(Clone, Debug, PartialEq)]
pub enum XEntry {
    Free { next: u32, gen: u16 },
    InUse { off: usize, gen: u16 },
    Compressed { stm: u32, idx: u32 },
}

pub struct Builder {
    /// no white space between `obj` and a body that starts with a delimiter (`4 0 obj[...]`, `5 0 obj(...)`, `6 0 obj<<...>>`): valid per ISO 32000-1 7.2.2
    pub compact_obj: bool,
    pub out: Vec<u8>,
    pub pending: BTreeMap<u32, XEntry>,
    pub prev: Option<usize>,
    pub size: u32,
    pub style: StrStyle,
    pub crypt: Option<(refcrypto::Handler, u64)>,
    pub encrypt_obj: Option<u32>,
    pub revisions: u32,
    iv_counter: u32,
}

pub fn zlib(data: &[u8]) -> Vec<u8> {
    let mut e = flate2::write::ZlibEncoder::new(Vec::new(), flate2::Compression::default());
    e.write_all(data).unwrap();
    e.finish().unwrap()
}

impl Builder {
    pub fn new(version: &str) -> Builder {
        let mut out = Vec::new();
        out.extend_from_slice(format!("%PDF-{version}\n").as_bytes());
        out.extend_from_slice(b"%\xE2\xE3\xCF\xD3\n");
        Builder { out, pending: BTreeMap::new(), prev: None, size: 1, style: StrStyle::Literal, crypt: None, encrypt_obj: None, revisions: 0, iv_counter: 0, compact_obj: false }
    }

    /// Continue an existing file (append revisions to bytes produced elsewhere).
    pub fn append_to(base: &[u8], prev_startxref: usize, size: u32) -> Builder {
        let mut out = base.to_vec();
        if !out.ends_with(b"\n") {
            out.push(b'\n');
        }
        Builder { out, pending: BTreeMap::new(), prev: Some(prev_startxref), size, style: StrStyle::Literal, crypt: None, encrypt_obj: None, revisions: 1, iv_counter: 0, compact_obj: false }
    }

    fn next_iv(&mut self, n: u32) -> [u8; 16] {
        self.iv_counter += 1;
        refcrypto::iv_for(self.crypt.as_ref().map(|c| c.1).unwrap_or(0), n, self.iv_counter)
    }

    fn enc_obj(&mut self, n: u32, g: u16, o: &Obj) -> Obj {
        if self.crypt.is_none() || Some(n) == self.encrypt_obj {
            return o.clone();
        }
        match o {
            Obj::Str(s) => {
                let iv = self.next_iv(n);
                Obj::Str(self.crypt.as_ref().unwrap().0.encrypt_string(n, g, s, &iv))
            }
            Obj::Arr(a) => Obj::Arr(a.iter().map(|x| self.enc_obj(n, g, x)).collect()),
            Obj::Dict(d) => Obj::Dict(Dict(d.0.iter().map(|(k, v)| (k.clone(), self.enc_obj(n, g, v))).collect())),
            other => other.clone(),
        }
    }

    pub fn note_size(&mut self, n: u32) {
        if n + 1 > self.size {
            self.size = n + 1;
        }
    }

    /// Emit `n g obj … endobj`. Streams get an exact direct /Length unless the dictionary already
    /// has an indirect one (then the caller is responsible for that object).
    pub fn add_object(&mut self, n: u32, g: u16, o: &Obj) {
        self.note_size(n);
        let off = self.out.len();
        self.pending.insert(n, XEntry::InUse { off, gen: g });
        let _ = write!(self.out, "{n} {g} obj\n");
        let body_at = self.out.len();
        match o {
            Obj::Stream(s) => {
                let is_xref = s.dict.name(b"Type") == Some(b"XRef");
                let is_meta_clear = s.dict.name(b"Type") == Some(b"Metadata") && self.crypt.as_ref().map(|c| !c.0.encrypt_metadata).unwrap_or(false);
                let mut dict = if is_xref { s.dict.clone() } else { self.enc_obj(n, g, &Obj::Dict(s.dict.clone())).as_dict().unwrap().clone() };
                let data = if self.crypt.is_some() && !is_xref && !is_meta_clear && Some(n) != self.encrypt_obj {
                    let iv = self.next_iv(n);
                    self.crypt.as_ref().unwrap().0.encrypt_stream(n, g, &s.data, &iv)
                } else {
                    s.data.clone()
                };
                if !matches!(dict.get(b"Length"), Some(Obj::Ref(..))) {
                    dict.set(b"Length", Obj::Int(data.len() as i64));
                }
                write_dict(&dict, self.style, &mut self.out);
                self.out.extend_from_slice(b"\nstream\n");
                self.out.extend_from_slice(&data);
                self.out.extend_from_slice(b"\nendstream");
            }
            other => {
                let e = self.enc_obj(n, g, other);
                write_obj(&e, self.style, &mut self.out);
            }
        }
        if self.compact_obj && matches!(self.out.get(body_at), Some(b'[' | b'(' | b'<' | b'/')) {
            self.out.remove(body_at - 1);
        }
        self.out.extend_from_slice(b"\nendobj\n");
    }

    /// Pack `members` (object number, value; generation 0, no streams) into object stream `stm`.
    pub fn add_objstm(&mut self, stm: u32, members: &[(u32, Obj)], compress: bool) {
        let mut head = Vec::new();
        let mut body = Vec::new();
        for (i, (n, o)) in members.iter().enumerate() {
            let _ = write!(head, "{} {} ", n, body.len());
            write_obj(o, self.style, &mut body);
            body.push(b'\n');
            self.note_size(*n);
            self.pending.insert(*n, XEntry::Compressed { stm, idx: i as u32 });
        }
        let first = head.len();
        let mut data = head;
        data.extend_from_slice(&body);
        let mut d = Dict::new();
        d.set(b"Type", Obj::name("ObjStm"));
        d.set(b"N", Obj::Int(members.len() as i64));
        d.set(b"First", Obj::Int(first as i64));
        let data = if compress {
            d.set(b"Filter", Obj::name("FlateDecode"));
            zlib(&data)
        } else {
            data
        };
        let s = Obj::Stream(Box::new(super::Stream { dict: d, data }));
        // members are inserted above; add_object inserts the container entry
        self.add_object(stm, 0, &s);
    }

    pub fn free_object(&mut self, n: u32, next_gen: u16) {
        self.note_size(n);
        self.pending.insert(n, XEntry::Free { next: 0, gen: next_gen });
    }

    fn trailer_dict(&self, extra: &Dict) -> Dict {
        let mut t = Dict::new();
        t.set(b"Size", Obj::Int(self.size as i64));
        for (k, v) in &extra.0 {
            t.set(k, v.clone());
        }
        if let Some(p) = self.prev {
            t.set(b"Prev", Obj::Int(p as i64));
        }
        t
    }

    fn subsections(&self) -> Vec<(u32, Vec<(u32, XEntry)>)> {
        let mut subs: Vec<(u32, Vec<(u32, XEntry)>)> = Vec::new();
        for (n, e) in &self.pending {
            match subs.last_mut() {
                Some((start, v)) if *start + v.len() as u32 == *n => v.push((*n, e.clone())),
                _ => subs.push((*n, vec![(*n, e.clone())])),
            }
        }
        subs
    }

    fn ensure_zero(&mut self) {
        if self.revisions == 0 && !self.pending.contains_key(&0) {
            self.pending.insert(0, XEntry::Free { next: 0, gen: 65535 });
        }
    }

    fn tail(&mut self, xref_off: usize) {
        let _ = write!(self.out, "startxref\n{xref_off}\n%%EOF\n");
        self.prev = Some(xref_off);
        self.pending.clear();
        self.revisions += 1;
    }

    /// Finish the current revision with a classic table. Compressed entries cannot be expressed
    /// in a table; use `finish_hybrid` or `finish_stream` for those.
    pub fn finish_classic(&mut self, extra: &Dict) -> usize {
        self.ensure_zero();
        assert!(!self.pending.values().any(|e| matches!(e, XEntry::Compressed { .. })), "compressed entries need an xref stream");
        let off = self.out.len();
        self.out.extend_from_slice(b"xref\n");
        for (start, ents) in self.subsections() {
            let _ = write!(self.out, "{} {}\n", start, ents.len());
            for (_, e) in ents {
                match e {
                    XEntry::InUse { off, gen } => {
                        let _ = write!(self.out, "{off:010} {gen:05} n \n");
                    }
                    XEntry::Free { next, gen } => {
                        let _ = write!(self.out, "{next:010} {gen:05} f \n");
                    }
                    XEntry::Compressed { .. } => unreachable!(),
                }
            }
        }
        let t = self.trailer_dict(extra);
        self.out.extend_from_slice(b"trailer\n");
        write_dict(&t, self.style, &mut self.out);
        self.out.push(b'\n');
        self.tail(off);
        off
    }

    fn xref_stream_obj(&mut self, stm_num: u32, extra: &Dict, compress: bool, include_self: bool, self_off: usize) -> Obj {
        if include_self {
            self.note_size(stm_num);
            self.pending.insert(stm_num, XEntry::InUse { off: self_off, gen: 0 });
        }
        let subs = self.subsections();
        let max_off = self.pending.values().map(|e| match e {
            XEntry::InUse { off, .. } => *off as u64,
            XEntry::Compressed { stm, .. } => *stm as u64,
            XEntry::Free { next, .. } => *next as u64,
        }).max().unwrap_or(0);
        let w2 = if max_off < 1 << 16 { 2 } else if max_off < 1 << 24 { 3 } else { 4 };
        let mut data = Vec::new();
        let mut index = Vec::new();
        for (start, ents) in &subs {
            index.push(Obj::Int(*start as i64));
            index.push(Obj::Int(ents.len() as i64));
            for (_, e) in ents {
                let (t, a, b): (u8, u64, u64) = match e {
                    XEntry::Free { next, gen } => (0, *next as u64, *gen as u64),
                    XEntry::InUse { off, gen } => (1, *off as u64, *gen as u64),
                    XEntry::Compressed { stm, idx } => (2, *stm as u64, *idx as u64),
                };
                data.push(t);
                data.extend_from_slice(&a.to_be_bytes()[8 - w2..]);
                data.extend_from_slice(&(b as u16).to_be_bytes());
            }
        }
        let mut d = Dict::new();
        d.set(b"Type", Obj::name("XRef"));
        let t = self.trailer_dict(extra);
        for (k, v) in &t.0 {
            d.set(k, v.clone());
        }
        d.set(b"W", Obj::Arr(vec![Obj::Int(1), Obj::Int(w2 as i64), Obj::Int(2)]));
        d.set(b"Index", Obj::Arr(index));
        let data = if compress {
            d.set(b"Filter", Obj::name("FlateDecode"));
            zlib(&data)
        } else {
            data
        };
        Obj::Stream(Box::new(super::Stream { dict: d, data }))
    }

    /// Finish the current revision with a cross-reference stream numbered `stm_num`.
    pub fn finish_stream(&mut self, stm_num: u32, extra: &Dict, compress: bool) -> usize {
        self.ensure_zero();
        let off = self.out.len();
        let o = self.xref_stream_obj(stm_num, extra, compress, true, off);
        let Obj::Stream(s) = o else { unreachable!() };
        let _ = write!(self.out, "{stm_num} 0 obj\n");
        let mut dict = s.dict.clone();
        dict.set(b"Length", Obj::Int(s.data.len() as i64));
        write_dict(&dict, self.style, &mut self.out);
        self.out.extend_from_slice(b"\nstream\n");
        self.out.extend_from_slice(&s.data);
        self.out.extend_from_slice(b"\nendstream\nendobj\n");
        self.tail(off);
        off
    }

    /// Hybrid: compressed entries (and the objects listed in `hide`) go into an xref stream referenced
    /// by /XRefStm; everything else into the classic table.
    pub fn finish_hybrid(&mut self, stm_num: u32, extra: &Dict) -> usize {
        self.ensure_zero();
        let all = std::mem::take(&mut self.pending);
        let (comp, plain): (BTreeMap<_, _>, BTreeMap<_, _>) = all.into_iter().partition(|(_, e)| matches!(e, XEntry::Compressed { .. }));
        // the xref stream with compressed entries
        self.pending = comp;
        let xs_off = self.out.len();
        let saved_prev = self.prev.take();
        let o = self.xref_stream_obj(stm_num, &Dict::new(), false, false, xs_off);
        self.prev = saved_prev;
        let Obj::Stream(s) = o else { unreachable!() };
        self.note_size(stm_num);
        let _ = write!(self.out, "{stm_num} 0 obj\n");
        let mut dict = s.dict.clone();
        dict.set(b"Length", Obj::Int(s.data.len() as i64));
        dict.set(b"Size", Obj::Int(self.size as i64));
        write_dict(&dict, self.style, &mut self.out);
        self.out.extend_from_slice(b"\nstream\n");
        self.out.extend_from_slice(&s.data);
        self.out.extend_from_slice(b"\nendstream\nendobj\n");
        self.pending = plain;
        self.pending.insert(stm_num, XEntry::InUse { off: xs_off, gen: 0 });
        let mut ex = extra.clone();
        ex.set(b"XRefStm", Obj::Int(xs_off as i64));
        self.finish_classic(&ex)
    }

    /// Install reference encryption for all objects added from now on. `encrypt_obj` is the object
    /// number that will hold the /Encrypt dictionary (written unencrypted).
    pub fn set_encryption(&mut self, built: &refcrypto::Built, seed: u64, encrypt_obj: u32) {
        self.crypt = Some((built.handler.clone(), seed));
        self.encrypt_obj = Some(encrypt_obj);
    }
}

pub fn stream(dict: Dict, data: Vec<u8>) -> Obj {
    Obj::Stream(Box::new(super::Stream { dict, data }))
}

pub fn dict(entries: Vec<(&str, Obj)>) -> Dict {
    Dict(entries.into_iter().map(|(k, v)| (k.as_bytes().to_vec(), v)).collect())
}

pub fn arr_nums(v: &[f64]) -> Obj {
    Obj::Arr(v.iter().map(|x| if x.fract() == 0.0 && x.abs() < 1e15 { Obj::Int(*x as i64) } else { Obj::Real(*x) }).collect())
}

#[allow(dead_code)]
pub fn is_ws_byte(c: u8) -> bool {
    is_ws(c)
}
