//! refpdf — an independent, strict PDF object model, lexer, reader, validator and synthesizer,
//! written from ISO 32000-1 §7.2–7.5 for use as the "independent implementation" oracle.
//! It shares no code with the library under test.

pub mod filters;
pub mod reader;
pub mod synth;
pub mod textstring;
pub mod validate;

pub use reader::Reader;

use std::fmt;

#[derive(Clone, PartialEq)]
pub enum Obj {
    Null,
    Bool(bool),
    Int(i64),
    Real(f64),
    Str(Vec<u8>),
    Name(Vec<u8>),
    Arr(Vec<Obj>),
    Dict(Dict),
    Stream(Box<Stream>),
    Ref(u32, u16),
}

#[derive(Clone, PartialEq, Default)]
pub struct Dict(pub Vec<(Vec<u8>, Obj)>);

#[derive(Clone, PartialEq)]
pub struct Stream {
    pub dict: Dict,
    /// raw (still filtered, already decrypted when the reader holds a key) bytes
    pub data: Vec<u8>,
}

impl Dict {
    pub fn new() -> Self {
        Dict(Vec::new())
    }
    pub fn get(&self, k: &[u8]) -> Option<&Obj> {
        // last definition wins is not defined by the spec; a strict reader rejects duplicates at parse time
        self.0.iter().find(|(kk, _)| kk.as_slice() == k).map(|(_, v)| v)
    }
    pub fn set(&mut self, k: &[u8], v: Obj) {
        if let Some(e) = self.0.iter_mut().find(|(kk, _)| kk.as_slice() == k) {
            e.1 = v;
        } else {
            self.0.push((k.to_vec(), v));
        }
    }
    pub fn remove(&mut self, k: &[u8]) -> Option<Obj> {
        let i = self.0.iter().position(|(kk, _)| kk.as_slice() == k)?;
        Some(self.0.remove(i).1)
    }
    pub fn keys(&self) -> impl Iterator<Item = &[u8]> {
        self.0.iter().map(|(k, _)| k.as_slice())
    }
    pub fn int(&self, k: &[u8]) -> Option<i64> {
        match self.get(k) {
            Some(Obj::Int(i)) => Some(*i),
            _ => None,
        }
    }
    pub fn name(&self, k: &[u8]) -> Option<&[u8]> {
        match self.get(k) {
            Some(Obj::Name(n)) => Some(n.as_slice()),
            _ => None,
        }
    }
}

impl Obj {
    pub fn name(s: &str) -> Obj {
        Obj::Name(s.as_bytes().to_vec())
    }
    pub fn str(s: &[u8]) -> Obj {
        Obj::Str(s.to_vec())
    }
    pub fn as_int(&self) -> Option<i64> {
        match self {
            Obj::Int(i) => Some(*i),
            _ => None,
        }
    }
    pub fn as_num(&self) -> Option<f64> {
        match self {
            Obj::Int(i) => Some(*i as f64),
            Obj::Real(r) => Some(*r),
            _ => None,
        }
    }
    pub fn as_dict(&self) -> Option<&Dict> {
        match self {
            Obj::Dict(d) => Some(d),
            Obj::Stream(s) => Some(&s.dict),
            _ => None,
        }
    }
    pub fn as_arr(&self) -> Option<&[Obj]> {
        match self {
            Obj::Arr(a) => Some(a),
            _ => None,
        }
    }
    pub fn as_name(&self) -> Option<&[u8]> {
        match self {
            Obj::Name(n) => Some(n),
            _ => None,
        }
    }
    pub fn as_str(&self) -> Option<&[u8]> {
        match self {
            Obj::Str(n) => Some(n),
            _ => None,
        }
    }
}

fn show_bytes(f: &mut fmt::Formatter<'_>, b: &[u8]) -> fmt::Result {
    for &c in b.iter().take(200) {
        if (0x20..0x7f).contains(&c) && c != b'\\' {
            write!(f, "{}", c as char)?;
        } else {
            write!(f, "\\x{c:02x}")?;
        }
    }
    if b.len() > 200 {
        write!(f, "…[{}]", b.len())?;
    }
    Ok(())
}

impl fmt::Debug for Obj {
    fn fmt(&self, f: &mut fmt::Formatter<'_>) -> fmt::Result {
        match self {
            Obj::Null => write!(f, "null"),
            Obj::Bool(b) => write!(f, "{b}"),
            Obj::Int(i) => write!(f, "{i}"),
            Obj::Real(r) => write!(f, "{r:?}"),
            Obj::Str(s) => {
                write!(f, "(")?;
                show_bytes(f, s)?;
                write!(f, ")")
            }
            Obj::Name(n) => {
                write!(f, "/")?;
                show_bytes(f, n)
            }
            Obj::Arr(a) => f.debug_list().entries(a.iter()).finish(),
            Obj::Dict(d) => d.fmt(f),
            Obj::Stream(s) => {
                s.dict.fmt(f)?;
                write!(f, "stream[{}]", s.data.len())
            }
            Obj::Ref(n, g) => write!(f, "{n} {g} R"),
        }
    }
}

impl fmt::Debug for Dict {
    fn fmt(&self, f: &mut fmt::Formatter<'_>) -> fmt::Result {
        write!(f, "<<")?;
        for (k, v) in &self.0 {
            write!(f, " /")?;
            show_bytes(f, k)?;
            write!(f, " {v:?}")?;
        }
        write!(f, " >>")
    }
}

#[derive(Clone, Debug, PartialEq)]
pub struct PErr {
    pub at: usize,
    pub msg: String,
}

pub type PResult<T> = Result<T, PErr>;

pub fn perr<T>(at: usize, msg: impl Into<String>) -> PResult<T> {
    Err(PErr { at, msg: msg.into() })
}

pub fn is_ws(c: u8) -> bool {
    matches!(c, 0 | 9 | 10 | 12 | 13 | 32)
}
pub fn is_delim(c: u8) -> bool {
    matches!(c, b'(' | b')' | b'<' | b'>' | b'[' | b']' | b'{' | b'}' | b'/' | b'%')
}
pub fn is_regular(c: u8) -> bool {
    !is_ws(c) && !is_delim(c)
}

/// Strict lexer/parser over a byte slice (ISO 32000-1 §7.2, §7.3).
pub struct Lexer<'a> {
    pub buf: &'a [u8],
    pub pos: usize,
    pub max_depth: u32,
}

#[derive(Clone, Debug, PartialEq)]
pub enum Tok {
    Int(i64),
    Real(f64),
    Str(Vec<u8>),
    Name(Vec<u8>),
    ArrOpen,
    ArrClose,
    DictOpen,
    DictClose,
    Kw(Vec<u8>),
    Eof,
}

impl<'a> Lexer<'a> {
    pub fn new(buf: &'a [u8], pos: usize) -> Self {
        Lexer { buf, pos, max_depth: 400 }
    }

    pub fn skip_ws(&mut self) {
        while self.pos < self.buf.len() {
            let c = self.buf[self.pos];
            if is_ws(c) {
                self.pos += 1;
            } else if c == b'%' {
                while self.pos < self.buf.len() && self.buf[self.pos] != b'\n' && self.buf[self.pos] != b'\r' {
                    self.pos += 1;
                }
            } else {
                break;
            }
        }
    }

    pub fn peek_byte(&self) -> Option<u8> {
        self.buf.get(self.pos).copied()
    }

    pub fn next_tok(&mut self) -> PResult<Tok> {
        self.skip_ws();
        let start = self.pos;
        let Some(c) = self.peek_byte() else { return Ok(Tok::Eof) };
        match c {
            b'[' => {
                self.pos += 1;
                Ok(Tok::ArrOpen)
            }
            b']' => {
                self.pos += 1;
                Ok(Tok::ArrClose)
            }
            b'<' => {
                if self.buf.get(self.pos + 1) == Some(&b'<') {
                    self.pos += 2;
                    Ok(Tok::DictOpen)
                } else {
                    self.pos += 1;
                    self.hex_string(start)
                }
            }
            b'>' => {
                if self.buf.get(self.pos + 1) == Some(&b'>') {
                    self.pos += 2;
                    Ok(Tok::DictClose)
                } else {
                    perr(start, "stray '>'")
                }
            }
            b'(' => {
                self.pos += 1;
                self.lit_string(start)
            }
            b'/' => {
                self.pos += 1;
                self.name(start)
            }
            b')' | b'{' | b'}' => perr(start, format!("unexpected delimiter {:?}", c as char)),
            _ => {
                let s = self.pos;
                while self.pos < self.buf.len() && is_regular(self.buf[self.pos]) {
                    self.pos += 1;
                }
                let w = &self.buf[s..self.pos];
                if matches!(w[0], b'+' | b'-' | b'.' | b'0'..=b'9') {
                    parse_number(w, s)
                } else {
                    Ok(Tok::Kw(w.to_vec()))
                }
            }
        }
    }

    fn name(&mut self, start: usize) -> PResult<Tok> {
        let mut out = Vec::new();
        while self.pos < self.buf.len() && is_regular(self.buf[self.pos]) {
            let c = self.buf[self.pos];
            if c == b'#' {
                let h = self.buf.get(self.pos + 1).and_then(|c| hexval(*c));
                let l = self.buf.get(self.pos + 2).and_then(|c| hexval(*c));
                match (h, l) {
                    (Some(h), Some(l)) => {
                        let v = h * 16 + l;
                        if v == 0 {
                            return perr(self.pos, "#00 in name");
                        }
                        out.push(v);
                        self.pos += 3;
                    }
                    _ => return perr(self.pos, "'#' in name not followed by two hex digits"),
                }
            } else {
                if c == 0 {
                    return perr(self.pos, "NUL in name");
                }
                out.push(c);
                self.pos += 1;
            }
        }
        let _ = start;
        Ok(Tok::Name(out))
    }

    fn hex_string(&mut self, start: usize) -> PResult<Tok> {
        let mut out = Vec::new();
        let mut hi: Option<u8> = None;
        loop {
            let Some(c) = self.peek_byte() else { return perr(start, "unterminated hex string") };
            self.pos += 1;
            if c == b'>' {
                break;
            }
            if is_ws(c) {
                continue;
            }
            let Some(v) = hexval(c) else { return perr(self.pos - 1, format!("non-hex byte 0x{c:02x} in hex string")) };
            match hi.take() {
                None => hi = Some(v),
                Some(h) => out.push(h * 16 + v),
            }
        }
        if let Some(h) = hi {
            out.push(h * 16);
        }
        Ok(Tok::Str(out))
    }

    fn lit_string(&mut self, start: usize) -> PResult<Tok> {
        let mut out = Vec::new();
        let mut depth = 1u32;
        loop {
            let Some(c) = self.peek_byte() else { return perr(start, "unterminated literal string") };
            self.pos += 1;
            match c {
                b'(' => {
                    depth += 1;
                    out.push(c);
                }
                b')' => {
                    depth -= 1;
                    if depth == 0 {
                        break;
                    }
                    out.push(c);
                }
                b'\r' => {
                    // §7.3.4.2: an EOL marker within a literal string is read as LF
                    if self.peek_byte() == Some(b'\n') {
                        self.pos += 1;
                    }
                    out.push(b'\n');
                }
                b'\\' => {
                    let Some(e) = self.peek_byte() else { return perr(start, "unterminated literal string") };
                    self.pos += 1;
                    match e {
                        b'n' => out.push(b'\n'),
                        b'r' => out.push(b'\r'),
                        b't' => out.push(b'\t'),
                        b'b' => out.push(8),
                        b'f' => out.push(12),
                        b'(' => out.push(b'('),
                        b')' => out.push(b')'),
                        b'\\' => out.push(b'\\'),
                        b'\r' => {
                            if self.peek_byte() == Some(b'\n') {
                                self.pos += 1;
                            }
                        }
                        b'\n' => {}
                        b'0'..=b'7' => {
                            let mut v = (e - b'0') as u32;
                            for _ in 0..2 {
                                match self.peek_byte() {
                                    Some(d @ b'0'..=b'7') => {
                                        v = v * 8 + (d - b'0') as u32;
                                        self.pos += 1;
                                    }
                                    _ => break,
                                }
                            }
                            out.push((v & 0xff) as u8);
                        }
                        other => out.push(other), // backslash ignored
                    }
                }
                _ => out.push(c),
            }
        }
        Ok(Tok::Str(out))
    }

    /// Parse one object (direct object or reference) starting at the current position.
    pub fn parse_obj(&mut self) -> PResult<Obj> {
        let t = self.next_tok()?;
        self.parse_from(t, 0)
    }

    fn parse_from(&mut self, t: Tok, depth: u32) -> PResult<Obj> {
        if depth > self.max_depth {
            return perr(self.pos, "nesting too deep");
        }
        match t {
            Tok::Eof => perr(self.pos, "unexpected end of data"),
            Tok::Int(i) => {
                // lookahead for "G R"
                let save = self.pos;
                if i >= 0 {
                    if let Ok(Tok::Int(g)) = self.next_tok() {
                        if (0..=65535).contains(&g) {
                            let save2 = self.pos;
                            if let Ok(Tok::Kw(k)) = self.next_tok() {
                                if k == b"R" {
                                    if i > u32::MAX as i64 {
                                        return perr(save, "object number out of range");
                                    }
                                    return Ok(Obj::Ref(i as u32, g as u16));
                                }
                            }
                            let _ = save2;
                        }
                    }
                }
                self.pos = save;
                Ok(Obj::Int(i))
            }
            Tok::Real(r) => Ok(Obj::Real(r)),
            Tok::Str(s) => Ok(Obj::Str(s)),
            Tok::Name(n) => Ok(Obj::Name(n)),
            Tok::ArrOpen => {
                let mut v = Vec::new();
                loop {
                    let t = self.next_tok()?;
                    if t == Tok::ArrClose {
                        break;
                    }
                    v.push(self.parse_from(t, depth + 1)?);
                }
                Ok(Obj::Arr(v))
            }
            Tok::DictOpen => {
                let mut d = Dict::new();
                loop {
                    let at = self.pos;
                    let t = self.next_tok()?;
                    match t {
                        Tok::DictClose => break,
                        Tok::Name(k) => {
                            let vt = self.next_tok()?;
                            if vt == Tok::DictClose {
                                return perr(self.pos, "dictionary key without value");
                            }
                            let v = self.parse_from(vt, depth + 1)?;
                            if d.get(&k).is_some() {
                                return perr(at, format!("duplicate dictionary key /{}", String::from_utf8_lossy(&k)));
                            }
                            d.0.push((k, v));
                        }
                        other => return perr(at, format!("dictionary key is not a name: {other:?}")),
                    }
                }
                Ok(Obj::Dict(d))
            }
            Tok::ArrClose => perr(self.pos, "unexpected ']'"),
            Tok::DictClose => perr(self.pos, "unexpected '>>'"),
            Tok::Kw(k) => match k.as_slice() {
                b"true" => Ok(Obj::Bool(true)),
                b"false" => Ok(Obj::Bool(false)),
                b"null" => Ok(Obj::Null),
                _ => perr(self.pos - k.len(), format!("unknown keyword {:?}", String::from_utf8_lossy(&k))),
            },
        }
    }

    pub fn expect_kw(&mut self, kw: &[u8]) -> PResult<()> {
        let at = self.pos;
        match self.next_tok()? {
            Tok::Kw(k) if k == kw => Ok(()),
            other => perr(at, format!("expected keyword {:?}, found {other:?}", String::from_utf8_lossy(kw))),
        }
    }
}

pub fn hexval(c: u8) -> Option<u8> {
    match c {
        b'0'..=b'9' => Some(c - b'0'),
        b'a'..=b'f' => Some(c - b'a' + 10),
        b'A'..=b'F' => Some(c - b'A' + 10),
        _ => None,
    }
}

fn parse_number(w: &[u8], at: usize) -> PResult<Tok> {
    let s = std::str::from_utf8(w).map_err(|_| PErr { at, msg: "non-ASCII number".into() })?;
    let body = s.strip_prefix(['+', '-']).unwrap_or(s);
    if body.is_empty() {
        return perr(at, format!("bad number {s:?}"));
    }
    let mut dots = 0;
    for c in body.chars() {
        if c == '.' {
            dots += 1;
        } else if !c.is_ascii_digit() {
            return perr(at, format!("bad number {s:?}"));
        }
    }
    if dots == 0 {
        match s.parse::<i64>() {
            Ok(i) => Ok(Tok::Int(i)),
            Err(_) => match s.trim_start_matches('+').parse::<i64>() {
                Ok(i) => Ok(Tok::Int(i)),
                // §7.3.3 / Annex C: an integer beyond the implementation limit is converted to a real
                Err(_) => s.trim_start_matches('+').parse::<f64>().map(Tok::Real).map_err(|_| PErr { at, msg: format!("bad integer {s:?}") }),
            },
        }
    } else if dots == 1 {
        if body == "." {
            return perr(at, "bad number '.'");
        }
        // Rust's f64 parser accepts "1." and ".5" forms
        let t = s.trim_start_matches('+');
        let t2 = if t.starts_with("-.") { format!("-0{}", &t[1..]) } else if t.starts_with('.') { format!("0{t}") } else { t.to_string() };
        let t3 = if t2.ends_with('.') { format!("{t2}0") } else { t2 };
        t3.parse::<f64>().map(Tok::Real).map_err(|_| PErr { at, msg: format!("bad real {s:?}") })
    } else {
        perr(at, format!("bad number {s:?}"))
    }
}

/// Parse a complete direct object from bytes; trailing non-whitespace is an error.
pub fn parse_direct(bytes: &[u8]) -> PResult<Obj> {
    let mut lx = Lexer::new(bytes, 0);
    let o = lx.parse_obj()?;
    lx.skip_ws();
    if lx.pos != bytes.len() {
        return perr(lx.pos, "trailing data after object");
    }
    Ok(o)
}
