//! Strict reader: header, startxref, classic sections, xref streams, hybrid /XRefStm, /Prev chains,
//! object streams, direct/indirect /Length, standard security handler (via refcrypto). No recovery.
use super::filters;
use super::{perr, Dict, Lexer, Obj, PErr, PResult, Stream, Tok};
use crate::refcrypto;
use std::cell::RefCell;
use std::collections::{BTreeMap, BTreeSet};

#[derive(Clone, Debug, PartialEq)]
pub enum Entry {
    Missing,
    Free { next: u64, gen: u32 },
    InUse { off: u64, gen: u32 },
    Compressed { stm: u32, idx: u32 },
}

#[derive(Clone, Debug)]
pub struct Section {
    pub offset: usize,
    pub is_stream: bool,
    /// (object number, entry) in file order
    pub entries: Vec<(u32, Entry)>,
    pub trailer: Dict,
    /// subsections (start, count)
    pub subsections: Vec<(u32, u32)>,
    /// for xref streams: the object number of the stream itself
    pub stream_obj: Option<u32>,
    pub hybrid_of: Option<usize>,
}

pub struct Reader {
    pub buf: Vec<u8>,
    pub xref: Vec<Entry>,
    pub trailer: Dict,
    pub sections: Vec<Section>,
    pub startxref: usize,
    pub version: (u8, u8),
    pub crypt: Option<refcrypto::Handler>,
    pub encrypt_ref: Option<u32>,
    objstm_cache: RefCell<BTreeMap<u32, std::rc::Rc<Vec<(u32, Obj)>>>>,
    loading: RefCell<BTreeSet<u32>>,
}

fn find_last(hay: &[u8], needle: &[u8]) -> Option<usize> {
    if hay.len() < needle.len() {
        return None;
    }
    (0..=hay.len() - needle.len()).rev().find(|&i| &hay[i..i + needle.len()] == needle)
}

impl Reader {
    pub fn open(bytes: &[u8], password: Option<&[u8]>) -> PResult<Reader> {
        let buf = bytes.to_vec();
        // header
        if buf.len() < 8 || &buf[..5] != b"%PDF-" || !buf[5].is_ascii_digit() || buf[6] != b'.' || !buf[7].is_ascii_digit() {
            return perr(0, "missing %PDF-x.y header at offset 0");
        }
        let version = (buf[5] - b'0', buf[7] - b'0');
        // startxref
        let tail_start = buf.len().saturating_sub(2048);
        let Some(rel) = find_last(&buf[tail_start..], b"startxref") else { return perr(buf.len(), "no startxref in the last 2048 bytes") };
        let sx_pos = tail_start + rel;
        let mut lx = Lexer::new(&buf, sx_pos + 9);
        let startxref = match lx.next_tok()? {
            Tok::Int(i) if i >= 0 && (i as usize) < buf.len() => i as usize,
            other => return perr(sx_pos, format!("startxref value invalid: {other:?}")),
        };
        // %%EOF
        {
            let mut p = lx.pos;
            while p < buf.len() && super::is_ws(buf[p]) {
                p += 1;
            }
            if !buf[p..].starts_with(b"%%EOF") {
                return perr(p, "missing %%EOF after startxref");
            }
            let rest = &buf[p + 5..];
            if !rest.iter().all(|c| super::is_ws(*c)) {
                return perr(p + 5, "data after the final %%EOF");
            }
        }
        let mut rd = Reader {
            buf,
            xref: Vec::new(),
            trailer: Dict::new(),
            sections: Vec::new(),
            startxref,
            version,
            crypt: None,
            encrypt_ref: None,
            objstm_cache: RefCell::new(BTreeMap::new()),
            loading: RefCell::new(BTreeSet::new()),
        };
        let mut visited = BTreeSet::new();
        let mut off = Some(startxref);
        let mut first = true;
        while let Some(o) = off {
            if !visited.insert(o) {
                return perr(o, "/Prev loop");
            }
            let sec = rd.parse_section(o)?;
            let prev = match sec.trailer.get(b"Prev") {
                None => None,
                Some(Obj::Int(p)) if *p >= 0 && (*p as usize) < rd.buf.len() => Some(*p as usize),
                Some(x) => return perr(o, format!("/Prev invalid: {x:?}")),
            };
            let xrefstm = match sec.trailer.get(b"XRefStm") {
                None => None,
                Some(Obj::Int(p)) if *p >= 0 && (*p as usize) < rd.buf.len() && !sec.is_stream => Some(*p as usize),
                Some(x) => return perr(o, format!("/XRefStm invalid: {x:?}")),
            };
            if first {
                rd.trailer = sec.trailer.clone();
                first = false;
            }
            rd.merge(&sec)?;
            let idx = rd.sections.len();
            rd.sections.push(sec);
            if let Some(xs) = xrefstm {
                let mut hs = rd.parse_section(xs)?;
                if !hs.is_stream {
                    return perr(xs, "/XRefStm does not point at a cross-reference stream");
                }
                hs.hybrid_of = Some(idx);
                rd.merge(&hs)?;
                rd.sections.push(hs);
            }
            off = prev;
        }
        // /Size check of the newest trailer is left to the validator; Root is required
        if rd.trailer.get(b"Root").is_none() {
            return perr(startxref, "trailer has no /Root");
        }
        // encryption
        if let Some(enc) = rd.trailer.get(b"Encrypt").cloned() {
            let enc_dict = match &enc {
                Obj::Ref(n, g) => {
                    rd.encrypt_ref = Some(*n);
                    match rd.load_raw(*n, *g)? {
                        Obj::Dict(d) => d,
                        other => return perr(0, format!("/Encrypt is not a dictionary: {other:?}")),
                    }
                }
                Obj::Dict(d) => d.clone(),
                other => return perr(0, format!("/Encrypt is not a dictionary: {other:?}")),
            };
            let id0 = match rd.trailer.get(b"ID") {
                Some(Obj::Arr(a)) if a.len() == 2 => match (&a[0], &a[1]) {
                    (Obj::Str(s), Obj::Str(_)) => s.clone(),
                    _ => return perr(0, "/ID elements are not strings"),
                },
                None => return perr(0, "encrypted file without /ID in the trailer"),
                Some(x) => return perr(0, format!("/ID invalid: {x:?}")),
            };
            let h = refcrypto::Handler::from_dict(&enc_dict, &id0, password.unwrap_or(b"")).map_err(|e| PErr { at: 0, msg: format!("encryption: {e}") })?;
            rd.crypt = Some(h);
        }
        Ok(rd)
    }

    fn merge(&mut self, sec: &Section) -> PResult<()> {
        for (n, e) in &sec.entries {
            let n = *n as usize;
            if n >= 20_000_000 {
                return perr(sec.offset, "object number unreasonably large");
            }
            if n >= self.xref.len() {
                self.xref.resize(n + 1, Entry::Missing);
            }
            if self.xref[n] == Entry::Missing {
                self.xref[n] = e.clone();
            }
        }
        Ok(())
    }

    fn parse_section(&self, off: usize) -> PResult<Section> {
        let buf = &self.buf;
        if buf[off..].starts_with(b"xref") {
            let mut p = off + 4;
            let mut entries = Vec::new();
            let mut subsections = Vec::new();
            // EOL after xref
            p = eat_eol(buf, p).ok_or(PErr { at: p, msg: "no end-of-line after 'xref'".into() })?;
            loop {
                // either "trailer" or "start count"
                let mut q = p;
                while q < buf.len() && super::is_ws(buf[q]) {
                    q += 1;
                }
                if buf[q..].starts_with(b"trailer") {
                    p = q + 7;
                    break;
                }
                let (start, np) = read_uint(buf, p).ok_or(PErr { at: p, msg: "bad subsection start".into() })?;
                if buf.get(np) != Some(&b' ') {
                    return perr(np, "subsection header: expected single space");
                }
                let (count, np2) = read_uint(buf, np + 1).ok_or(PErr { at: np, msg: "bad subsection count".into() })?;
                // optional trailing spaces then EOL
                let mut e = np2;
                while buf.get(e) == Some(&b' ') {
                    e += 1;
                }
                p = eat_eol(buf, e).ok_or(PErr { at: e, msg: "no end-of-line after subsection header".into() })?;
                if start > u32::MAX as u64 || count > 10_000_000 {
                    return perr(p, "subsection range unreasonable");
                }
                subsections.push((start as u32, count as u32));
                for i in 0..count {
                    if p + 20 > buf.len() {
                        return perr(p, "xref entry past end of file");
                    }
                    let e = &buf[p..p + 20];
                    let ok = e[..10].iter().all(|c| c.is_ascii_digit())
                        && e[10] == b' '
                        && e[11..16].iter().all(|c| c.is_ascii_digit())
                        && e[16] == b' '
                        && (e[17] == b'n' || e[17] == b'f')
                        && matches!((e[18], e[19]), (b' ', b'\n') | (b' ', b'\r') | (b'\r', b'\n'));
                    if !ok {
                        return perr(p, format!("malformed 20-byte xref entry: {:?}", String::from_utf8_lossy(e)));
                    }
                    let a: u64 = std::str::from_utf8(&e[..10]).unwrap().parse().unwrap();
                    let g: u32 = std::str::from_utf8(&e[11..16]).unwrap().parse().unwrap();
                    let ent = if e[17] == b'n' { Entry::InUse { off: a, gen: g } } else { Entry::Free { next: a, gen: g } };
                    entries.push(((start + i) as u32, ent));
                    p += 20;
                }
            }
            let mut lx = Lexer::new(buf, p);
            let t = match lx.parse_obj()? {
                Obj::Dict(d) => d,
                other => return perr(p, format!("trailer is not a dictionary: {other:?}")),
            };
            Ok(Section { offset: off, is_stream: false, entries, trailer: t, subsections, stream_obj: None, hybrid_of: None })
        } else {
            // xref stream: N G obj << >> stream
            let mut lx = Lexer::new(buf, off);
            let n = match lx.next_tok()? {
                Tok::Int(n) if n > 0 => n as u32,
                other => return perr(off, format!("neither 'xref' nor an object at the cross-reference offset: {other:?}")),
            };
            let _g = match lx.next_tok()? {
                Tok::Int(g) if (0..=65535).contains(&g) => g,
                other => return perr(off, format!("bad generation: {other:?}")),
            };
            lx.expect_kw(b"obj")?;
            let o = self.parse_body(&mut lx, None)?;
            let Obj::Stream(s) = o else { return perr(off, "cross-reference offset points at a non-stream object") };
            if s.dict.name(b"Type") != Some(b"XRef") {
                return perr(off, "cross-reference stream lacks /Type /XRef");
            }
            let size = s.dict.int(b"Size").ok_or(PErr { at: off, msg: "xref stream without /Size".into() })?;
            let w: Vec<i64> = match s.dict.get(b"W") {
                Some(Obj::Arr(a)) if a.len() == 3 => {
                    let mut v = vec![];
                    for x in a {
                        match x {
                            Obj::Int(i) if (0..=8).contains(i) => v.push(*i),
                            _ => return perr(off, "bad /W element"),
                        }
                    }
                    v
                }
                _ => return perr(off, "xref stream /W missing or not 3 integers"),
            };
            let index: Vec<(i64, i64)> = match s.dict.get(b"Index") {
                None => vec![(0, size)],
                Some(Obj::Arr(a)) if a.len() % 2 == 0 => {
                    let mut v = vec![];
                    for p in a.chunks(2) {
                        match (&p[0], &p[1]) {
                            (Obj::Int(a), Obj::Int(b)) if *a >= 0 && *b >= 0 => v.push((*a, *b)),
                            _ => return perr(off, "bad /Index"),
                        }
                    }
                    v
                }
                _ => return perr(off, "bad /Index"),
            };
            let data = filters::decode_stream(&s.dict, &s.data).map_err(|e| PErr { at: off, msg: format!("xref stream data: {e:?}") })?;
            let rec = (w[0] + w[1] + w[2]) as usize;
            if rec == 0 {
                return perr(off, "/W all zero");
            }
            let total: i64 = index.iter().map(|x| x.1).sum();
            if data.len() != rec * total as usize {
                return perr(off, format!("xref stream data length {} != {} entries × {} bytes", data.len(), total, rec));
            }
            let mut entries = Vec::new();
            let mut subsections = Vec::new();
            let mut p = 0usize;
            for (start, count) in index {
                if start + count > 20_000_000 {
                    return perr(off, "/Index range unreasonable");
                }
                subsections.push((start as u32, count as u32));
                for i in 0..count {
                    let mut f = [0u64; 3];
                    for k in 0..3 {
                        let mut v = 0u64;
                        for _ in 0..w[k] {
                            v = (v << 8) | data[p] as u64;
                            p += 1;
                        }
                        f[k] = v;
                    }
                    let ty = if w[0] == 0 { 1 } else { f[0] };
                    let e = match ty {
                        0 => Entry::Free { next: f[1], gen: f[2] as u32 },
                        1 => Entry::InUse { off: f[1], gen: f[2] as u32 },
                        2 => Entry::Compressed { stm: f[1] as u32, idx: f[2] as u32 },
                        _ => Entry::Missing, // §7.5.8.3: unknown types are treated as references to null
                    };
                    entries.push(((start + i) as u32, e));
                }
            }
            Ok(Section { offset: off, is_stream: true, entries, trailer: s.dict.clone(), subsections, stream_obj: Some(n), hybrid_of: None })
        }
    }

    /// Parse the body of an indirect object after "N G obj": a direct object, optionally a stream, then endobj.
    /// `ctx` = Some((n, g)) enables decryption.
    fn parse_body(&self, lx: &mut Lexer, ctx: Option<(u32, u16)>) -> PResult<Obj> {
        let o = lx.parse_obj()?;
        let save = lx.pos;
        match lx.next_tok()? {
            Tok::Kw(k) if k == b"endobj" => Ok(o),
            Tok::Kw(k) if k == b"stream" => {
                let Obj::Dict(d) = o else { return perr(save, "stream keyword after a non-dictionary") };
                // EOL after stream: CRLF or LF (a lone CR is not allowed)
                let mut p = lx.pos;
                if self.buf.get(p) == Some(&b'\r') && self.buf.get(p + 1) == Some(&b'\n') {
                    p += 2;
                } else if self.buf.get(p) == Some(&b'\n') {
                    p += 1;
                } else {
                    return perr(p, "'stream' keyword not followed by CRLF or LF");
                }
                let len = match d.get(b"Length") {
                    Some(Obj::Int(l)) if *l >= 0 => *l as usize,
                    Some(Obj::Ref(n, g)) => match self.load_raw(*n, *g)? {
                        Obj::Int(l) if l >= 0 => l as usize,
                        other => return perr(p, format!("indirect /Length is not a non-negative integer: {other:?}")),
                    },
                    other => return perr(p, format!("stream /Length invalid: {other:?}")),
                };
                if p + len > self.buf.len() {
                    return perr(p, "stream /Length runs past end of file");
                }
                let data = self.buf[p..p + len].to_vec();
                let mut lx2 = Lexer::new(&self.buf, p + len);
                // optional EOL, then endstream
                let at = lx2.pos;
                match lx2.next_tok()? {
                    Tok::Kw(k) if k == b"endstream" => {}
                    other => return perr(at, format!("expected endstream after {len} bytes of stream data (wrong /Length?), found {other:?}")),
                }
                // the bytes between data end and 'endstream' must be only an EOL
                {
                    let between = &self.buf[p + len..lx2.pos - 9];
                    if !matches!(between, b"" | b"\n" | b"\r" | b"\r\n") {
                        return perr(p + len, "stream /Length does not end right before endstream");
                    }
                }
                lx2.expect_kw(b"endobj")?;
                lx.pos = lx2.pos;
                let _ = ctx;
                Ok(Obj::Stream(Box::new(Stream { dict: d, data })))
            }
            other => perr(save, format!("expected endobj, found {other:?}")),
        }
    }

    /// Load an object without decryption (used for /Encrypt, /Length and xref streams).
    pub fn load_raw(&self, n: u32, g: u16) -> PResult<Obj> {
        self.load_impl(n, g, false)
    }

    pub fn entry(&self, n: u32) -> Entry {
        self.xref.get(n as usize).cloned().unwrap_or(Entry::Missing)
    }

    /// Load indirect object (n, g); free or missing objects are null (§7.3.10).
    pub fn load(&self, n: u32, g: u16) -> PResult<Obj> {
        self.load_impl(n, g, true)
    }

    fn load_impl(&self, n: u32, g: u16, decrypt: bool) -> PResult<Obj> {
        match self.entry(n) {
            Entry::Missing | Entry::Free { .. } => Ok(Obj::Null),
            Entry::InUse { off, gen } => {
                if gen != g as u32 {
                    return Ok(Obj::Null);
                }
                let off = off as usize;
                if off >= self.buf.len() {
                    return perr(off, format!("xref offset of object {n} is beyond end of file"));
                }
                if !self.loading.borrow_mut().insert(n) {
                    return perr(off, format!("object {n} needs itself to be parsed (circular /Length?)"));
                }
                let r = (|| {
                    let mut lx = Lexer::new(&self.buf, off);
                    // the offset must point at the first digit of the object number
                    if !self.buf[off].is_ascii_digit() {
                        return perr(off, format!("xref offset of object {n} does not point at an object header"));
                    }
                    match lx.next_tok()? {
                        Tok::Int(i) if i == n as i64 => {}
                        other => return perr(off, format!("xref offset of object {n} points at {other:?}")),
                    }
                    match lx.next_tok()? {
                        Tok::Int(i) if i == g as i64 => {}
                        other => return perr(off, format!("object {n}: generation {other:?} ≠ {g}")),
                    }
                    lx.expect_kw(b"obj")?;
                    self.parse_body(&mut lx, Some((n, g)))
                })();
                self.loading.borrow_mut().remove(&n);
                let mut o = r?;
                if decrypt {
                    if let Some(c) = &self.crypt {
                        if Some(n) != self.encrypt_ref {
                            self.decrypt_obj(c, n, g, &mut o, true)?;
                        }
                    }
                }
                Ok(o)
            }
            Entry::Compressed { stm, idx } => {
                if g != 0 {
                    return Ok(Obj::Null);
                }
                let members = self.objstm(stm)?;
                let Some((num, o)) = members.get(idx as usize) else { return perr(0, format!("object {n}: index {idx} beyond object stream {stm}")) };
                if *num != n {
                    return perr(0, format!("object stream {stm} index {idx} holds object {num}, xref says {n}"));
                }
                Ok(o.clone())
            }
        }
    }

    fn decrypt_obj(&self, c: &refcrypto::Handler, n: u32, g: u16, o: &mut Obj, top: bool) -> PResult<()> {
        match o {
            Obj::Str(s) => {
                *s = c.decrypt_string(n, g, s).map_err(|e| PErr { at: 0, msg: format!("object {n}: string decryption: {e}") })?;
            }
            Obj::Arr(a) => {
                for x in a {
                    self.decrypt_obj(c, n, g, x, false)?;
                }
            }
            Obj::Dict(d) => {
                for (_, v) in d.0.iter_mut() {
                    self.decrypt_obj(c, n, g, v, false)?;
                }
            }
            Obj::Stream(s) if top => {
                let ty = s.dict.name(b"Type").map(|x| x.to_vec());
                if ty.as_deref() == Some(b"XRef") {
                    return Ok(());
                }
                for (_, v) in s.dict.0.iter_mut() {
                    self.decrypt_obj(c, n, g, v, false)?;
                }
                let is_meta = ty.as_deref() == Some(b"Metadata");
                // explicit /Crypt filter with /Identity → not encrypted
                let identity = crypt_filter_identity(&s.dict);
                if !(identity || (is_meta && !c.encrypt_metadata)) {
                    s.data = c.decrypt_stream(n, g, &s.data).map_err(|e| PErr { at: 0, msg: format!("object {n}: stream decryption: {e}") })?;
                }
            }
            _ => {}
        }
        Ok(())
    }

    fn objstm(&self, stm: u32) -> PResult<std::rc::Rc<Vec<(u32, Obj)>>> {
        if let Some(c) = self.objstm_cache.borrow().get(&stm) {
            return Ok(c.clone());
        }
        if matches!(self.entry(stm), Entry::Compressed { .. }) {
            return perr(0, format!("object stream {stm} is itself inside an object stream"));
        }
        let Obj::Stream(s) = self.load(stm, 0)? else { return perr(0, format!("object stream {stm} is not a stream")) };
        if s.dict.name(b"Type") != Some(b"ObjStm") {
            return perr(0, format!("object stream {stm} lacks /Type /ObjStm"));
        }
        let n = s.dict.int(b"N").filter(|x| *x >= 0).ok_or(PErr { at: 0, msg: format!("object stream {stm}: bad /N") })? as usize;
        let first = s.dict.int(b"First").filter(|x| *x >= 0).ok_or(PErr { at: 0, msg: format!("object stream {stm}: bad /First") })? as usize;
        let dict = self.resolve_filter_entries(&s.dict)?;
        let data = filters::decode_stream(&dict, &s.data).map_err(|e| PErr { at: 0, msg: format!("object stream {stm}: {e:?}") })?;
        if first > data.len() {
            return perr(0, format!("object stream {stm}: /First beyond data"));
        }
        let mut lx = Lexer::new(&data[..first], 0);
        let mut heads = Vec::new();
        for _ in 0..n {
            let num = match lx.next_tok()? {
                Tok::Int(i) if i > 0 => i as u32,
                other => return perr(0, format!("object stream {stm}: bad member number {other:?}")),
            };
            let off = match lx.next_tok()? {
                Tok::Int(i) if i >= 0 => i as usize,
                other => return perr(0, format!("object stream {stm}: bad member offset {other:?}")),
            };
            heads.push((num, off));
        }
        if !heads.windows(2).all(|w| w[0].1 < w[1].1) {
            return perr(0, format!("object stream {stm}: member offsets not strictly ascending"));
        }
        let mut out = Vec::new();
        for (i, (num, off)) in heads.iter().enumerate() {
            let start = first + off;
            let end = heads.get(i + 1).map(|h| first + h.1).unwrap_or(data.len());
            if start > data.len() || end > data.len() {
                return perr(0, format!("object stream {stm}: member {num} offset beyond data"));
            }
            let o = super::parse_direct(&data[start..end]).map_err(|e| PErr { at: e.at, msg: format!("object stream {stm} member {num}: {}", e.msg) })?;
            if matches!(o, Obj::Stream(_)) {
                return perr(0, "stream inside object stream");
            }
            out.push((*num, o));
        }
        let rc = std::rc::Rc::new(out);
        self.objstm_cache.borrow_mut().insert(stm, rc.clone());
        Ok(rc)
    }

    /// Replace indirect /Filter, /DecodeParms (and their array members) by their values.
    pub fn resolve_filter_entries(&self, d: &Dict) -> PResult<Dict> {
        let mut out = d.clone();
        for k in [&b"Filter"[..], b"DecodeParms"] {
            if let Some(v) = d.get(k) {
                let mut r = self.resolve(v)?;
                if let Obj::Arr(a) = &mut r {
                    for x in a.iter_mut() {
                        *x = self.resolve(x)?;
                    }
                }
                out.set(k, r);
            }
        }
        Ok(out)
    }

    pub fn resolve(&self, o: &Obj) -> PResult<Obj> {
        let mut cur = o.clone();
        for _ in 0..32 {
            match cur {
                Obj::Ref(n, g) => cur = self.load(n, g)?,
                other => return Ok(other),
            }
        }
        perr(0, "reference chain too long")
    }

    pub fn catalog(&self) -> PResult<Dict> {
        match self.resolve(self.trailer.get(b"Root").unwrap_or(&Obj::Null))? {
            Obj::Dict(d) => Ok(d),
            other => perr(0, format!("/Root is not a dictionary: {other:?}")),
        }
    }

    pub fn info(&self) -> PResult<Option<Dict>> {
        match self.trailer.get(b"Info") {
            None => Ok(None),
            Some(o) => match self.resolve(o)? {
                Obj::Dict(d) => Ok(Some(d)),
                Obj::Null => Ok(None),
                other => perr(0, format!("/Info is not a dictionary: {other:?}")),
            },
        }
    }

    /// Decode a stream's data fully (filters resolved).
    pub fn stream_data(&self, s: &Stream) -> PResult<Vec<u8>> {
        let d = self.resolve_filter_entries(&s.dict)?;
        filters::decode_stream(&d, &s.data).map_err(|e| PErr { at: 0, msg: format!("{e:?}") })
    }

    /// Page list by an independent page-tree walk (document order), each with inherited attributes resolved.
    pub fn pages(&self) -> PResult<Vec<PageInfo>> {
        let cat = self.catalog()?;
        let root = cat.get(b"Pages").ok_or(PErr { at: 0, msg: "catalog has no /Pages".into() })?.clone();
        let mut out = Vec::new();
        let mut seen = BTreeSet::new();
        self.walk_pages(&root, &Dict::new(), &mut out, &mut seen, 0)?;
        Ok(out)
    }

    fn walk_pages(&self, node: &Obj, inherited: &Dict, out: &mut Vec<PageInfo>, seen: &mut BTreeSet<u32>, depth: u32) -> PResult<()> {
        if depth > 64 {
            return perr(0, "page tree too deep");
        }
        let id = match node {
            Obj::Ref(n, _) => {
                if !seen.insert(*n) {
                    return perr(0, format!("page tree node {n} visited twice"));
                }
                Some(*n)
            }
            _ => None,
        };
        let Obj::Dict(d) = self.resolve(node)? else { return perr(0, "page tree node is not a dictionary") };
        let mut inh = inherited.clone();
        for k in [&b"Resources"[..], b"MediaBox", b"CropBox", b"Rotate"] {
            if let Some(v) = d.get(k) {
                inh.set(k, v.clone());
            }
        }
        match d.name(b"Type") {
            Some(b"Pages") => {
                let kids = self.resolve(d.get(b"Kids").unwrap_or(&Obj::Null))?;
                let Obj::Arr(kids) = kids else { return perr(0, "/Kids is not an array") };
                for k in &kids {
                    self.walk_pages(k, &inh, out, seen, depth + 1)?;
                }
                Ok(())
            }
            Some(b"Page") => {
                out.push(PageInfo { obj: id, dict: d, inherited: inh });
                Ok(())
            }
            other => perr(0, format!("page tree node with /Type {:?}", other.map(String::from_utf8_lossy))),
        }
    }

    /// Concatenated decoded content of a page.
    pub fn page_content(&self, p: &PageInfo) -> PResult<Vec<u8>> {
        let c = match p.dict.get(b"Contents") {
            None => return Ok(Vec::new()),
            Some(c) => c.clone(),
        };
        let mut out = Vec::new();
        match self.resolve(&c)? {
            Obj::Stream(s) => out.extend(self.stream_data(&s)?),
            Obj::Arr(a) => {
                for x in a {
                    match self.resolve(&x)? {
                        Obj::Stream(s) => {
                            out.extend(self.stream_data(&s)?);
                            out.push(b'\n');
                        }
                        other => return perr(0, format!("/Contents element is not a stream: {other:?}")),
                    }
                }
            }
            Obj::Null => {}
            other => return perr(0, format!("/Contents invalid: {other:?}")),
        }
        Ok(out)
    }

    /// All object numbers that have an in-use or compressed entry.
    pub fn object_numbers(&self) -> Vec<u32> {
        self.xref
            .iter()
            .enumerate()
            .filter(|(_, e)| matches!(e, Entry::InUse { .. } | Entry::Compressed { .. }))
            .map(|(i, _)| i as u32)
            .collect()
    }

    pub fn gen_of(&self, n: u32) -> u16 {
        match self.entry(n) {
            Entry::InUse { gen, .. } => gen as u16,
            _ => 0,
        }
    }
}

#[derive(Clone, Debug)]
pub struct PageInfo {
    pub obj: Option<u32>,
    pub dict: Dict,
    /// inheritable attributes with nearest-ancestor-wins resolution (page's own included)
    pub inherited: Dict,
}

fn crypt_filter_identity(d: &Dict) -> bool {
    // /Filter [/Crypt …] with /DecodeParms << /Name /Identity >> (or no Name → Identity)
    let (filters, parms): (Vec<&Obj>, Vec<Option<&Obj>>) = match d.get(b"Filter") {
        Some(f @ Obj::Name(_)) => (vec![f], vec![d.get(b"DecodeParms")]),
        Some(Obj::Arr(a)) => {
            let p: Vec<Option<&Obj>> = match d.get(b"DecodeParms") {
                Some(Obj::Arr(pa)) => (0..a.len()).map(|i| pa.get(i)).collect(),
                _ => vec![None; a.len()],
            };
            (a.iter().collect(), p)
        }
        _ => return false,
    };
    for (f, p) in filters.iter().zip(parms.iter()) {
        if f.as_name() == Some(b"Crypt") {
            let name = p.and_then(|p| p.as_dict()).and_then(|d| d.name(b"Name"));
            return name.is_none() || name == Some(b"Identity");
        }
    }
    false
}

fn eat_eol(buf: &[u8], mut p: usize) -> Option<usize> {
    // optional spaces
    while buf.get(p) == Some(&b' ') {
        p += 1;
    }
    match (buf.get(p), buf.get(p + 1)) {
        (Some(b'\r'), Some(b'\n')) => Some(p + 2),
        (Some(b'\n'), _) | (Some(b'\r'), _) => Some(p + 1),
        _ => None,
    }
}

fn read_uint(buf: &[u8], p: usize) -> Option<(u64, usize)> {
    let mut q = p;
    let mut v: u64 = 0;
    while q < buf.len() && buf[q].is_ascii_digit() {
        v = v.checked_mul(10)?.checked_add((buf[q] - b'0') as u64)?;
        q += 1;
    }
    if q == p {
        None
    } else {
        Some((v, q))
    }
}
