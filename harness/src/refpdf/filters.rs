//! Reference stream-filter *decoders* for the independent reader (strict; ISO 32000-1 §7.4).
use super::{hexval, is_ws, Dict, Obj};
use std::io::Read;

#[derive(Debug, Clone, PartialEq)]
pub enum FErr {
    Unsupported(String),
    Bad(String),
}

pub fn flate(data: &[u8]) -> Result<Vec<u8>, FErr> {
    let mut d = flate2::read::ZlibDecoder::new(data);
    let mut out = Vec::new();
    d.read_to_end(&mut out).map_err(|e| FErr::Bad(format!("zlib: {e}")))?;
    Ok(out)
}

pub fn ascii_hex(data: &[u8]) -> Result<Vec<u8>, FErr> {
    let mut out = Vec::new();
    let mut hi = None;
    for &c in data {
        if c == b'>' {
            break;
        }
        if is_ws(c) {
            continue;
        }
        let v = hexval(c).ok_or_else(|| FErr::Bad(format!("AHx: bad byte {c:#x}")))?;
        match hi.take() {
            None => hi = Some(v),
            Some(h) => out.push(h * 16 + v),
        }
    }
    if let Some(h) = hi {
        out.push(h * 16);
    }
    Ok(out)
}

pub fn ascii85(data: &[u8]) -> Result<Vec<u8>, FErr> {
    let mut out = Vec::new();
    let mut grp: Vec<u8> = Vec::new();
    let mut i = 0;
    // optional <~ prefix
    let d: &[u8] = {
        let mut s = 0;
        while s < data.len() && is_ws(data[s]) {
            s += 1;
        }
        if data[s..].starts_with(b"<~") {
            &data[s + 2..]
        } else {
            data
        }
    };
    while i < d.len() {
        let c = d[i];
        i += 1;
        if is_ws(c) {
            continue;
        }
        if c == b'~' {
            break;
        }
        if c == b'z' {
            if !grp.is_empty() {
                return Err(FErr::Bad("A85: z inside group".into()));
            }
            out.extend_from_slice(&[0, 0, 0, 0]);
            continue;
        }
        if !(b'!'..=b'u').contains(&c) {
            return Err(FErr::Bad(format!("A85: bad byte {c:#x}")));
        }
        grp.push(c - b'!');
        if grp.len() == 5 {
            let mut v: u64 = 0;
            for &g in &grp {
                v = v * 85 + g as u64;
            }
            if v > u32::MAX as u64 {
                return Err(FErr::Bad("A85: group overflow".into()));
            }
            out.extend_from_slice(&(v as u32).to_be_bytes());
            grp.clear();
        }
    }
    if !grp.is_empty() {
        if grp.len() == 1 {
            return Err(FErr::Bad("A85: single trailing char".into()));
        }
        let n = grp.len();
        while grp.len() < 5 {
            grp.push(84);
        }
        let mut v: u64 = 0;
        for &g in &grp {
            v = v * 85 + g as u64;
        }
        if v > u32::MAX as u64 {
            return Err(FErr::Bad("A85: group overflow".into()));
        }
        out.extend_from_slice(&(v as u32).to_be_bytes()[..n - 1]);
    }
    Ok(out)
}

pub fn run_length(data: &[u8]) -> Result<Vec<u8>, FErr> {
    let mut out = Vec::new();
    let mut i = 0;
    while i < data.len() {
        let l = data[i];
        i += 1;
        if l == 128 {
            break;
        }
        if l < 128 {
            let n = l as usize + 1;
            if i + n > data.len() {
                return Err(FErr::Bad("RL: literal run past end".into()));
            }
            out.extend_from_slice(&data[i..i + n]);
            i += n;
        } else {
            let n = 257 - l as usize;
            let Some(&b) = data.get(i) else { return Err(FErr::Bad("RL: repeat run past end".into())) };
            i += 1;
            out.extend(std::iter::repeat(b).take(n));
        }
    }
    Ok(out)
}

pub fn lzw(data: &[u8], early_change: bool) -> Result<Vec<u8>, FErr> {
    // hand decoder (MSB first, 9–12 bits, clear=256, eod=257)
    let mut out = Vec::new();
    let mut table: Vec<Vec<u8>> = Vec::new();
    let reset = |t: &mut Vec<Vec<u8>>| {
        t.clear();
        for i in 0..256u32 {
            t.push(vec![i as u8]);
        }
        t.push(vec![]);
        t.push(vec![]);
    };
    reset(&mut table);
    let mut width = 9u32;
    let mut bitpos = 0usize;
    let mut prev: Option<Vec<u8>> = None;
    let total_bits = data.len() * 8;
    let ec = if early_change { 1 } else { 0 };
    loop {
        if bitpos + width as usize > total_bits {
            break;
        }
        let mut code = 0u32;
        for k in 0..width as usize {
            let b = bitpos + k;
            code = (code << 1) | ((data[b / 8] >> (7 - b % 8)) & 1) as u32;
        }
        bitpos += width as usize;
        if code == 256 {
            reset(&mut table);
            width = 9;
            prev = None;
            continue;
        }
        if code == 257 {
            break;
        }
        let entry = if (code as usize) < table.len() {
            table[code as usize].clone()
        } else if code as usize == table.len() {
            let Some(p) = &prev else { return Err(FErr::Bad("LZW: bad first code".into())) };
            let mut e = p.clone();
            e.push(p[0]);
            e
        } else {
            return Err(FErr::Bad(format!("LZW: code {code} beyond table {}", table.len())));
        };
        out.extend_from_slice(&entry);
        if let Some(p) = prev.take() {
            if table.len() < 4096 {
                let mut e = p;
                e.push(entry[0]);
                table.push(e);
            }
        }
        prev = Some(entry);
        let n = table.len() + ec;
        width = if n >= 2048 {
            12
        } else if n >= 1024 {
            11
        } else if n >= 512 {
            10
        } else {
            9
        };
    }
    Ok(out)
}

pub struct Parms {
    pub predictor: i64,
    pub colors: i64,
    pub bpc: i64,
    pub columns: i64,
    pub early_change: i64,
}

impl Parms {
    pub fn from(d: Option<&Dict>) -> Parms {
        let g = |k: &[u8], def: i64| d.and_then(|d| d.int(k)).unwrap_or(def);
        Parms { predictor: g(b"Predictor", 1), colors: g(b"Colors", 1), bpc: g(b"BitsPerComponent", 8), columns: g(b"Columns", 1), early_change: g(b"EarlyChange", 1) }
    }
}

pub fn unpredict(data: &[u8], p: &Parms) -> Result<Vec<u8>, FErr> {
    if p.predictor == 1 {
        return Ok(data.to_vec());
    }
    if !(1..=32).contains(&p.colors) || ![1, 2, 4, 8, 16].contains(&p.bpc) || !(1..=1 << 24).contains(&p.columns) {
        return Err(FErr::Bad("predictor parameters out of range".into()));
    }
    let bits = (p.colors * p.bpc) as usize;
    let bpp = bits.div_ceil(8);
    let row = (bits * p.columns as usize).div_ceil(8);
    if p.predictor == 2 {
        let mut out = data.to_vec();
        for r in out.chunks_mut(row) {
            match p.bpc {
                8 => {
                    for i in bpp..r.len() {
                        r[i] = r[i].wrapping_add(r[i - bpp]);
                    }
                }
                16 => {
                    let c = p.colors as usize;
                    let n = r.len() / 2;
                    for i in c..n {
                        let a = u16::from_be_bytes([r[2 * (i - c)], r[2 * (i - c) + 1]]);
                        let b = u16::from_be_bytes([r[2 * i], r[2 * i + 1]]);
                        let s = a.wrapping_add(b).to_be_bytes();
                        r[2 * i] = s[0];
                        r[2 * i + 1] = s[1];
                    }
                }
                bpc => {
                    // sub-byte samples
                    let bpc = bpc as usize;
                    let c = p.colors as usize;
                    let nsamp = r.len() * 8 / bpc;
                    let mask = (1u16 << bpc) - 1;
                    let get = |r: &[u8], i: usize| -> u16 {
                        let bit = i * bpc;
                        ((r[bit / 8] >> (8 - bpc - bit % 8)) as u16) & mask
                    };
                    let mut vals: Vec<u16> = (0..nsamp).map(|i| get(r, i)).collect();
                    for i in c..nsamp {
                        vals[i] = (vals[i] + vals[i - c]) & mask;
                    }
                    for b in r.iter_mut() {
                        *b = 0;
                    }
                    for (i, v) in vals.iter().enumerate() {
                        let bit = i * bpc;
                        r[bit / 8] |= (*v as u8) << (8 - bpc - bit % 8);
                    }
                }
            }
        }
        return Ok(out);
    }
    if !(10..=15).contains(&p.predictor) {
        return Err(FErr::Bad(format!("unknown predictor {}", p.predictor)));
    }
    let mut out = Vec::with_capacity(data.len());
    let mut prev = vec![0u8; row];
    let mut i = 0;
    while i < data.len() {
        let ft = data[i];
        i += 1;
        let end = (i + row).min(data.len());
        let mut cur = data[i..end].to_vec();
        if cur.len() < row {
            return Err(FErr::Bad("PNG predictor: short row".into()));
        }
        i = end;
        for k in 0..row {
            let a = if k >= bpp { cur[k - bpp] } else { 0 };
            let b = prev[k];
            let c = if k >= bpp { prev[k - bpp] } else { 0 };
            let add = match ft {
                0 => 0,
                1 => a,
                2 => b,
                3 => ((a as u16 + b as u16) / 2) as u8,
                4 => {
                    let pa = (b as i32 - c as i32).abs();
                    let pb = (a as i32 - c as i32).abs();
                    let pc = (a as i32 + b as i32 - 2 * c as i32).abs();
                    if pa <= pb && pa <= pc {
                        a
                    } else if pb <= pc {
                        b
                    } else {
                        c
                    }
                }
                _ => return Err(FErr::Bad(format!("PNG predictor: bad row filter {ft}"))),
            };
            cur[k] = cur[k].wrapping_add(add);
        }
        out.extend_from_slice(&cur);
        prev = cur;
    }
    Ok(out)
}

/// Decode a stream's data given its dictionary (direct /Filter and /DecodeParms expected to be resolved
/// by the caller). Unsupported filters (DCT, JBIG2, JPX, CCITT, Crypt) are reported as Unsupported.
pub fn decode_stream(dict: &Dict, data: &[u8]) -> Result<Vec<u8>, FErr> {
    let filters: Vec<Vec<u8>> = match dict.get(b"Filter") {
        None | Some(Obj::Null) => vec![],
        Some(Obj::Name(n)) => vec![n.clone()],
        Some(Obj::Arr(a)) => {
            let mut v = Vec::new();
            for x in a {
                match x {
                    Obj::Name(n) => v.push(n.clone()),
                    _ => return Err(FErr::Bad("Filter array element not a name".into())),
                }
            }
            v
        }
        Some(_) => return Err(FErr::Bad("Filter not a name or array".into())),
    };
    let parms: Vec<Option<Dict>> = match dict.get(b"DecodeParms") {
        None | Some(Obj::Null) => vec![None; filters.len()],
        Some(Obj::Dict(d)) => {
            let mut v = vec![None; filters.len()];
            if !v.is_empty() {
                v[0] = Some(d.clone());
            }
            v
        }
        Some(Obj::Arr(a)) => a
            .iter()
            .map(|x| match x {
                Obj::Dict(d) => Some(d.clone()),
                _ => None,
            })
            .chain(std::iter::repeat(None))
            .take(filters.len())
            .collect(),
        Some(_) => return Err(FErr::Bad("DecodeParms invalid".into())),
    };
    let mut cur = data.to_vec();
    for (f, p) in filters.iter().zip(parms.iter()) {
        let pr = Parms::from(p.as_ref());
        cur = match f.as_slice() {
            b"FlateDecode" | b"Fl" => unpredict(&flate(&cur)?, &pr)?,
            b"LZWDecode" | b"LZW" => unpredict(&lzw(&cur, pr.early_change != 0)?, &pr)?,
            b"ASCIIHexDecode" | b"AHx" => ascii_hex(&cur)?,
            b"ASCII85Decode" | b"A85" => ascii85(&cur)?,
            b"RunLengthDecode" | b"RL" => run_length(&cur)?,
            other => return Err(FErr::Unsupported(String::from_utf8_lossy(other).into_owned())),
        };
    }
    Ok(cur)
}
