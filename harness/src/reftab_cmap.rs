//! reftab_cmap — reference interpreter for ToUnicode CMap programs.
//!
//! Written from ISO 32000-1 §9.7.5 / §9.7.6.2 / §9.10.3, Adobe TN 5014 (CMap files) and the
//! PostScript language lexical rules (PLRM §3.2); it shares no code with the library.
//!
//! * tokenizer: white space NUL/TAB/LF/FF/CR/SP; comments `%` … up to CR, LF or FF; hex strings
//!   with embedded white space and PostScript odd-digit padding; literal strings with balanced
//!   parentheses and escapes; `<<`/`>>`, `[`/`]`, `{`/`}`; names; numbers; executable names;
//! * interpreter: `begincodespacerange`, `beginbfchar`, `beginbfrange` (offset and array form);
//!   everything else (header, `def`, `dict`, `usecmap`, …) is skipped;
//! * code space membership is per byte (the "rectangle" rule of TN 5014 / ISO 32000-2 §9.7.6.2):
//!   same length and every byte between the corresponding bytes of the bounds;
//! * lookups return *all* values defined for a code, in definition order, so that a caller can
//!   use a validity predicate where the specification leaves the choice open (overlapping
//!   definitions; destination low byte overflowing in the offset form).

#[derive(Clone, Debug, PartialEq)]
pub enum Tok {
    Hex(Vec<u8>),
    Str(Vec<u8>),
    Name(Vec<u8>),
    Int(i64),
    Real,
    Op(Vec<u8>),
    ArrOpen,
    ArrClose,
    DictOpen,
    DictClose,
    ProcOpen,
    ProcClose,
}

fn is_ws(c: u8) -> bool {
    matches!(c, 0 | 9 | 10 | 12 | 13 | 32)
}
fn is_delim(c: u8) -> bool {
    matches!(c, b'(' | b')' | b'<' | b'>' | b'[' | b']' | b'{' | b'}' | b'/' | b'%')
}
fn hexval(c: u8) -> Option<u8> {
    match c {
        b'0'..=b'9' => Some(c - b'0'),
        b'a'..=b'f' => Some(c - b'a' + 10),
        b'A'..=b'F' => Some(c - b'A' + 10),
        _ => None,
    }
}

pub fn tokenize(d: &[u8]) -> Result<Vec<Tok>, String> {
    let mut out = Vec::new();
    let mut i = 0;
    while i < d.len() {
        let c = d[i];
        if is_ws(c) {
            i += 1;
            continue;
        }
        match c {
            b'%' => {
                while i < d.len() && !matches!(d[i], 10 | 13 | 12) {
                    i += 1;
                }
            }
            b'<' => {
                if d.get(i + 1) == Some(&b'<') {
                    out.push(Tok::DictOpen);
                    i += 2;
                    continue;
                }
                if d.get(i + 1) == Some(&b'~') {
                    return Err(format!("ASCII85 string at {i} not supported"));
                }
                i += 1;
                let mut digits = Vec::new();
                loop {
                    let Some(&h) = d.get(i) else { return Err("unterminated hex string".into()) };
                    i += 1;
                    if h == b'>' {
                        break;
                    }
                    if is_ws(h) {
                        continue;
                    }
                    match hexval(h) {
                        Some(v) => digits.push(v),
                        None => return Err(format!("non-hex byte {h:#x} in hex string at {}", i - 1)),
                    }
                }
                if digits.len() % 2 == 1 {
                    digits.push(0);
                }
                out.push(Tok::Hex(digits.chunks(2).map(|p| p[0] << 4 | p[1]).collect()));
            }
            b'>' => {
                if d.get(i + 1) == Some(&b'>') {
                    out.push(Tok::DictClose);
                    i += 2;
                } else {
                    return Err(format!("stray '>' at {i}"));
                }
            }
            b'(' => {
                let mut depth = 1;
                let mut s = Vec::new();
                i += 1;
                loop {
                    let Some(&h) = d.get(i) else { return Err("unterminated literal string".into()) };
                    i += 1;
                    match h {
                        b'\\' => {
                            if let Some(&e) = d.get(i) {
                                s.push(e);
                                i += 1;
                            }
                        }
                        b'(' => {
                            depth += 1;
                            s.push(h);
                        }
                        b')' => {
                            depth -= 1;
                            if depth == 0 {
                                break;
                            }
                            s.push(h);
                        }
                        _ => s.push(h),
                    }
                }
                out.push(Tok::Str(s));
            }
            b')' => return Err(format!("stray ')' at {i}")),
            b'[' => {
                out.push(Tok::ArrOpen);
                i += 1;
            }
            b']' => {
                out.push(Tok::ArrClose);
                i += 1;
            }
            b'{' => {
                out.push(Tok::ProcOpen);
                i += 1;
            }
            b'}' => {
                out.push(Tok::ProcClose);
                i += 1;
            }
            b'/' => {
                i += 1;
                if d.get(i) == Some(&b'/') {
                    i += 1;
                }
                let s = i;
                while i < d.len() && !is_ws(d[i]) && !is_delim(d[i]) {
                    i += 1;
                }
                out.push(Tok::Name(d[s..i].to_vec()));
            }
            _ => {
                let s = i;
                while i < d.len() && !is_ws(d[i]) && !is_delim(d[i]) {
                    i += 1;
                }
                let w = &d[s..i];
                let txt = std::str::from_utf8(w).unwrap_or("");
                if let Ok(n) = txt.parse::<i64>() {
                    out.push(Tok::Int(n));
                } else if !txt.is_empty() && txt.parse::<f64>().is_ok() && txt.bytes().all(|b| b.is_ascii_digit() || matches!(b, b'.' | b'-' | b'+' | b'e' | b'E')) {
                    out.push(Tok::Real);
                } else {
                    out.push(Tok::Op(w.to_vec()));
                }
            }
        }
    }
    Ok(out)
}

#[derive(Clone, Debug, PartialEq)]
pub struct CodeRange {
    pub lo: Vec<u8>,
    pub hi: Vec<u8>,
}

impl CodeRange {
    /// per-byte ("rectangle") membership
    pub fn contains(&self, code: &[u8]) -> bool {
        code.len() == self.lo.len() && code.len() == self.hi.len() && code.iter().zip(self.lo.iter().zip(self.hi.iter())).all(|(c, (l, h))| l <= c && c <= h)
    }
}

#[derive(Clone, Debug, PartialEq)]
pub enum Def {
    Char { src: Vec<u8>, dst: Vec<u8> },
    Range { lo: Vec<u8>, hi: Vec<u8>, dst: Vec<u8> },
    RangeArr { lo: Vec<u8>, hi: Vec<u8>, dsts: Vec<Vec<u8>> },
}

#[derive(Clone, Debug, Default)]
pub struct Program {
    pub codespace: Vec<CodeRange>,
    pub defs: Vec<Def>,
    /// (operator, declared count, actual entries)
    pub blocks: Vec<(String, Option<i64>, usize)>,
    /// departures from a strictly valid ToUnicode CMap (empty = valid)
    pub issues: Vec<String>,
}

pub fn be_val(b: &[u8]) -> u64 {
    b.iter().fold(0u64, |a, &x| (a << 8) | x as u64)
}

pub fn be_bytes(v: u64, n: usize) -> Vec<u8> {
    (0..n).rev().map(|k| (v >> (8 * k)) as u8).collect()
}

/// Big-endian addition over the whole string (carry propagates; overflow out of the top byte is dropped).
pub fn add_carry(dst: &[u8], off: u64) -> Vec<u8> {
    let mut r = dst.to_vec();
    let mut carry = off;
    for b in r.iter_mut().rev() {
        let s = *b as u64 + (carry & 0xFF);
        *b = s as u8;
        carry = (carry >> 8) + (s >> 8);
    }
    r
}

/// Addition confined to the last byte (wraps modulo 256).
pub fn add_last_byte(dst: &[u8], off: u64) -> Vec<u8> {
    let mut r = dst.to_vec();
    if let Some(l) = r.last_mut() {
        *l = ((*l as u64 + off) & 0xFF) as u8;
    }
    r
}

/// Strict UTF-16BE decoding; None for odd length, empty input or unpaired surrogates.
pub fn utf16be(b: &[u8]) -> Option<String> {
    if b.is_empty() || b.len() % 2 != 0 {
        return None;
    }
    let units: Vec<u16> = b.chunks(2).map(|p| (p[0] as u16) << 8 | p[1] as u16).collect();
    let mut s = String::new();
    let mut i = 0;
    while i < units.len() {
        let u = units[i] as u32;
        if (0xD800..0xDC00).contains(&u) {
            let l = *units.get(i + 1)? as u32;
            if !(0xDC00..0xE000).contains(&l) {
                return None;
            }
            s.push(char::from_u32(0x10000 + ((u - 0xD800) << 10) + (l - 0xDC00))?);
            i += 2;
        } else if (0xDC00..0xE000).contains(&u) {
            return None;
        } else {
            s.push(char::from_u32(u)?);
            i += 1;
        }
    }
    Some(s)
}

pub fn to_utf16be(s: &str) -> Vec<u8> {
    let mut v = Vec::new();
    for c in s.chars() {
        let cp = c as u32;
        if cp < 0x10000 {
            v.extend_from_slice(&[(cp >> 8) as u8, cp as u8]);
        } else {
            let x = cp - 0x10000;
            let h = 0xD800 + (x >> 10);
            let l = 0xDC00 + (x & 0x3FF);
            v.extend_from_slice(&[(h >> 8) as u8, h as u8, (l >> 8) as u8, l as u8]);
        }
    }
    v
}

/// One value a definition gives for a code.
#[derive(Clone, Debug, PartialEq)]
pub struct Cand {
    pub def_index: usize,
    /// the alternatives admitted for this definition (one, or two when the destination's low byte overflows)
    pub values: Vec<Vec<u8>>,
    pub low_byte_overflow: bool,
    /// the defining bfrange has bounds that differ in more than the last byte
    pub crossing: bool,
}

impl Program {
    pub fn in_codespace(&self, code: &[u8]) -> bool {
        self.codespace.iter().any(|r| r.contains(code))
    }

    /// Every definition that covers `code` (integer order inside a bfrange), in program order.
    pub fn candidates(&self, code: &[u8]) -> Vec<Cand> {
        let mut out = Vec::new();
        for (k, d) in self.defs.iter().enumerate() {
            match d {
                Def::Char { src, dst } => {
                    if src.as_slice() == code {
                        out.push(Cand { def_index: k, values: vec![dst.clone()], low_byte_overflow: false, crossing: false });
                    }
                }
                Def::Range { lo, hi, dst } => {
                    if lo.len() != code.len() || hi.len() != code.len() || code.len() > 8 {
                        continue;
                    }
                    let (l, h, c) = (be_val(lo), be_val(hi), be_val(code));
                    if c < l || c > h {
                        continue;
                    }
                    let off = c - l;
                    let crossing = lo[..lo.len().saturating_sub(1)] != hi[..hi.len().saturating_sub(1)];
                    let last = *dst.last().unwrap_or(&0) as u64;
                    if last + off <= 0xFF {
                        out.push(Cand { def_index: k, values: vec![add_last_byte(dst, off)], low_byte_overflow: false, crossing });
                    } else {
                        let a = add_carry(dst, off);
                        let b = add_last_byte(dst, off);
                        out.push(Cand { def_index: k, values: if a == b { vec![a] } else { vec![a, b] }, low_byte_overflow: true, crossing });
                    }
                }
                Def::RangeArr { lo, hi, dsts } => {
                    if lo.len() != code.len() || hi.len() != code.len() || code.len() > 8 {
                        continue;
                    }
                    let (l, h, c) = (be_val(lo), be_val(hi), be_val(code));
                    if c < l || c > h {
                        continue;
                    }
                    let crossing = lo[..lo.len().saturating_sub(1)] != hi[..hi.len().saturating_sub(1)];
                    if let Some(v) = dsts.get((c - l) as usize) {
                        out.push(Cand { def_index: k, values: vec![v.clone()], low_byte_overflow: false, crossing });
                    }
                }
            }
        }
        out
    }
}

fn name_str(b: &[u8]) -> String {
    String::from_utf8_lossy(b).into_owned()
}

/// Interpret a CMap program. `Err` = not a lexically/structurally interpretable program;
/// `Ok(p)` with `p.issues` non-empty = interpretable but not a strictly valid ToUnicode CMap.
pub fn interpret(data: &[u8]) -> Result<Program, String> {
    let toks = tokenize(data)?;
    let mut p = Program::default();
    let mut i = 0;
    let mut seen_begincmap = false;
    let mut seen_endcmap = false;
    while i < toks.len() {
        let Tok::Op(op) = &toks[i] else {
            i += 1;
            continue;
        };
        let op = name_str(op);
        match op.as_str() {
            "begincmap" => seen_begincmap = true,
            "endcmap" => seen_endcmap = true,
            "begincodespacerange" | "beginbfchar" | "beginbfrange" => {
                let declared = match i.checked_sub(1).map(|k| &toks[k]) {
                    Some(Tok::Int(n)) => Some(*n),
                    _ => None,
                };
                let end_kw = format!("end{}", &op[5..]);
                let mut j = i + 1;
                let mut operands: Vec<Tok> = Vec::new();
                let mut closed = false;
                while j < toks.len() {
                    match &toks[j] {
                        Tok::Op(o) if name_str(o) == end_kw => {
                            closed = true;
                            break;
                        }
                        Tok::Op(o) => return Err(format!("operator {:?} inside {op} block", name_str(o))),
                        Tok::ArrOpen => {
                            // gather array of hex strings
                            let mut arr = Vec::new();
                            j += 1;
                            loop {
                                match toks.get(j) {
                                    Some(Tok::Hex(h)) => arr.push(h.clone()),
                                    Some(Tok::ArrClose) => break,
                                    other => return Err(format!("unexpected {other:?} inside destination array")),
                                }
                                j += 1;
                            }
                            operands.push(Tok::ArrOpen);
                            operands.push(Tok::Int(arr.len() as i64));
                            for h in arr {
                                operands.push(Tok::Hex(h));
                            }
                        }
                        t => operands.push(t.clone()),
                    }
                    j += 1;
                }
                if !closed {
                    return Err(format!("{op} without {end_kw}"));
                }
                let n = interpret_block(&mut p, &op, &operands)?;
                if declared != Some(n as i64) {
                    p.issues.push(format!("{op}: declared count {declared:?} but {n} entries"));
                }
                if n > 100 {
                    p.issues.push(format!("{op}: {n} entries in one block (limit 100)"));
                }
                if n == 0 {
                    p.issues.push(format!("{op}: empty block"));
                }
                p.blocks.push((op.clone(), declared, n));
                i = j;
            }
            _ => {}
        }
        i += 1;
    }
    if !seen_begincmap || !seen_endcmap {
        p.issues.push("begincmap/endcmap missing".into());
    }
    if p.codespace.is_empty() {
        p.issues.push("no codespace range".into());
    }
    // sources inside the code space
    for d in &p.defs {
        let (a, b) = match d {
            Def::Char { src, .. } => (src, src),
            Def::Range { lo, hi, .. } | Def::RangeArr { lo, hi, .. } => (lo, hi),
        };
        if !p.in_codespace(a) || !p.in_codespace(b) {
            p.issues.push(format!("source {a:02X?}..{b:02X?} outside the code space"));
        }
    }
    Ok(p)
}

fn interpret_block(p: &mut Program, op: &str, ops: &[Tok]) -> Result<usize, String> {
    let mut k = 0;
    let mut n = 0;
    let hex = |t: Option<&Tok>| -> Result<Vec<u8>, String> {
        match t {
            Some(Tok::Hex(h)) => Ok(h.clone()),
            other => Err(format!("{op}: expected hex string, found {other:?}")),
        }
    };
    while k < ops.len() {
        match op {
            "begincodespacerange" => {
                let lo = hex(ops.get(k))?;
                let hi = hex(ops.get(k + 1))?;
                k += 2;
                if lo.len() != hi.len() || lo.is_empty() || lo.len() > 4 {
                    p.issues.push(format!("codespace range {lo:02X?} {hi:02X?}: bad lengths"));
                } else if lo.iter().zip(hi.iter()).any(|(l, h)| l > h) {
                    p.issues.push(format!("codespace range {lo:02X?} {hi:02X?}: low byte above high byte"));
                }
                p.codespace.push(CodeRange { lo, hi });
            }
            "beginbfchar" => {
                let src = hex(ops.get(k))?;
                let dst = hex(ops.get(k + 1))?;
                k += 2;
                if utf16be(&dst).is_none() {
                    p.issues.push(format!("bfchar {src:02X?}: destination {dst:02X?} is not UTF-16BE"));
                }
                p.defs.push(Def::Char { src, dst });
            }
            _ => {
                let lo = hex(ops.get(k))?;
                let hi = hex(ops.get(k + 1))?;
                if lo.len() != hi.len() || be_val(&lo) > be_val(&hi) {
                    p.issues.push(format!("bfrange {lo:02X?} {hi:02X?}: bounds inconsistent"));
                } else if lo[..lo.len().saturating_sub(1)] != hi[..hi.len().saturating_sub(1)] {
                    p.issues.push(format!("bfrange {lo:02X?} {hi:02X?}: bounds differ in more than the last byte"));
                }
                match ops.get(k + 2) {
                    Some(Tok::Hex(d)) => {
                        let span = be_val(&hi).saturating_sub(be_val(&lo));
                        if *d.last().unwrap_or(&0) as u64 + span > 0xFF {
                            p.issues.push(format!("bfrange {lo:02X?} {hi:02X?} {d:02X?}: destination low byte overflows"));
                        }
                        if utf16be(d).is_none() {
                            p.issues.push(format!("bfrange {lo:02X?}: destination {d:02X?} is not UTF-16BE"));
                        }
                        p.defs.push(Def::Range { lo, hi, dst: d.clone() });
                        k += 3;
                    }
                    Some(Tok::ArrOpen) => {
                        let Some(Tok::Int(cnt)) = ops.get(k + 3) else { return Err("internal: array marker".into()) };
                        let cnt = *cnt as usize;
                        let mut dsts = Vec::new();
                        for q in 0..cnt {
                            dsts.push(hex(ops.get(k + 4 + q))?);
                        }
                        if lo.len() == hi.len() && be_val(&hi) >= be_val(&lo) && (be_val(&hi) - be_val(&lo) + 1) as usize != cnt {
                            p.issues.push(format!("bfrange {lo:02X?} {hi:02X?}: array of {cnt} for a range of {}", be_val(&hi) - be_val(&lo) + 1));
                        }
                        if dsts.iter().any(|d| utf16be(d).is_none()) {
                            p.issues.push(format!("bfrange {lo:02X?}: an array destination is not UTF-16BE"));
                        }
                        p.defs.push(Def::RangeArr { lo, hi, dsts });
                        k += 4 + cnt;
                    }
                    other => return Err(format!("bfrange: expected destination, found {other:?}")),
                }
            }
        }
        n += 1;
    }
    Ok(n)
}

/// Start-up self test on programs whose meaning is fixed by the specification's own examples
/// (ISO 32000-1 §9.10.3 EXAMPLE 1 and 2, TN 5014 code space example).
pub fn self_test() -> Result<(), String> {
    let src = b"%!PS\r/CIDInit /ProcSet findresource begin 12 dict begin begincmap\n/CIDSystemInfo << /Registry (Adobe) /Ordering (U(C)S\\)) /Supplement 0 >> def\n/CMapName /Adobe-Identity-UCS def /CMapType 2 def\n1 begincodespacerange <0000> <FFFF> endcodespacerange\n2 beginbfrange\n<0000> <005E> <0020>\n<005F> <0061> [<00660066> <00660069> <00660066006C>]\nendbfrange\n1 beginbfchar\n<3A51> <D840DC3E>\nendbfchar\nendcmap CMapName currentdict /CMap defineresource pop end end\n";
    let p = interpret(src)?;
    if !p.issues.is_empty() {
        return Err(format!("self test: issues {:?}", p.issues));
    }
    let one = |code: &[u8]| -> Option<Vec<u8>> {
        let c = p.candidates(code);
        if c.len() == 1 && c[0].values.len() == 1 {
            Some(c[0].values[0].clone())
        } else {
            None
        }
    };
    let checks: [(&[u8], Option<&[u8]>); 7] = [
        (&[0x00, 0x00], Some(&[0x00, 0x20])),
        (&[0x00, 0x5E], Some(&[0x00, 0x7E])),
        (&[0x00, 0x5F], Some(&[0x00, 0x66, 0x00, 0x66])),
        (&[0x00, 0x61], Some(&[0x00, 0x66, 0x00, 0x66, 0x00, 0x6C])),
        (&[0x00, 0x62], None),
        (&[0x3A, 0x51], Some(&[0xD8, 0x40, 0xDC, 0x3E])),
        (&[0x5E], None),
    ];
    for (code, exp) in checks {
        if one(code).as_deref() != exp {
            return Err(format!("self test: code {code:02X?} gave {:?}, expected {exp:?}", one(code)));
        }
    }
    if utf16be(&[0xD8, 0x40, 0xDC, 0x3E]).as_deref() != Some("\u{2003E}") || utf16be(&[0xD8, 0x40]).is_some() || utf16be(&[0xDC, 0x3E, 0x00, 0x41]).is_some() {
        return Err("self test: utf16be".into());
    }
    if to_utf16be("a\u{2003E}") != vec![0, 0x61, 0xD8, 0x40, 0xDC, 0x3E] {
        return Err("self test: to_utf16be".into());
    }
    // TN 5014 / 83pv-RKSJ-H code space: <00><80> <8140><9FFC> <A0><DF> <E040><FCFC>
    let q = interpret(b"begincmap 4 begincodespacerange <00> <80> <8140> <9FFC> <A0> <DF> <E040> <FCFC> endcodespacerange endcmap")?;
    let inside: [&[u8]; 4] = [&[0x80], &[0x81, 0x40], &[0x9F, 0xFC], &[0xE0, 0x40]];
    let outside: [&[u8]; 5] = [&[0x81], &[0x82, 0x00], &[0x81, 0xFD], &[0x00, 0x41], &[0xE0]];
    if inside.iter().any(|c| !q.in_codespace(c)) || outside.iter().any(|c| q.in_codespace(c)) {
        return Err("self test: code space membership".into());
    }
    // overflow alternatives
    let r = interpret(b"begincmap 1 begincodespacerange <00> <FF> endcodespacerange 1 beginbfrange <10> <20> <00FA> endbfrange endcmap")?;
    let c = r.candidates(&[0x1A]);
    if c.len() != 1 || !c[0].low_byte_overflow || c[0].values != vec![vec![0x01, 0x04], vec![0x00, 0x04]] {
        return Err(format!("self test: overflow alternatives {c:?}"));
    }
    if add_carry(&[0x00, 0xFF, 0xFF], 0x1_01) != vec![0x01, 0x01, 0x00] {
        return Err("self test: add_carry".into());
    }
    Ok(())
}
