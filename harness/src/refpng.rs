//! refpng — a PNG *file encoder* written from the PNG specification (ISO/IEC 15948 / PNG 1.2), used to
//! generate inputs for C24. Every colour type × legal bit depth, PLTE, the three tRNS forms, Adam7,
//! per-scanline filter choice 0–4, IDAT splitting, zlib level, ancillary chunks.
//! It is gated by the independent `png` crate (see `reference_pixels`): a file that crate rejects, or
//! decodes to other pixels than `model_pixels`, is a harness bug, never a verdict about the library.
use serde::{Deserialize, Serialize};
use std::io::Write;

#[derive(Clone, Debug, PartialEq, Serialize, Deserialize)]
pub enum Trns {
    None,
    /// colour type 3: alpha per palette entry (1..=palette length entries)
    Palette(Vec<u8>),
    /// colour type 0: the grey sample value that is fully transparent (≤ bit depth)
    Grey(u16),
    /// colour type 2
    Rgb(u16, u16, u16),
}

#[derive(Clone, Debug, Serialize, Deserialize)]
pub struct PngSpec {
    pub w: u32,
    pub h: u32,
    /// 0 grey, 2 RGB, 3 palette, 4 grey+alpha, 6 RGBA
    pub ct: u8,
    pub depth: u8,
    pub interlace: bool,
    /// w*h*channels samples, row-major, each < 2^depth (palette: < plte.len())
    pub samples: Vec<u16>,
    /// required for ct 3 (1..=2^depth entries); allowed as "suggested palette" for ct 2/6
    pub plte: Vec<[u8; 3]>,
    pub trns: Trns,
    /// filter type of the i-th emitted scanline = filters[i % len] (empty = all 0)
    pub filters: Vec<u8>,
    /// IDAT chunk sizes, used cyclically (empty = one IDAT); 0 produces an empty IDAT chunk
    pub idat_split: Vec<u16>,
    /// zlib level 0..=9 (0 = stored blocks)
    pub zlevel: u8,
    /// gAMA + tEXt before IDAT, tIME after: tests ancillary-chunk skipping
    pub ancillary: bool,
}

pub fn channels(ct: u8) -> usize {
    match ct {
        0 | 3 => 1,
        2 => 3,
        4 => 2,
        6 => 4,
        _ => 0,
    }
}

pub fn legal_depths(ct: u8) -> &'static [u8] {
    match ct {
        0 => &[1, 2, 4, 8, 16],
        3 => &[1, 2, 4, 8],
        2 | 4 | 6 => &[8, 16],
        _ => &[],
    }
}

fn chunk(out: &mut Vec<u8>, ty: &[u8; 4], data: &[u8]) {
    out.extend_from_slice(&(data.len() as u32).to_be_bytes());
    out.extend_from_slice(ty);
    out.extend_from_slice(data);
    let mut h = crc32fast::Hasher::new();
    h.update(ty);
    h.update(data);
    out.extend_from_slice(&h.finalize().to_be_bytes());
}

/// pack one scanline of `n` pixels (samples `s`, `ch` channels) at `depth`
fn pack_row(s: &[u16], depth: u8, out: &mut Vec<u8>) {
    match depth {
        16 => {
            for v in s {
                out.extend_from_slice(&v.to_be_bytes());
            }
        }
        8 => {
            for v in s {
                out.push(*v as u8);
            }
        }
        d => {
            let mut acc = 0u8;
            let mut nbits = 0u8;
            for v in s {
                acc |= ((*v as u8) & ((1u8 << d) - 1)) << (8 - d - nbits);
                nbits += d;
                if nbits == 8 {
                    out.push(acc);
                    acc = 0;
                    nbits = 0;
                }
            }
            if nbits > 0 {
                out.push(acc);
            }
        }
    }
}

fn paeth(a: u8, b: u8, c: u8) -> u8 {
    let (ia, ib, ic) = (a as i32, b as i32, c as i32);
    let p = ia + ib - ic;
    let (pa, pb, pc) = ((p - ia).abs(), (p - ib).abs(), (p - ic).abs());
    if pa <= pb && pa <= pc {
        a
    } else if pb <= pc {
        b
    } else {
        c
    }
}

/// PNG §6: filter one scanline. `bpp` = bytes per complete pixel, rounded up to 1.
fn filter_row(ft: u8, cur: &[u8], prev: &[u8], bpp: usize, out: &mut Vec<u8>) {
    out.push(ft);
    for i in 0..cur.len() {
        let a = if i >= bpp { cur[i - bpp] } else { 0 };
        let b = prev[i];
        let c = if i >= bpp { prev[i - bpp] } else { 0 };
        let pred = match ft {
            0 => 0,
            1 => a,
            2 => b,
            3 => ((a as u16 + b as u16) / 2) as u8,
            _ => paeth(a, b, c),
        };
        out.push(cur[i].wrapping_sub(pred));
    }
}

/// Adam7 passes: (x start, y start, x step, y step)
pub const ADAM7: [(u32, u32, u32, u32); 7] = [(0, 0, 8, 8), (4, 0, 8, 8), (0, 4, 4, 8), (2, 0, 4, 4), (0, 2, 2, 4), (1, 0, 2, 2), (0, 1, 1, 2)];

impl PngSpec {
    pub fn channels(&self) -> usize {
        channels(self.ct)
    }

    /// Structural legality per the PNG specification (generator invariants; checked before encoding).
    pub fn legal(&self) -> Result<(), String> {
        if self.w == 0 || self.h == 0 {
            return Err("zero dimension".into());
        }
        if !legal_depths(self.ct).contains(&self.depth) {
            return Err(format!("depth {} illegal for colour type {}", self.depth, self.ct));
        }
        let n = self.w as usize * self.h as usize * self.channels();
        if self.samples.len() != n {
            return Err(format!("samples {} != {}", self.samples.len(), n));
        }
        let max = if self.depth == 16 { u16::MAX as u32 } else { (1u32 << self.depth) - 1 };
        if self.ct == 3 {
            if self.plte.is_empty() || self.plte.len() > 256 || self.plte.len() > (1usize << self.depth) {
                return Err("palette size".into());
            }
            if self.samples.iter().any(|&s| s as usize >= self.plte.len()) {
                return Err("palette index out of range".into());
            }
        } else {
            if self.samples.iter().any(|&s| s as u32 > max) {
                return Err("sample exceeds depth".into());
            }
            if !self.plte.is_empty() && !(self.ct == 2 || self.ct == 6) {
                return Err("PLTE not allowed".into());
            }
            if self.plte.len() > 256 {
                return Err("palette size".into());
            }
        }
        match (&self.trns, self.ct) {
            (Trns::None, _) => {}
            (Trns::Palette(a), 3) if !a.is_empty() && a.len() <= self.plte.len() => {}
            (Trns::Grey(g), 0) if *g as u32 <= max => {}
            (Trns::Rgb(r, g, b), 2) if [*r, *g, *b].iter().all(|v| *v as u32 <= max) => {}
            _ => return Err("tRNS form illegal for colour type".into()),
        }
        if self.filters.iter().any(|f| *f > 4) {
            return Err("filter type".into());
        }
        if self.zlevel > 9 {
            return Err("zlevel".into());
        }
        Ok(())
    }

    fn pixel_samples(&self, x: u32, y: u32) -> &[u16] {
        let ch = self.channels();
        let i = (y as usize * self.w as usize + x as usize) * ch;
        &self.samples[i..i + ch]
    }

    /// the filtered scanline stream (input of zlib)
    pub fn scanlines(&self) -> Vec<u8> {
        let ch = self.channels();
        let bpp = ((ch * self.depth as usize) / 8).max(1);
        let mut out = Vec::new();
        let mut line_no = 0usize;
        let passes: Vec<(u32, u32, u32, u32)> = if self.interlace { ADAM7.to_vec() } else { vec![(0, 0, 1, 1)] };
        for (x0, y0, dx, dy) in passes {
            if x0 >= self.w || y0 >= self.h {
                continue; // empty pass: no scanlines at all
            }
            let pw = (self.w - x0).div_ceil(dx);
            let rowbytes = (pw as usize * ch * self.depth as usize).div_ceil(8);
            let mut prev = vec![0u8; rowbytes];
            let mut y = y0;
            while y < self.h {
                let mut s: Vec<u16> = Vec::with_capacity(pw as usize * ch);
                let mut x = x0;
                while x < self.w {
                    s.extend_from_slice(self.pixel_samples(x, y));
                    x += dx;
                }
                let mut cur = Vec::with_capacity(rowbytes);
                pack_row(&s, self.depth, &mut cur);
                debug_assert_eq!(cur.len(), rowbytes);
                let ft = if self.filters.is_empty() { 0 } else { self.filters[line_no % self.filters.len()] };
                filter_row(ft, &cur, &prev, bpp, &mut out);
                prev = cur;
                line_no += 1;
                y += dy;
            }
        }
        out
    }

    pub fn encode(&self) -> Vec<u8> {
        let mut f = Vec::new();
        f.extend_from_slice(b"\x89PNG\r\n\x1a\n");
        let mut ihdr = Vec::new();
        ihdr.extend_from_slice(&self.w.to_be_bytes());
        ihdr.extend_from_slice(&self.h.to_be_bytes());
        ihdr.extend_from_slice(&[self.depth, self.ct, 0, 0, self.interlace as u8]);
        chunk(&mut f, b"IHDR", &ihdr);
        if self.ancillary {
            chunk(&mut f, b"gAMA", &45455u32.to_be_bytes());
        }
        if !self.plte.is_empty() {
            let p: Vec<u8> = self.plte.iter().flat_map(|c| c.iter().copied()).collect();
            chunk(&mut f, b"PLTE", &p);
        }
        match &self.trns {
            Trns::None => {}
            Trns::Palette(a) => chunk(&mut f, b"tRNS", a),
            Trns::Grey(g) => chunk(&mut f, b"tRNS", &g.to_be_bytes()),
            Trns::Rgb(r, g, b) => {
                let mut d = Vec::new();
                for v in [r, g, b] {
                    d.extend_from_slice(&v.to_be_bytes());
                }
                chunk(&mut f, b"tRNS", &d);
            }
        }
        if self.ancillary {
            chunk(&mut f, b"tEXt", b"Comment\0generated by refpng");
        }
        let raw = self.scanlines();
        let mut z = flate2::write::ZlibEncoder::new(Vec::new(), flate2::Compression::new(self.zlevel as u32));
        z.write_all(&raw).expect("zlib write to Vec");
        let z = z.finish().expect("zlib finish to Vec");
        if self.idat_split.is_empty() {
            chunk(&mut f, b"IDAT", &z);
        } else {
            let mut pos = 0usize;
            let mut i = 0usize;
            let mut zero_run = 0;
            while pos < z.len() {
                let mut n = self.idat_split[i % self.idat_split.len()] as usize;
                if n == 0 {
                    zero_run += 1;
                    if zero_run > 2 {
                        n = 1; // never loop forever on an all-zero split list
                    }
                } else {
                    zero_run = 0;
                }
                let n = n.min(z.len() - pos);
                chunk(&mut f, b"IDAT", &z[pos..pos + n]);
                pos += n;
                i += 1;
            }
        }
        if self.ancillary {
            chunk(&mut f, b"tIME", &[0x07, 0xEA, 9, 21, 12, 0, 0]);
        }
        chunk(&mut f, b"IEND", &[]);
        f
    }

    /// depth of the reference pixels: 16 for 16-bit files, otherwise 8
    pub fn ref_depth(&self) -> u8 {
        if self.depth == 16 {
            16
        } else {
            8
        }
    }

    /// What the file means, per the PNG specification (§12.5 sample-depth scaling for grey < 8 bit,
    /// palette lookup, tRNS): RGBA, each channel at `ref_depth()`.
    pub fn model_pixels(&self) -> Vec<[u16; 4]> {
        let opaque: u16 = if self.depth == 16 { 65535 } else { 255 };
        let scale = |v: u16| -> u16 {
            match self.depth {
                1 => v * 255,
                2 => v * 85,
                4 => v * 17,
                _ => v,
            }
        };
        let ch = self.channels();
        self.samples
            .chunks_exact(ch)
            .map(|p| match self.ct {
                0 => {
                    let a = if self.trns == Trns::Grey(p[0]) { 0 } else { opaque };
                    let g = scale(p[0]);
                    [g, g, g, a]
                }
                2 => {
                    let a = if self.trns == Trns::Rgb(p[0], p[1], p[2]) { 0 } else { opaque };
                    [p[0], p[1], p[2], a]
                }
                3 => {
                    let c = self.plte[p[0] as usize];
                    let a = match &self.trns {
                        Trns::Palette(t) => t.get(p[0] as usize).copied().unwrap_or(255),
                        _ => 255,
                    };
                    [c[0] as u16, c[1] as u16, c[2] as u16, a as u16]
                }
                4 => [p[0], p[0], p[0], p[1]],
                _ => [p[0], p[1], p[2], p[3]],
            })
            .collect()
    }
}

/// Reference pixels from the independent `png` crate (Transformations::EXPAND: palette → RGB, grey < 8 → 8,
/// tRNS → alpha), normalised to RGBA at 8 or 16 bit. Returns (width, height, depth, pixels).
pub fn reference_pixels(file: &[u8]) -> Result<(u32, u32, u8, Vec<[u16; 4]>), String> {
    let mut dec = png::Decoder::new(std::io::Cursor::new(file));
    dec.set_transformations(png::Transformations::EXPAND);
    let mut rd = dec.read_info().map_err(|e| format!("read_info: {e}"))?;
    let size = rd.output_buffer_size().ok_or("output size overflow")?;
    let mut buf = vec![0u8; size];
    let info = rd.next_frame(&mut buf).map_err(|e| format!("next_frame: {e}"))?;
    rd.finish().map_err(|e| format!("finish: {e}"))?;
    let (w, h) = (info.width, info.height);
    let depth: u8 = match info.bit_depth {
        png::BitDepth::Eight => 8,
        png::BitDepth::Sixteen => 16,
        other => return Err(format!("EXPAND left bit depth {other:?}")),
    };
    let ch = match info.color_type {
        png::ColorType::Grayscale => 1,
        png::ColorType::GrayscaleAlpha => 2,
        png::ColorType::Rgb => 3,
        png::ColorType::Rgba => 4,
        png::ColorType::Indexed => return Err("EXPAND left an indexed image".into()),
    };
    let bps = depth as usize / 8;
    let n = w as usize * h as usize;
    if info.line_size != w as usize * ch * bps || buf.len() < n * ch * bps {
        return Err("unexpected output layout".into());
    }
    let opaque: u16 = if depth == 16 { 65535 } else { 255 };
    let sample = |i: usize| -> u16 {
        if bps == 2 {
            u16::from_be_bytes([buf[2 * i], buf[2 * i + 1]])
        } else {
            buf[i] as u16
        }
    };
    let mut px = Vec::with_capacity(n);
    for p in 0..n {
        let s = |k: usize| sample(p * ch + k);
        px.push(match ch {
            1 => [s(0), s(0), s(0), opaque],
            2 => [s(0), s(0), s(0), s(1)],
            3 => [s(0), s(1), s(2), opaque],
            _ => [s(0), s(1), s(2), s(3)],
        });
    }
    Ok((w, h, depth, px))
}
