//! refcodec — reference stream-filter *encoders* (ISO 32000-1 §7.4), independent of the library
//! under test. Every encoder here is meant to be gated by an independent decoder
//! (`refpdf::filters::*`, `weezl`, `flate2`, `fax`, `png`) before its output is trusted.
//!
//! zlib: flate2 (levels 0/1/6/9, optional sync-flush points).  LZW: `weezl` (MSB; TIFF/PDF
//! early-change variant and the plain variant) and a hand encoder with EarlyChange 0/1, Clear codes
//! at chosen points and table-full resets.  ASCII85 / ASCIIHex / RunLength: hand encoders with
//! generated whitespace and end-marker variants.  CCITT Group 4: `fax` crate encoder.  PNG row
//! filters 0–4 and TIFF predictor 2 (8/16-bit and sub-byte samples).
use std::collections::HashMap;
use std::io::Write;

// ───────────────────────── deterministic expansion helper ─────────────────────────

/// splitmix64: a pure function of the seed stored in the case (no global RNG).
#[derive(Clone)]
pub struct Rng(pub u64);
impl Rng {
    pub fn new(seed: u64) -> Self {
        Rng(seed ^ 0x9E37_79B9_7F4A_7C15)
    }
    pub fn next(&mut self) -> u64 {
        self.0 = self.0.wrapping_add(0x9E37_79B9_7F4A_7C15);
        let mut z = self.0;
        z = (z ^ (z >> 30)).wrapping_mul(0xBF58_476D_1CE4_E5B9);
        z = (z ^ (z >> 27)).wrapping_mul(0x94D0_49BB_1331_11EB);
        z ^ (z >> 31)
    }
    pub fn below(&mut self, n: usize) -> usize {
        if n == 0 {
            0
        } else {
            ((self.next() >> 11) % n as u64) as usize
        }
    }
}

// ───────────────────────── Flate ─────────────────────────

/// zlib stream at `level` (0 = stored blocks, 1 fast, 6 default, 9 best). `flush_every > 0` inserts
/// a sync flush (an empty stored block) every that many input bytes — still one valid zlib stream.
pub fn zlib(data: &[u8], level: u8, flush_every: usize) -> Vec<u8> {
    let mut e = flate2::write::ZlibEncoder::new(Vec::new(), flate2::Compression::new(level.min(9) as u32));
    if flush_every == 0 {
        e.write_all(data).expect("vec write");
    } else {
        for chunk in data.chunks(flush_every) {
            e.write_all(chunk).expect("vec write");
            e.flush().expect("vec flush");
        }
    }
    e.finish().expect("vec finish")
}

// ───────────────────────── LZW ─────────────────────────

pub fn lzw_weezl(data: &[u8], early: bool) -> Result<Vec<u8>, String> {
    let mut e = if early {
        weezl::encode::Encoder::with_tiff_size_switch(weezl::BitOrder::Msb, 8)
    } else {
        weezl::encode::Encoder::new(weezl::BitOrder::Msb, 8)
    };
    e.encode(data).map_err(|e| format!("weezl encode: {e:?}"))
}

pub fn lzw_weezl_decode(data: &[u8], early: bool) -> Result<Vec<u8>, String> {
    let mut d = if early {
        weezl::decode::Decoder::with_tiff_size_switch(weezl::BitOrder::Msb, 8)
    } else {
        weezl::decode::Decoder::new(weezl::BitOrder::Msb, 8)
    };
    d.decode(data).map_err(|e| format!("weezl decode: {e:?}"))
}

pub struct BitWriter {
    pub out: Vec<u8>,
    acc: u32,
    nbits: u32,
}
impl BitWriter {
    pub fn new() -> Self {
        BitWriter { out: Vec::new(), acc: 0, nbits: 0 }
    }
    /// MSB-first
    pub fn put(&mut self, value: u32, width: u32) {
        self.acc = (self.acc << width) | (value & ((1u32 << width) - 1));
        self.nbits += width;
        while self.nbits >= 8 {
            self.out.push((self.acc >> (self.nbits - 8)) as u8);
            self.nbits -= 8;
            self.acc &= (1u32 << self.nbits) - 1;
        }
    }
    pub fn finish(mut self) -> Vec<u8> {
        if self.nbits > 0 {
            let pad = 8 - self.nbits;
            self.out.push((self.acc << pad) as u8);
        }
        self.out
    }
}

#[derive(Clone, Debug)]
pub struct LzwOpts {
    /// EarlyChange 1 (PDF default / TIFF) or 0
    pub early: bool,
    /// emit Clear as soon as the encoder's next free code reaches this value (4094 = libtiff, 4095, 4096 = table completely full)
    pub clear_at: u16,
    /// additionally emit Clear after every `clear_every` data codes (0 = never)
    pub clear_every: u32,
    /// emit a Clear code right before EOD
    pub clear_before_eod: bool,
}

#[derive(Clone, Debug, Default, PartialEq)]
pub struct LzwStats {
    pub codes: u32,
    /// Clear codes after the initial one
    pub resets: u32,
    pub max_width: u32,
    /// decoder-side table length (entries incl. the 258 fixed ones) when EOD is read
    pub final_table: u32,
    /// largest decoder-side table length reached
    pub max_table: u32,
}

/// Hand LZW encoder (ISO 32000-1 §7.4.4: MSB first, 9–12 bits, Clear=256 first, EOD=257 last).
/// Width rule, stated on the encoder's `next_free` (the code the next new entry will get):
/// EarlyChange 1 widens when next_free ≥ 2^width, EarlyChange 0 when next_free > 2^width.
/// After the last data code the decoder adds one more entry, so the encoder advances `next_free`
/// once more before choosing the width of EOD (what libtiff's LZWPostEncode does).
pub fn lzw_hand(data: &[u8], o: &LzwOpts) -> Vec<u8> {
    let ec: u32 = if o.early { 1 } else { 0 };
    let clear_at = (o.clear_at as u32).clamp(260, 4096);
    let mut bw = BitWriter::new();
    let mut table: HashMap<(u16, u8), u16> = HashMap::new();
    let mut next_free: u32 = 258;
    let mut width: u32 = 9;
    let mut since_clear: u32 = 0;
    bw.put(256, width);
    let mut w: Option<u16> = None;
    let bump = |next_free: u32, width: &mut u32| {
        if next_free + ec > (1u32 << *width) && *width < 12 {
            *width += 1;
        }
    };
    for &c in data {
        match w {
            None => w = Some(c as u16),
            Some(p) => {
                if let Some(&code) = table.get(&(p, c)) {
                    w = Some(code);
                } else {
                    bw.put(p as u32, width);
                    since_clear += 1;
                    if next_free < 4096 {
                        table.insert((p, c), next_free as u16);
                    }
                    next_free += 1;
                    bump(next_free, &mut width);
                    w = Some(c as u16);
                    if next_free >= clear_at || (o.clear_every > 0 && since_clear >= o.clear_every) {
                        bw.put(256, width);
                        table.clear();
                        next_free = 258;
                        width = 9;
                        since_clear = 0;
                    }
                }
            }
        }
    }
    if let Some(p) = w {
        bw.put(p as u32, width);
        next_free += 1;
        bump(next_free, &mut width);
    }
    if o.clear_before_eod {
        bw.put(256, width);
        width = 9;
    }
    bw.put(257, width);
    bw.finish()
}

fn lzw_width(n: u32) -> u32 {
    if n >= 2048 {
        12
    } else if n >= 1024 {
        11
    } else if n >= 512 {
        10
    } else {
        9
    }
}

/// Pack an explicit code sequence (decoder-side width schedule). Used for expansion "bombs".
pub fn lzw_pack(codes: impl Iterator<Item = u16>, early: bool) -> Vec<u8> {
    let ec = if early { 1 } else { 0 };
    let mut bw = BitWriter::new();
    let (mut len, mut width, mut have_prev) = (258u32, 9u32, false);
    for code in codes {
        bw.put(code as u32, width);
        if code == 256 {
            len = 258;
            width = 9;
            have_prev = false;
        } else if code == 257 {
            break;
        } else {
            if have_prev && len < 4096 {
                len += 1;
            }
            have_prev = true;
            width = lzw_width(len + ec);
        }
    }
    bw.finish()
}

/// Decoder-view scan of an LZW stream: counts codes/resets and table sizes (no string table needed).
pub fn lzw_scan(data: &[u8], early: bool) -> LzwStats {
    let ec = if early { 1 } else { 0 };
    let mut st = LzwStats { max_width: 9, final_table: 258, max_table: 258, ..Default::default() };
    let (mut len, mut width, mut have_prev) = (258u32, 9u32, false);
    let total = data.len() * 8;
    let mut pos = 0usize;
    let mut first = true;
    while pos + width as usize <= total {
        let mut code = 0u32;
        for k in 0..width as usize {
            let b = pos + k;
            code = (code << 1) | ((data[b / 8] >> (7 - b % 8)) & 1) as u32;
        }
        pos += width as usize;
        st.max_width = st.max_width.max(width);
        if code == 256 {
            if !first {
                st.resets += 1;
            }
            len = 258;
            width = 9;
            have_prev = false;
        } else if code == 257 {
            break;
        } else {
            st.codes += 1;
            if have_prev && len < 4096 {
                len += 1;
            }
            have_prev = true;
            width = lzw_width(len + ec);
            st.max_table = st.max_table.max(len);
        }
        first = false;
        st.final_table = len;
    }
    st
}

// ───────────────────────── whitespace noise ─────────────────────────

#[derive(Clone, Debug)]
pub struct Noise {
    /// 0 = none; otherwise on average one whitespace run per `density` payload characters
    pub density: u8,
    /// include NUL (a white-space character of Table 1) in the alphabet
    pub nul: bool,
    pub seed: u64,
}

fn ws_run(rng: &mut Rng, nul: bool, out: &mut Vec<u8>) {
    const WS: [u8; 7] = [b' ', b'\n', b'\r', b'\t', 0x0c, b' ', b'\n'];
    let n = 1 + rng.below(3);
    for _ in 0..n {
        if nul && rng.below(3) == 0 {
            out.push(0);
        } else {
            out.push(WS[rng.below(WS.len())]);
        }
    }
}

fn maybe_ws(rng: &mut Rng, nz: &Noise, out: &mut Vec<u8>) {
    if nz.density > 0 && rng.below(nz.density as usize) == 0 {
        ws_run(rng, nz.nul, out);
    }
}

// ───────────────────────── ASCIIHex ─────────────────────────

#[derive(Clone, Debug)]
pub struct AhxOpts {
    /// 0 upper, 1 lower, 2 mixed
    pub case_mode: u8,
    pub noise: Noise,
    /// write the `>` EOD marker
    pub eod: bool,
    /// if the last byte's low nibble is 0, drop that digit (odd digit count; needs `eod`)
    pub odd: bool,
    /// bytes after EOD (ignored by a decoder): a newline
    pub trailer: bool,
}

pub fn ascii_hex(data: &[u8], o: &AhxOpts) -> Vec<u8> {
    let mut rng = Rng::new(o.noise.seed);
    let mut out = Vec::with_capacity(data.len() * 2 + 8);
    let digit = |v: u8, rng: &mut Rng| -> u8 {
        let lower = match o.case_mode {
            0 => false,
            1 => true,
            _ => rng.below(2) == 1,
        };
        if v < 10 {
            b'0' + v
        } else if lower {
            b'a' + v - 10
        } else {
            b'A' + v - 10
        }
    };
    maybe_ws(&mut rng, &o.noise, &mut out);
    for (i, &b) in data.iter().enumerate() {
        let d = digit(b >> 4, &mut rng);
        out.push(d);
        maybe_ws(&mut rng, &o.noise, &mut out);
        let last = i + 1 == data.len();
        if last && o.odd && o.eod && b & 0x0f == 0 {
            // odd number of digits: the decoder behaves as if a 0 followed
        } else {
            let d = digit(b & 0x0f, &mut rng);
            out.push(d);
        }
        maybe_ws(&mut rng, &o.noise, &mut out);
    }
    if o.eod {
        out.push(b'>');
        if o.trailer {
            out.push(b'\n');
        }
    }
    out
}

// ───────────────────────── ASCII85 ─────────────────────────

#[derive(Clone, Debug)]
pub struct A85Opts {
    /// encode an all-zero 4-byte group as `z`
    pub use_z: bool,
    /// leading `<~` (PostScript convention; accepted by the library's decoder by its own comment)
    pub prefix: bool,
    /// write the `~>` EOD marker
    pub eod: bool,
    pub noise: Noise,
}

pub fn ascii85(data: &[u8], o: &A85Opts) -> Vec<u8> {
    let mut rng = Rng::new(o.noise.seed);
    let mut out = Vec::with_capacity(data.len() * 5 / 4 + 8);
    if o.prefix {
        out.extend_from_slice(b"<~");
    }
    maybe_ws(&mut rng, &o.noise, &mut out);
    for chunk in data.chunks(4) {
        let mut g = [0u8; 4];
        g[..chunk.len()].copy_from_slice(chunk);
        let mut v = u32::from_be_bytes(g) as u64;
        if chunk.len() == 4 && v == 0 && o.use_z {
            out.push(b'z');
            maybe_ws(&mut rng, &o.noise, &mut out);
            continue;
        }
        let mut c = [0u8; 5];
        for k in (0..5).rev() {
            c[k] = (v % 85) as u8 + b'!';
            v /= 85;
        }
        for &ch in &c[..chunk.len() + 1] {
            out.push(ch);
            maybe_ws(&mut rng, &o.noise, &mut out);
        }
    }
    if o.eod {
        out.extend_from_slice(b"~>");
    }
    out
}

// ───────────────────────── RunLength ─────────────────────────

#[derive(Clone, Debug)]
pub struct RlOpts {
    /// 0 greedy (repeat runs ≥ 2 … max_rep, literals up to max_lit), 1 literal runs only, 2 seeded segmentation
    pub mode: u8,
    /// 1..=128
    pub max_lit: u8,
    /// 2..=128
    pub max_rep: u8,
    pub seed: u64,
    /// write the 128 EOD byte
    pub eod: bool,
}

pub fn run_length(data: &[u8], o: &RlOpts) -> Vec<u8> {
    let max_lit = (o.max_lit as usize).clamp(1, 128);
    let max_rep = (o.max_rep as usize).clamp(2, 128);
    let mut rng = Rng::new(o.seed);
    let mut out = Vec::with_capacity(data.len() + data.len() / 64 + 4);
    let run_at = |i: usize| -> usize {
        let b = data[i];
        let mut n = 1;
        while i + n < data.len() && data[i + n] == b && n < 128 {
            n += 1;
        }
        n
    };
    let mut i = 0;
    while i < data.len() {
        let run = run_at(i);
        let take_rep = match o.mode {
            1 => false,
            2 => run >= 2 && rng.below(2) == 0,
            _ => run >= 2,
        };
        if take_rep {
            let n = match o.mode {
                2 => 2 + rng.below(run.min(max_rep) - 1),
                _ => run.min(max_rep),
            };
            out.push((257 - n) as u8);
            out.push(data[i]);
            i += n;
        } else {
            // literal run
            let mut n = match o.mode {
                2 => 1 + rng.below(max_lit.min(data.len() - i)),
                1 => max_lit.min(data.len() - i),
                _ => {
                    let mut n = 0;
                    while i + n < data.len() && n < max_lit && (n == 0 || run_at(i + n) < 2) {
                        n += 1;
                    }
                    n
                }
            };
            n = n.max(1);
            out.push((n - 1) as u8);
            out.extend_from_slice(&data[i..i + n]);
            i += n;
        }
    }
    if o.eod {
        out.push(128);
    }
    out
}

// ───────────────────────── predictors ─────────────────────────

#[derive(Clone, Copy, Debug, PartialEq)]
pub struct PredParams {
    pub predictor: u8,
    pub colors: u8,
    pub bpc: u8,
    pub columns: u16,
}

impl PredParams {
    pub fn row_bits(&self) -> usize {
        self.colors as usize * self.bpc as usize * self.columns as usize
    }
    pub fn row_bytes(&self) -> usize {
        self.row_bits().div_ceil(8)
    }
    pub fn bpp(&self) -> usize {
        (self.colors as usize * self.bpc as usize).div_ceil(8)
    }
    /// number of unused low bits in the last byte of a row
    pub fn pad_bits(&self) -> usize {
        self.row_bytes() * 8 - self.row_bits()
    }
}

fn paeth(a: u8, b: u8, c: u8) -> u8 {
    // PNG 1.2 §6.6
    let p = a as i32 + b as i32 - c as i32;
    let (pa, pb, pc) = ((p - a as i32).abs(), (p - b as i32).abs(), (p - c as i32).abs());
    if pa <= pb && pa <= pc {
        a
    } else if pb <= pc {
        b
    } else {
        c
    }
}

/// PNG row filtering (encoder side): `x.len()` must be a multiple of `row_bytes`; `row_filter(r)`
/// gives the filter type 0–4 of row `r`. Output: one tag byte + filtered row, per row.
pub fn png_predict(x: &[u8], p: &PredParams, row_filter: &mut dyn FnMut(usize) -> u8) -> Vec<u8> {
    let row = p.row_bytes();
    let bpp = p.bpp();
    assert!(row > 0 && x.len() % row == 0);
    let mut out = Vec::with_capacity(x.len() + x.len() / row);
    let zero = vec![0u8; row];
    for (r, cur) in x.chunks(row).enumerate() {
        let prev: &[u8] = if r == 0 { &zero } else { &x[(r - 1) * row..r * row] };
        let ft = row_filter(r) % 5;
        out.push(ft);
        for k in 0..row {
            let a = if k >= bpp { cur[k - bpp] } else { 0 };
            let b = prev[k];
            let c = if k >= bpp { prev[k - bpp] } else { 0 };
            let pred = match ft {
                0 => 0,
                1 => a,
                2 => b,
                3 => ((a as u16 + b as u16) / 2) as u8,
                _ => paeth(a, b, c),
            };
            out.push(cur[k].wrapping_sub(pred));
        }
    }
    out
}

/// TIFF predictor 2 (TIFF 6.0 §14: horizontal differencing per component), 8- and 16-bit samples
/// and sub-byte samples; only the `columns·colors` real samples of a row are differenced, the
/// padding bits of the last byte are copied unchanged.
pub fn tiff_predict(x: &[u8], p: &PredParams) -> Vec<u8> {
    let row = p.row_bytes();
    assert!(row > 0 && x.len() % row == 0);
    let c = p.colors as usize;
    let nsamp = p.columns as usize * c;
    let mut out = x.to_vec();
    for (r, src) in x.chunks(row).enumerate() {
        let dst = &mut out[r * row..(r + 1) * row];
        match p.bpc {
            8 => {
                for i in (c..nsamp).rev() {
                    dst[i] = src[i].wrapping_sub(src[i - c]);
                }
            }
            16 => {
                for i in (c..nsamp).rev() {
                    let a = u16::from_be_bytes([src[2 * (i - c)], src[2 * (i - c) + 1]]);
                    let b = u16::from_be_bytes([src[2 * i], src[2 * i + 1]]);
                    let d = b.wrapping_sub(a).to_be_bytes();
                    dst[2 * i] = d[0];
                    dst[2 * i + 1] = d[1];
                }
            }
            bpc => {
                let bpc = bpc as usize;
                let mask = (1u16 << bpc) - 1;
                let get = |row: &[u8], i: usize| -> u16 {
                    let bit = i * bpc;
                    ((row[bit / 8] >> (8 - bpc - bit % 8)) as u16) & mask
                };
                for i in (c..nsamp).rev() {
                    let d = (get(src, i) + mask + 1 - get(src, i - c)) & mask;
                    let bit = i * bpc;
                    let sh = 8 - bpc - bit % 8;
                    dst[bit / 8] = (dst[bit / 8] & !((mask as u8) << sh)) | ((d as u8) << sh);
                }
            }
        }
    }
    out
}

/// Zero the padding bits at the end of every row (for comparisons that must ignore them).
pub fn mask_row_padding(data: &mut [u8], row_bytes: usize, pad_bits: usize) {
    if pad_bits == 0 || row_bytes == 0 {
        return;
    }
    let m = 0xffu8 << pad_bits;
    for r in data.chunks_mut(row_bytes) {
        if r.len() == row_bytes {
            r[row_bytes - 1] &= m;
        }
    }
}

// ───────────────────────── CCITT Group 4 ─────────────────────────

/// Encode a packed 1-bit bitmap (MSB first, rows padded to bytes; a pixel is black when its bit
/// equals `black_is_1`) as CCITT T.6 (Group 4) with EOFB, using the `fax` crate's encoder.
pub fn ccitt_g4(bitmap: &[u8], columns: u16, black_is_1: bool) -> Vec<u8> {
    let row = (columns as usize).div_ceil(8);
    let mut enc = fax::encoder::Encoder::new(fax::VecWriter::new());
    for r in bitmap.chunks(row) {
        let pels = (0..columns as usize).map(|i| {
            let bit = (r[i / 8] >> (7 - i % 8)) & 1 == 1;
            if bit == black_is_1 {
                fax::Color::Black
            } else {
                fax::Color::White
            }
        });
        let _ = enc.encode_line(pels, columns);
    }
    match enc.finish() {
        Ok(w) => w.finish(),
        Err(_) => Vec::new(),
    }
}

/// Independent inverse (fax crate decoder) → packed bitmap with zero padding bits.
pub fn ccitt_g4_decode(data: &[u8], columns: u16, rows: u16, black_is_1: bool) -> Option<Vec<u8>> {
    let row = (columns as usize).div_ceil(8);
    let mut out = Vec::with_capacity(row * rows as usize);
    fax::decoder::decode_g4(data.iter().cloned(), columns, Some(rows), |tr| {
        let mut bytes = vec![0u8; row];
        for (i, c) in fax::decoder::pels(tr, columns).enumerate() {
            let black = c == fax::Color::Black;
            if black == black_is_1 {
                bytes[i / 8] |= 0x80 >> (i % 8);
            }
        }
        out.extend_from_slice(&bytes);
    })?;
    Some(out)
}

// ───────────────────────── calibration ─────────────────────────

/// A sequence in which every adjacent byte pair occurs at most once, so that an LZW encoder emits
/// exactly one code per byte and its table grows by one entry per byte (len ≤ 60 000).
pub fn pair_unique(len: usize, seed: u64) -> Vec<u8> {
    let mut rng = Rng::new(seed);
    let mut seen = vec![false; 65536];
    let mut out = Vec::with_capacity(len);
    let mut prev = rng.below(256) as u8;
    out.push(prev);
    while out.len() < len {
        let start = rng.below(256);
        let mut found = None;
        for k in 0..256 {
            let b = ((start + k) & 255) as u8;
            if !seen[(prev as usize) << 8 | b as usize] {
                found = Some(b);
                break;
            }
        }
        let Some(b) = found else { break };
        seen[(prev as usize) << 8 | b as usize] = true;
        out.push(b);
        prev = b;
    }
    out.truncate(len);
    out
}

fn crc_chunk(out: &mut Vec<u8>, kind: &[u8; 4], body: &[u8]) {
    out.extend_from_slice(&(body.len() as u32).to_be_bytes());
    let mut h = crc32fast::Hasher::new();
    h.update(kind);
    h.update(body);
    out.extend_from_slice(kind);
    out.extend_from_slice(body);
    out.extend_from_slice(&h.finalize().to_be_bytes());
}

/// Cross-check of the PNG row-filter encoder against the independent `png` crate decoder:
/// wrap the filtered rows as the IDAT of a PNG file and let the `png` crate undo them.
fn png_crate_check(x: &[u8], p: &PredParams, filters: &[u8]) -> Result<(), String> {
    let color_type: u8 = match p.colors {
        1 => 0,
        2 => 4,
        3 => 2,
        _ => 6,
    };
    let rows = x.len() / p.row_bytes();
    let mut k = 0;
    let filtered = png_predict(x, p, &mut |_| {
        k += 1;
        filters[(k - 1) % filters.len()]
    });
    let mut file = vec![0x89, b'P', b'N', b'G', 0x0d, 0x0a, 0x1a, 0x0a];
    let mut ihdr = Vec::new();
    ihdr.extend_from_slice(&(p.columns as u32).to_be_bytes());
    ihdr.extend_from_slice(&(rows as u32).to_be_bytes());
    ihdr.extend_from_slice(&[p.bpc, color_type, 0, 0, 0]);
    crc_chunk(&mut file, b"IHDR", &ihdr);
    crc_chunk(&mut file, b"IDAT", &zlib(&filtered, 6, 0));
    crc_chunk(&mut file, b"IEND", &[]);
    let mut dec = png::Decoder::new(std::io::Cursor::new(file));
    dec.set_transformations(png::Transformations::IDENTITY);
    let mut reader = dec.read_info().map_err(|e| format!("png read_info: {e}"))?;
    let mut buf = vec![0u8; x.len() + 64];
    let info = reader.next_frame(&mut buf).map_err(|e| format!("png next_frame: {e}"))?;
    let got = &buf[..info.buffer_size()];
    if got != x {
        return Err(format!("png crate decoded {} bytes ≠ original {} bytes ({p:?})", got.len(), x.len()));
    }
    Ok(())
}

/// Self-test of the reference encoders against independent decoders. Err = harness broken.
pub fn calibrate() -> Result<u32, String> {
    use crate::refpdf::filters as rf;
    let mut n = 0u32;
    // LZW: hand encoder ↔ weezl decoder, weezl encoder ↔ hand decoder, at every width boundary
    let mut sizes: Vec<usize> = vec![0, 1, 2, 3, 100, 5000, 9000];
    for t in [511usize, 512, 1023, 1024, 2047, 2048, 4093, 4094, 4095, 4096] {
        for d in 0..5 {
            sizes.push((t + d).saturating_sub(259));
        }
    }
    for (i, &len) in sizes.iter().enumerate() {
        let datas = [pair_unique(len, i as u64), {
            let mut r = Rng::new(i as u64);
            (0..len * 3).map(|_| (r.next() % 7) as u8).collect::<Vec<u8>>()
        }];
        for data in &datas {
            for early in [false, true] {
                for clear_at in [4094u16, 4095, 4096] {
                    let enc = lzw_hand(data, &LzwOpts { early, clear_at, clear_every: 0, clear_before_eod: false });
                    let back = lzw_weezl_decode(&enc, early)?;
                    if &back != data {
                        return Err(format!("lzw_hand(early={early},clear_at={clear_at},len={}) not inverted by weezl", data.len()));
                    }
                    let back = rf::lzw(&enc, early).map_err(|e| format!("ref lzw on hand encoding: {e:?}"))?;
                    if &back != data {
                        return Err(format!("lzw_hand(early={early},len={}) not inverted by refpdf lzw", data.len()));
                    }
                    n += 2;
                }
                let enc = lzw_weezl(data, early)?;
                let back = rf::lzw(&enc, early).map_err(|e| format!("ref lzw on weezl encoding: {e:?}"))?;
                if &back != data {
                    return Err(format!("weezl(early={early},len={}) not inverted by refpdf lzw", data.len()));
                }
                n += 1;
            }
        }
    }
    // PNG row filters ↔ png crate, every valid PNG (colour type, depth)
    let mut r = Rng::new(7);
    for (colors, depths) in [(1u8, &[1u8, 2, 4, 8, 16][..]), (2, &[8, 16][..]), (3, &[8, 16][..]), (4, &[8, 16][..])] {
        for &bpc in depths {
            for columns in [1u16, 2, 3, 5, 8, 17, 64] {
                let p = PredParams { predictor: 15, colors, bpc, columns };
                let rows = 6;
                let x: Vec<u8> = (0..p.row_bytes() * rows).map(|_| if r.below(4) == 0 { r.next() as u8 } else { (r.next() % 3) as u8 }).collect();
                png_crate_check(&x, &p, &[4, 3, 1, 2, 0, 4])?;
                // and the harness decoder
                let mut k = 0;
                let f = png_predict(&x, &p, &mut |_| {
                    k += 1;
                    [4u8, 3, 1, 2, 0, 4][(k - 1) % 6]
                });
                let back = rf::unpredict(&f, &rf::Parms { predictor: 15, colors: colors as i64, bpc: bpc as i64, columns: columns as i64, early_change: 1 }).map_err(|e| format!("{e:?}"))?;
                if back != x {
                    return Err(format!("refpdf unpredict does not invert png_predict for {p:?}"));
                }
                n += 2;
            }
        }
    }
    // CCITT G4 ↔ fax decoder
    for columns in [1u16, 7, 8, 9, 31, 64, 200] {
        let row = (columns as usize).div_ceil(8);
        let rows = 5u16;
        let mut bm: Vec<u8> = (0..row * rows as usize).map(|_| if r.below(2) == 0 { 0 } else { r.next() as u8 }).collect();
        mask_row_padding(&mut bm, row, row * 8 - columns as usize);
        for black_is_1 in [false, true] {
            let enc = ccitt_g4(&bm, columns, black_is_1);
            let mut exp = bm.clone();
            if !black_is_1 {
                // padding bits are "white" = 1 when BlackIs1 is false; compare masked
                mask_row_padding(&mut exp, row, row * 8 - columns as usize);
            }
            let mut back = ccitt_g4_decode(&enc, columns, rows, black_is_1).ok_or("fax decoder rejected fax encoding")?;
            mask_row_padding(&mut back, row, row * 8 - columns as usize);
            if back != exp {
                return Err(format!("fax decoder does not invert fax encoder (columns={columns})"));
            }
            n += 1;
        }
    }
    Ok(n)
}
