//! vp — verification harness for the 30 oxidizePdf properties (see /verif/DESIGN.md).
#![allow(dead_code)]
mod engine;
mod props;
mod refcrypto;
mod refcodec;
mod reffont;
mod refpdf;
mod refpng;
mod reftab;
mod reftab_cmap;

use engine::{Ctx, Tier};
use serde_json::Value;
use std::path::PathBuf;

fn verif_dir() -> PathBuf {
    std::env::var("VERIF_DIR").map(PathBuf::from).unwrap_or_else(|_| PathBuf::from("/verif"))
}

fn usage() -> ! {
    eprintln!("usage: vp run <ID> quick|thorough | vp replay <ID> <file> | vp list | vp worker …");
    std::process::exit(2);
}

fn seed() -> u64 {
    std::env::var("VERIF_SEED").ok().and_then(|s| s.trim().parse::<i64>().ok()).map(|v| v as u64).unwrap_or(0)
}

/// Replays one file; returns (exit code contribution, printed)
fn replay_file(ctx: &Ctx, def: &engine::PropertyDef, path: &std::path::Path, regression: bool) -> i32 {
    let Ok(bytes) = std::fs::read(path) else {
        eprintln!("cannot read {}", path.display());
        return 2;
    };
    let Ok(doc) = serde_json::from_slice::<Value>(&bytes) else {
        eprintln!("cannot parse {}", path.display());
        return 2;
    };
    let sub = doc.get("sub_check").and_then(|v| v.as_str()).unwrap_or("");
    let case = doc.get("case").cloned().unwrap_or(Value::Null);
    let expect_sig = doc.get("signature").and_then(|v| v.as_str()).unwrap_or("");
    let out = match (def.replay)(ctx, sub, &case) {
        Ok(o) => o,
        Err(e) => {
            eprintln!("replay {}: {e}", path.display());
            return 2;
        }
    };
    let key = engine::hash64(case.to_string().as_bytes());
    let unknown = ctx.record(&format!("replay:{sub}"), key, &out, || case.clone());
    if !regression {
        for f in &out.fails {
            println!("replay: clause failed: {} — {}", f.signature(), f.detail);
        }
        if out.fails.is_empty() {
            println!("replay: property held on this case");
        }
    }
    if let Some(f) = unknown.first() {
        ctx.violation(&format!("replay:{sub}"), f, case.clone(), &out.fails);
        return 1;
    }
    if regression && !expect_sig.is_empty() && ctx.known_sig(expect_sig) && !out.fails.iter().any(|f| f.signature() == expect_sig) {
        ctx.note(format!("known finding {expect_sig} did not reproduce from {}", path.display()));
    }
    0
}

fn main() {
    engine::install_panic_hook();
    let args: Vec<String> = std::env::args().collect();
    if args.len() < 2 {
        usage();
    }
    match args[1].as_str() {
        "list" => {
            for d in props::all() {
                println!("{}", d.id);
            }
        }
        "describe" => {
            let v: Vec<Value> = props::all()
                .into_iter()
                .map(|d| serde_json::json!({"id": d.id, "level": d.level, "rule": d.rule, "assumptions": d.assumptions, "trusted_base": d.trusted_base}))
                .collect();
            println!("{}", serde_json::to_string_pretty(&v).unwrap());
        }
        "worker" => {
            props::worker_main(&args[2..]);
        }
        // seed corpus of C01's coverage-guided campaign: `vp corpus <dir> <n>` (VERIF_SEED)
        "corpus" => {
            // vp corpus <dir> <n> [C01|C08|C21|C26]
            let n: u32 = args.get(3).and_then(|s| s.parse().ok()).unwrap_or(300);
            let seed: u64 = std::env::var("VERIF_SEED").ok().and_then(|s| s.parse().ok()).unwrap_or(0);
            let dir = std::path::Path::new(&args[2]);
            let r = match args.get(4).map(|s| s.as_str()).unwrap_or("C01") {
                "C08" => props::c08::dump_corpus(dir, n, seed),
                "C21" => props::c21::dump_corpus(dir, n, seed),
                "C26" => props::c26::dump_corpus(dir, n, seed),
                _ => props::c01::dump_corpus(dir, n, seed),
            };
            match r {
                Ok(w) => println!("corpus: {w} files"),
                Err(e) => {
                    eprintln!("corpus: {e}");
                    std::process::exit(2);
                }
            }
        }
        // debugging aid: run C01's driver in-process on a file (`vp drive <preset 0-4> <file>`), e.g. under gdb
        "drive" => {
            let p: u8 = args[2].parse().unwrap_or(1);
            let bytes = std::fs::read(&args[3]).expect("read file");
            println!("{}", props::c01::drive(p, &bytes));
        }
        "run" => {
            if args.len() < 4 {
                usage();
            }
            let id = args[2].as_str();
            let tier = match args[3].as_str() {
                "quick" => Tier::Quick,
                "thorough" => Tier::Thorough,
                _ => usage(),
            };
            let Some(def) = props::all().into_iter().find(|d| d.id == id) else {
                eprintln!("unknown property {id}");
                std::process::exit(2);
            };
            let ctx = Ctx::new(id, tier, seed(), verif_dir());
            // regression tier: committed replays first
            let dir = ctx.verif_dir.join("replays").join(id);
            if let Ok(rd) = std::fs::read_dir(&dir) {
                let mut files: Vec<_> = rd.filter_map(|e| e.ok()).map(|e| e.path()).filter(|p| p.extension().map(|e| e == "json").unwrap_or(false)).collect();
                files.sort();
                for f in files {
                    let rc = replay_file(&ctx, &def, &f, true);
                    if rc == 2 {
                        eprintln!("[{id}] committed replay {} could not be run", f.display());
                    }
                }
            }
            (def.run)(&ctx);
            let rc = ctx.finish(&def);
            std::process::exit(rc);
        }
        "replay" => {
            if args.len() < 4 {
                usage();
            }
            let id = args[2].as_str();
            let Some(def) = props::all().into_iter().find(|d| d.id == id) else {
                eprintln!("unknown property {id}");
                std::process::exit(2);
            };
            let mut ctx = Ctx::new(id, Tier::Quick, seed(), verif_dir());
            ctx.replay_mode = true;
            let rc = replay_file(&ctx, &def, std::path::Path::new(&args[3]), false);
            for f in ctx.known.iter().filter(|k| k.status == "known") {
                let _ = f;
            }
            std::process::exit(rc);
        }
        _ => usage(),
    }
}
