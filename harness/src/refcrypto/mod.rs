//! refcrypto — standard security handler (ISO 32000-1 §7.6, ISO 32000-2 §7.6.4) written from the
//! specification on top of the primitives in `prim`. Independent of the RustCrypto crates the
//! library links.
pub mod prim;

use crate::refpdf::{Dict, Obj};
use prim::*;

pub const PAD: [u8; 32] = [
    0x28, 0xBF, 0x4E, 0x5E, 0x4E, 0x75, 0x8A, 0x41, 0x64, 0x00, 0x4E, 0x56, 0xFF, 0xFA, 0x01, 0x08, 0x2E, 0x2E, 0x00, 0xB6, 0xD0, 0x68, 0x3E, 0x80, 0x2F, 0x0C, 0xA9, 0xFE, 0x64, 0x53, 0x69, 0x7A,
];

#[derive(Clone, Copy, Debug, PartialEq, Eq)]
pub enum Method {
    Identity,
    Rc4,
    AesV2,
    AesV3,
}

#[derive(Clone, Copy, Debug, PartialEq, Eq)]
pub enum Who {
    User,
    Owner,
}

#[derive(Clone, Debug)]
pub struct Handler {
    pub v: i64,
    pub r: i64,
    pub key: Vec<u8>,
    pub strf: Method,
    pub stmf: Method,
    pub encrypt_metadata: bool,
    pub p: i32,
    pub who: Who,
}

pub fn pad_password(pw: &[u8]) -> [u8; 32] {
    let mut out = [0u8; 32];
    let n = pw.len().min(32);
    out[..n].copy_from_slice(&pw[..n]);
    out[n..].copy_from_slice(&PAD[..32 - n]);
    out
}

/// Algorithm 2: file encryption key for R2–R4.
pub fn alg2_key(pw: &[u8], o: &[u8], p: i32, id0: &[u8], r: i64, key_len: usize, encrypt_metadata: bool) -> Vec<u8> {
    let mut m = Vec::new();
    m.extend_from_slice(&pad_password(pw));
    m.extend_from_slice(&o[..32.min(o.len())]);
    m.extend_from_slice(&(p as u32).to_le_bytes());
    m.extend_from_slice(id0);
    if r >= 4 && !encrypt_metadata {
        m.extend_from_slice(&[0xFF, 0xFF, 0xFF, 0xFF]);
    }
    let mut h = md5(&m).to_vec();
    let n = if r == 2 { 5 } else { key_len };
    if r >= 3 {
        for _ in 0..50 {
            h = md5(&h[..n]).to_vec();
        }
    }
    h[..n].to_vec()
}

/// Algorithm 3 steps a–d: RC4 key derived from the owner password.
pub fn alg3_owner_key(owner_pw: &[u8], r: i64, key_len: usize) -> Vec<u8> {
    let mut h = md5(&pad_password(owner_pw)).to_vec();
    if r >= 3 {
        for _ in 0..50 {
            h = md5(&h).to_vec();
        }
    }
    let n = if r == 2 { 5 } else { key_len };
    h[..n].to_vec()
}

/// Algorithm 3: the /O entry.
pub fn alg3_o(owner_pw: &[u8], user_pw: &[u8], r: i64, key_len: usize) -> Vec<u8> {
    let opw = if owner_pw.is_empty() { user_pw } else { owner_pw };
    let k = alg3_owner_key(opw, r, key_len);
    let mut x = rc4(&k, &pad_password(user_pw));
    if r >= 3 {
        for i in 1..=19u8 {
            let ki: Vec<u8> = k.iter().map(|b| b ^ i).collect();
            x = rc4(&ki, &x);
        }
    }
    x
}

/// Algorithms 4 and 5: the /U entry (32 bytes; for R≥3 the last 16 bytes are arbitrary padding, here zero).
pub fn alg45_u(key: &[u8], id0: &[u8], r: i64) -> Vec<u8> {
    if r == 2 {
        rc4(key, &PAD)
    } else {
        let mut m = PAD.to_vec();
        m.extend_from_slice(id0);
        let h = md5(&m);
        let mut x = rc4(key, &h);
        for i in 1..=19u8 {
            let ki: Vec<u8> = key.iter().map(|b| b ^ i).collect();
            x = rc4(&ki, &x);
        }
        x.extend_from_slice(&[0u8; 16]);
        x
    }
}

/// Algorithm 2.B (ISO 32000-2): hash for R6.
pub fn alg2b(pw: &[u8], salt: &[u8], udata: &[u8]) -> [u8; 32] {
    let mut m = pw.to_vec();
    m.extend_from_slice(salt);
    m.extend_from_slice(udata);
    let mut k: Vec<u8> = sha256(&m).to_vec();
    let mut round = 0u32;
    loop {
        let mut k1 = Vec::with_capacity(64 * (pw.len() + k.len() + udata.len()));
        for _ in 0..64 {
            k1.extend_from_slice(pw);
            k1.extend_from_slice(&k);
            k1.extend_from_slice(udata);
        }
        let mut iv = [0u8; 16];
        iv.copy_from_slice(&k[16..32]);
        let e = cbc_encrypt_nopad(&k[..16], &iv, &k1).expect("2.B: K1 length is a multiple of 16");
        let s: u32 = e[..16].iter().map(|b| (*b as u32) % 3).sum::<u32>() % 3;
        k = match s {
            0 => sha256(&e).to_vec(),
            1 => sha384(&e).to_vec(),
            _ => sha512(&e).to_vec(),
        };
        round += 1;
        if round >= 64 && (*e.last().unwrap() as u32) <= round - 32 {
            break;
        }
    }
    let mut out = [0u8; 32];
    out.copy_from_slice(&k[..32]);
    out
}

pub fn hash_r56(r: i64, pw: &[u8], salt: &[u8], udata: &[u8]) -> [u8; 32] {
    if r == 5 {
        let mut m = pw.to_vec();
        m.extend_from_slice(salt);
        m.extend_from_slice(udata);
        sha256(&m)
    } else {
        alg2b(pw, salt, udata)
    }
}

fn trunc127(pw: &[u8]) -> &[u8] {
    &pw[..pw.len().min(127)]
}

/// Algorithm 8: /U and /UE for R5/R6 from given salts.
pub fn alg8_u_ue(r: i64, user_pw: &[u8], file_key: &[u8; 32], vsalt: &[u8; 8], ksalt: &[u8; 8]) -> (Vec<u8>, Vec<u8>) {
    let pw = trunc127(user_pw);
    let mut u = hash_r56(r, pw, vsalt, &[]).to_vec();
    u.extend_from_slice(vsalt);
    u.extend_from_slice(ksalt);
    let ik = hash_r56(r, pw, ksalt, &[]);
    let ue = cbc_encrypt_nopad(&ik, &[0u8; 16], file_key).unwrap();
    (u, ue)
}

/// Algorithm 9: /O and /OE.
pub fn alg9_o_oe(r: i64, owner_pw: &[u8], file_key: &[u8; 32], vsalt: &[u8; 8], ksalt: &[u8; 8], u: &[u8]) -> (Vec<u8>, Vec<u8>) {
    let pw = trunc127(owner_pw);
    let mut o = hash_r56(r, pw, vsalt, &u[..48]).to_vec();
    o.extend_from_slice(vsalt);
    o.extend_from_slice(ksalt);
    let ik = hash_r56(r, pw, ksalt, &u[..48]);
    let oe = cbc_encrypt_nopad(&ik, &[0u8; 16], file_key).unwrap();
    (o, oe)
}

/// Algorithm 10: /Perms.
pub fn alg10_perms(p: i32, encrypt_metadata: bool, file_key: &[u8; 32], tail: [u8; 4]) -> [u8; 16] {
    let mut b = [0u8; 16];
    b[..4].copy_from_slice(&(p as u32).to_le_bytes());
    b[4..8].copy_from_slice(&[0xFF; 4]);
    b[8] = if encrypt_metadata { b'T' } else { b'F' };
    b[9] = b'a';
    b[10] = b'd';
    b[11] = b'b';
    b[12..].copy_from_slice(&tail);
    ecb_encrypt_block(file_key, &b).unwrap()
}

fn method_of(cf: Option<&Dict>, name: Option<&[u8]>) -> Result<Method, String> {
    let Some(name) = name else { return Ok(Method::Identity) };
    if name == b"Identity" {
        return Ok(Method::Identity);
    }
    let cf = cf.ok_or("crypt filter named but no /CF")?;
    let Some(Obj::Dict(f)) = cf.get(name) else { return Err(format!("crypt filter /{} not in /CF", String::from_utf8_lossy(name))) };
    match f.name(b"CFM") {
        None | Some(b"None") => Ok(Method::Identity),
        Some(b"V2") => Ok(Method::Rc4),
        Some(b"AESV2") => Ok(Method::AesV2),
        Some(b"AESV3") => Ok(Method::AesV3),
        Some(o) => Err(format!("unknown CFM {}", String::from_utf8_lossy(o))),
    }
}

impl Handler {
    /// Authenticate `password` (tried as user, then as owner) against an /Encrypt dictionary.
    pub fn from_dict(enc: &Dict, id0: &[u8], password: &[u8]) -> Result<Handler, String> {
        if enc.name(b"Filter") != Some(b"Standard") {
            return Err("not the Standard security handler".into());
        }
        let v = enc.int(b"V").unwrap_or(0);
        let r = enc.int(b"R").ok_or("no /R")?;
        let p = enc.int(b"P").ok_or("no /P")? as i32;
        let o = enc.get(b"O").and_then(|x| x.as_str()).ok_or("no /O")?.to_vec();
        let u = enc.get(b"U").and_then(|x| x.as_str()).ok_or("no /U")?.to_vec();
        let encrypt_metadata = !matches!(enc.get(b"EncryptMetadata"), Some(Obj::Bool(false)));
        let length_bits = enc.int(b"Length").unwrap_or(40);
        let cf = enc.get(b"CF").and_then(|x| x.as_dict());
        let (strf, stmf, key_len) = match v {
            1 => (Method::Rc4, Method::Rc4, 5usize),
            2 | 3 => (Method::Rc4, Method::Rc4, (length_bits / 8) as usize),
            4 => {
                let s = method_of(cf, enc.name(b"StrF"))?;
                let m = method_of(cf, enc.name(b"StmF"))?;
                // key length: /Length of the Encrypt dict (bits) — 128 for V4
                let kl = if enc.get(b"Length").is_some() { (length_bits / 8) as usize } else { 16 };
                (s, m, kl)
            }
            5 => {
                let s = method_of(cf, enc.name(b"StrF"))?;
                let m = method_of(cf, enc.name(b"StmF"))?;
                (s, m, 32)
            }
            _ => return Err(format!("unsupported /V {v}")),
        };
        if !(5..=32).contains(&key_len) {
            return Err(format!("bad key length {key_len}"));
        }
        if (2..=4).contains(&r) {
            if o.len() < 32 || u.len() < 32 {
                return Err("/O or /U shorter than 32 bytes".into());
            }
            let check_user = |pw: &[u8]| -> Option<Vec<u8>> {
                let key = alg2_key(pw, &o, p, id0, r, key_len, encrypt_metadata);
                let exp = alg45_u(&key, id0, r);
                let ok = if r == 2 { exp[..32] == u[..32] } else { exp[..16] == u[..16] };
                ok.then_some(key)
            };
            if let Some(key) = check_user(password) {
                return Ok(Handler { v, r, key, strf, stmf, encrypt_metadata, p, who: Who::User });
            }
            // Algorithm 7: owner
            let ok = alg3_owner_key(password, r, key_len);
            let mut x = o[..32].to_vec();
            if r == 2 {
                x = rc4(&ok, &x);
            } else {
                for i in (0..=19u8).rev() {
                    let ki: Vec<u8> = ok.iter().map(|b| b ^ i).collect();
                    x = rc4(&ki, &x);
                }
            }
            if let Some(key) = check_user(&x) {
                return Ok(Handler { v, r, key, strf, stmf, encrypt_metadata, p, who: Who::Owner });
            }
            Err("wrong password".into())
        } else if r == 5 || r == 6 {
            if o.len() < 48 || u.len() < 48 {
                return Err("/O or /U shorter than 48 bytes".into());
            }
            let oe = enc.get(b"OE").and_then(|x| x.as_str()).ok_or("no /OE")?;
            let ue = enc.get(b"UE").and_then(|x| x.as_str()).ok_or("no /UE")?;
            if oe.len() != 32 || ue.len() != 32 {
                return Err("/OE or /UE not 32 bytes".into());
            }
            let pw = trunc127(password);
            let mut found: Option<(Vec<u8>, Who)> = None;
            if hash_r56(r, pw, &u[32..40], &[])[..] == u[..32] {
                let ik = hash_r56(r, pw, &u[40..48], &[]);
                found = Some((cbc_decrypt_nopad(&ik, &[0u8; 16], ue).unwrap(), Who::User));
            } else if hash_r56(r, pw, &o[32..40], &u[..48])[..] == o[..32] {
                let ik = hash_r56(r, pw, &o[40..48], &u[..48]);
                found = Some((cbc_decrypt_nopad(&ik, &[0u8; 16], oe).unwrap(), Who::Owner));
            }
            let Some((key, who)) = found else { return Err("wrong password".into()) };
            // Algorithm 13: validate /Perms
            if let Some(perms) = enc.get(b"Perms").and_then(|x| x.as_str()) {
                if perms.len() == 16 {
                    let mut b = [0u8; 16];
                    b.copy_from_slice(perms);
                    let d = ecb_decrypt_block(&key, &b).unwrap();
                    if &d[9..12] != b"adb" {
                        return Err("/Perms does not decrypt to 'adb'".into());
                    }
                    if d[..4] != (p as u32).to_le_bytes() {
                        return Err("/Perms permission bits differ from /P".into());
                    }
                } else {
                    return Err("/Perms not 16 bytes".into());
                }
            } else {
                return Err("no /Perms".into());
            }
            Ok(Handler { v, r, key, strf, stmf, encrypt_metadata, p, who })
        } else {
            Err(format!("unsupported /R {r}"))
        }
    }

    /// Algorithm 1: per-object key.
    pub fn object_key(&self, n: u32, g: u16, m: Method) -> Vec<u8> {
        if m == Method::AesV3 {
            return self.key.clone();
        }
        let mut d = self.key.clone();
        d.extend_from_slice(&n.to_le_bytes()[..3]);
        d.extend_from_slice(&g.to_le_bytes()[..2]);
        if m == Method::AesV2 {
            d.extend_from_slice(b"sAlT");
        }
        let h = md5(&d);
        h[..(self.key.len() + 5).min(16)].to_vec()
    }

    fn decrypt(&self, n: u32, g: u16, m: Method, data: &[u8]) -> Result<Vec<u8>, String> {
        match m {
            Method::Identity => Ok(data.to_vec()),
            Method::Rc4 => Ok(rc4(&self.object_key(n, g, m), data)),
            Method::AesV2 | Method::AesV3 => {
                if data.is_empty() {
                    return Ok(Vec::new());
                }
                if data.len() < 32 || data.len() % 16 != 0 {
                    return Err(format!("AES data of {} bytes is not IV + whole blocks", data.len()));
                }
                let mut iv = [0u8; 16];
                iv.copy_from_slice(&data[..16]);
                cbc_decrypt(&self.object_key(n, g, m), &iv, &data[16..]).ok_or_else(|| "bad PKCS#7 padding".to_string())
            }
        }
    }

    fn encrypt(&self, n: u32, g: u16, m: Method, data: &[u8], iv: &[u8; 16]) -> Vec<u8> {
        match m {
            Method::Identity => data.to_vec(),
            Method::Rc4 => rc4(&self.object_key(n, g, m), data),
            Method::AesV2 | Method::AesV3 => {
                let mut out = iv.to_vec();
                out.extend(cbc_encrypt(&self.object_key(n, g, m), iv, data).unwrap());
                out
            }
        }
    }

    pub fn decrypt_string(&self, n: u32, g: u16, d: &[u8]) -> Result<Vec<u8>, String> {
        self.decrypt(n, g, self.strf, d)
    }
    pub fn decrypt_stream(&self, n: u32, g: u16, d: &[u8]) -> Result<Vec<u8>, String> {
        self.decrypt(n, g, self.stmf, d)
    }
    pub fn encrypt_string(&self, n: u32, g: u16, d: &[u8], iv: &[u8; 16]) -> Vec<u8> {
        self.encrypt(n, g, self.strf, d, iv)
    }
    pub fn encrypt_stream(&self, n: u32, g: u16, d: &[u8], iv: &[u8; 16]) -> Vec<u8> {
        self.encrypt(n, g, self.stmf, d, iv)
    }
}

/// Parameters to *create* an encrypted file with the reference (the synthesizer side of C06).
#[derive(Clone, Debug, serde::Serialize, serde::Deserialize)]
pub struct EncSpec {
    /// 2, 3, 4, 5, 6
    pub r: u8,
    /// for R4: true = AESV2, false = V2 (RC4) crypt filter; ignored otherwise
    pub aes: bool,
    pub key_bits: u16,
    pub user_pw: Vec<u8>,
    pub owner_pw: Vec<u8>,
    pub p: i32,
    pub encrypt_metadata: bool,
    /// seeds for salts / file key / IVs (deterministic)
    pub seed: u64,
}

pub struct Built {
    pub dict: Dict,
    pub handler: Handler,
}

fn det_bytes(seed: u64, tag: u8, n: usize) -> Vec<u8> {
    let mut out = Vec::new();
    let mut c = 0u32;
    while out.len() < n {
        let mut m = seed.to_le_bytes().to_vec();
        m.push(tag);
        m.extend_from_slice(&c.to_le_bytes());
        out.extend_from_slice(&md5(&m));
        c += 1;
    }
    out.truncate(n);
    out
}

pub fn iv_for(seed: u64, n: u32, k: u32) -> [u8; 16] {
    let mut m = seed.to_le_bytes().to_vec();
    m.extend_from_slice(&n.to_le_bytes());
    m.extend_from_slice(&k.to_le_bytes());
    md5(&m)
}

/// Build the /Encrypt dictionary and the matching handler.
pub fn build(spec: &EncSpec, id0: &[u8]) -> Built {
    let r = spec.r as i64;
    let mut d = Dict::new();
    d.set(b"Filter", Obj::name("Standard"));
    if (2..=4).contains(&r) {
        let key_len = match r {
            2 => 5,
            3 => (spec.key_bits / 8).clamp(5, 16) as usize,
            _ => 16,
        };
        let v = match r {
            2 => 1,
            3 => 2,
            _ => 4,
        };
        let o = alg3_o(&spec.owner_pw, &spec.user_pw, r, key_len);
        let key = alg2_key(&spec.user_pw, &o, spec.p, id0, r, key_len, spec.encrypt_metadata);
        let u = alg45_u(&key, id0, r);
        d.set(b"V", Obj::Int(v));
        d.set(b"R", Obj::Int(r));
        if v >= 2 {
            d.set(b"Length", Obj::Int(key_len as i64 * 8));
        }
        d.set(b"O", Obj::Str(o));
        d.set(b"U", Obj::Str(u));
        d.set(b"P", Obj::Int(spec.p as i64));
        let m = if r == 4 {
            let mut f = Dict::new();
            f.set(b"Type", Obj::name("CryptFilter"));
            f.set(b"CFM", Obj::name(if spec.aes { "AESV2" } else { "V2" }));
            f.set(b"AuthEvent", Obj::name("DocOpen"));
            f.set(b"Length", Obj::Int(16));
            let mut cf = Dict::new();
            cf.set(b"StdCF", Obj::Dict(f));
            d.set(b"CF", Obj::Dict(cf));
            d.set(b"StmF", Obj::name("StdCF"));
            d.set(b"StrF", Obj::name("StdCF"));
            if !spec.encrypt_metadata {
                d.set(b"EncryptMetadata", Obj::Bool(false));
            }
            if spec.aes {
                Method::AesV2
            } else {
                Method::Rc4
            }
        } else {
            Method::Rc4
        };
        let em = if r == 4 { spec.encrypt_metadata } else { true };
        Built { dict: d, handler: Handler { v, r, key, strf: m, stmf: m, encrypt_metadata: em, p: spec.p, who: Who::Owner } }
    } else {
        let mut fk = [0u8; 32];
        fk.copy_from_slice(&det_bytes(spec.seed, 1, 32));
        let s = det_bytes(spec.seed, 2, 32);
        let (uvs, uks, ovs, oks): ([u8; 8], [u8; 8], [u8; 8], [u8; 8]) =
            (s[0..8].try_into().unwrap(), s[8..16].try_into().unwrap(), s[16..24].try_into().unwrap(), s[24..32].try_into().unwrap());
        let (u, ue) = alg8_u_ue(r, &spec.user_pw, &fk, &uvs, &uks);
        let (o, oe) = alg9_o_oe(r, &spec.owner_pw, &fk, &ovs, &oks, &u);
        let tail: [u8; 4] = det_bytes(spec.seed, 3, 4).try_into().unwrap();
        let perms = alg10_perms(spec.p, spec.encrypt_metadata, &fk, tail);
        d.set(b"V", Obj::Int(5));
        d.set(b"R", Obj::Int(r));
        d.set(b"Length", Obj::Int(256));
        d.set(b"O", Obj::Str(o));
        d.set(b"U", Obj::Str(u));
        d.set(b"OE", Obj::Str(oe));
        d.set(b"UE", Obj::Str(ue));
        d.set(b"P", Obj::Int(spec.p as i64));
        d.set(b"Perms", Obj::Str(perms.to_vec()));
        let mut f = Dict::new();
        f.set(b"Type", Obj::name("CryptFilter"));
        f.set(b"CFM", Obj::name("AESV3"));
        f.set(b"AuthEvent", Obj::name("DocOpen"));
        f.set(b"Length", Obj::Int(32));
        let mut cf = Dict::new();
        cf.set(b"StdCF", Obj::Dict(f));
        d.set(b"CF", Obj::Dict(cf));
        d.set(b"StmF", Obj::name("StdCF"));
        d.set(b"StrF", Obj::name("StdCF"));
        if !spec.encrypt_metadata {
            d.set(b"EncryptMetadata", Obj::Bool(false));
        }
        Built {
            dict: d,
            handler: Handler { v: 5, r, key: fk.to_vec(), strf: Method::AesV3, stmf: Method::AesV3, encrypt_metadata: spec.encrypt_metadata, p: spec.p, who: Who::Owner },
        }
    }
}
