//! Primitives written from the specifications: MD5 (RFC 1321), SHA-256/384/512 (FIPS 180-4),
//! AES (FIPS-197; S-box computed, not transcribed), CBC + PKCS#7, RC4.

// ---------------------------------------------------------------- MD5
pub fn md5(msg: &[u8]) -> [u8; 16] {
    let s: [u32; 64] = [
        7, 12, 17, 22, 7, 12, 17, 22, 7, 12, 17, 22, 7, 12, 17, 22, 5, 9, 14, 20, 5, 9, 14, 20, 5, 9, 14, 20, 5, 9, 14, 20, 4, 11, 16, 23, 4, 11, 16, 23, 4, 11, 16, 23, 4, 11, 16, 23, 6, 10,
        15, 21, 6, 10, 15, 21, 6, 10, 15, 21, 6, 10, 15, 21,
    ];
    let k: Vec<u32> = (0..64).map(|i| ((i as f64 + 1.0).sin().abs() * 4294967296.0) as u32).collect();
    let (mut a0, mut b0, mut c0, mut d0) = (0x67452301u32, 0xefcdab89u32, 0x98badcfeu32, 0x10325476u32);
    let mut m = msg.to_vec();
    let bitlen = (msg.len() as u64).wrapping_mul(8);
    m.push(0x80);
    while m.len() % 64 != 56 {
        m.push(0);
    }
    m.extend_from_slice(&bitlen.to_le_bytes());
    for chunk in m.chunks(64) {
        let w: Vec<u32> = chunk.chunks(4).map(|c| u32::from_le_bytes([c[0], c[1], c[2], c[3]])).collect();
        let (mut a, mut b, mut c, mut d) = (a0, b0, c0, d0);
        for i in 0..64 {
            let (mut f, g);
            if i < 16 {
                f = (b & c) | (!b & d);
                g = i;
            } else if i < 32 {
                f = (d & b) | (!d & c);
                g = (5 * i + 1) % 16;
            } else if i < 48 {
                f = b ^ c ^ d;
                g = (3 * i + 5) % 16;
            } else {
                f = c ^ (b | !d);
                g = (7 * i) % 16;
            }
            f = f.wrapping_add(a).wrapping_add(k[i]).wrapping_add(w[g]);
            a = d;
            d = c;
            c = b;
            b = b.wrapping_add(f.rotate_left(s[i]));
        }
        a0 = a0.wrapping_add(a);
        b0 = b0.wrapping_add(b);
        c0 = c0.wrapping_add(c);
        d0 = d0.wrapping_add(d);
    }
    let mut out = [0u8; 16];
    out[0..4].copy_from_slice(&a0.to_le_bytes());
    out[4..8].copy_from_slice(&b0.to_le_bytes());
    out[8..12].copy_from_slice(&c0.to_le_bytes());
    out[12..16].copy_from_slice(&d0.to_le_bytes());
    out
}

// ---------------------------------------------------------------- SHA-2
fn primes(n: usize) -> Vec<u64> {
    let mut v = Vec::new();
    let mut c = 2u64;
    while v.len() < n {
        if (2..c).take_while(|d| d * d <= c).all(|d| c % d != 0) {
            v.push(c);
        }
        c += 1;
    }
    v
}

/// floor(frac(p^(1/k)) * 2^bits) computed with integer arithmetic (u128 Newton-free bisection)
fn frac_root(p: u64, k: u32, bits: u32) -> u64 {
    // find largest x with x^k <= p * 2^(k*bits)
    // use big integer via u128 is not enough for k=3,bits=64 (p*2^192); do bisection with 256-bit helper
    // represent numbers as [u64;5] little-endian
    fn mul(a: &[u64; 5], b: &[u64; 5]) -> Option<[u64; 5]> {
        let mut r = [0u128; 10];
        for i in 0..5 {
            for j in 0..5 {
                if a[i] == 0 || b[j] == 0 {
                    continue;
                }
                let p = a[i] as u128 * b[j] as u128;
                let mut k = i + j;
                let mut carry = p;
                while carry > 0 {
                    if k >= 10 {
                        return None;
                    }
                    let s = r[k] + (carry & 0xFFFF_FFFF_FFFF_FFFF);
                    r[k] = s & 0xFFFF_FFFF_FFFF_FFFF;
                    carry = (carry >> 64) + (s >> 64);
                    k += 1;
                }
            }
        }
        if r[5..].iter().any(|x| *x != 0) {
            return None;
        }
        Some([r[0] as u64, r[1] as u64, r[2] as u64, r[3] as u64, r[4] as u64])
    }
    fn le(a: &[u64; 5], b: &[u64; 5]) -> bool {
        for i in (0..5).rev() {
            if a[i] != b[i] {
                return a[i] < b[i];
            }
        }
        true
    }
    // target = p << (k*bits)
    let sh = (k * bits) as usize;
    let mut target = [0u64; 5];
    let w = sh / 64;
    let b = sh % 64;
    target[w] = p << b;
    if b != 0 && w + 1 < 5 {
        target[w + 1] = p >> (64 - b);
    }
    // x < 2^(bits+8)
    let mut lo: u128 = 0;
    let mut hi: u128 = 1u128 << (bits + 8);
    while lo + 1 < hi {
        let mid = (lo + hi) / 2;
        let x = [mid as u64, (mid >> 64) as u64, 0, 0, 0];
        let mut pw = x;
        let mut ok = true;
        for _ in 1..k {
            match mul(&pw, &x) {
                Some(v) => pw = v,
                None => {
                    ok = false;
                    break;
                }
            }
        }
        if ok && le(&pw, &target) {
            lo = mid;
        } else {
            hi = mid;
        }
    }
    (lo & ((1u128 << bits) - 1)) as u64
}

fn k256() -> &'static (Vec<u32>, Vec<u32>) {
    static C: std::sync::OnceLock<(Vec<u32>, Vec<u32>)> = std::sync::OnceLock::new();
    C.get_or_init(|| {
        let pr = primes(64);
        (pr.iter().map(|p| frac_root(*p, 3, 32) as u32).collect(), pr[..8].iter().map(|p| frac_root(*p, 2, 32) as u32).collect())
    })
}

pub fn sha256(msg: &[u8]) -> [u8; 32] {
    let (k, h0) = k256();
    let mut h: Vec<u32> = h0.clone();
    let mut m = msg.to_vec();
    let bitlen = (msg.len() as u64) * 8;
    m.push(0x80);
    while m.len() % 64 != 56 {
        m.push(0);
    }
    m.extend_from_slice(&bitlen.to_be_bytes());
    for chunk in m.chunks(64) {
        let mut w = [0u32; 64];
        for i in 0..16 {
            w[i] = u32::from_be_bytes([chunk[4 * i], chunk[4 * i + 1], chunk[4 * i + 2], chunk[4 * i + 3]]);
        }
        for i in 16..64 {
            let s0 = w[i - 15].rotate_right(7) ^ w[i - 15].rotate_right(18) ^ (w[i - 15] >> 3);
            let s1 = w[i - 2].rotate_right(17) ^ w[i - 2].rotate_right(19) ^ (w[i - 2] >> 10);
            w[i] = w[i - 16].wrapping_add(s0).wrapping_add(w[i - 7]).wrapping_add(s1);
        }
        let mut v: [u32; 8] = [h[0], h[1], h[2], h[3], h[4], h[5], h[6], h[7]];
        for i in 0..64 {
            let s1 = v[4].rotate_right(6) ^ v[4].rotate_right(11) ^ v[4].rotate_right(25);
            let ch = (v[4] & v[5]) ^ (!v[4] & v[6]);
            let t1 = v[7].wrapping_add(s1).wrapping_add(ch).wrapping_add(k[i]).wrapping_add(w[i]);
            let s0 = v[0].rotate_right(2) ^ v[0].rotate_right(13) ^ v[0].rotate_right(22);
            let maj = (v[0] & v[1]) ^ (v[0] & v[2]) ^ (v[1] & v[2]);
            let t2 = s0.wrapping_add(maj);
            v = [t1.wrapping_add(t2), v[0], v[1], v[2], v[3].wrapping_add(t1), v[4], v[5], v[6]];
        }
        for i in 0..8 {
            h[i] = h[i].wrapping_add(v[i]);
        }
    }
    let mut out = [0u8; 32];
    for i in 0..8 {
        out[4 * i..4 * i + 4].copy_from_slice(&h[i].to_be_bytes());
    }
    out
}

fn sha512_core(msg: &[u8], iv: [u64; 8]) -> [u64; 8] {
    static K: std::sync::OnceLock<Vec<u64>> = std::sync::OnceLock::new();
    let k = K.get_or_init(|| primes(80).iter().map(|p| frac_root(*p, 3, 64)).collect());
    let mut h = iv;
    let mut m = msg.to_vec();
    let bitlen = (msg.len() as u128) * 8;
    m.push(0x80);
    while m.len() % 128 != 112 {
        m.push(0);
    }
    m.extend_from_slice(&bitlen.to_be_bytes());
    for chunk in m.chunks(128) {
        let mut w = [0u64; 80];
        for i in 0..16 {
            let mut b = [0u8; 8];
            b.copy_from_slice(&chunk[8 * i..8 * i + 8]);
            w[i] = u64::from_be_bytes(b);
        }
        for i in 16..80 {
            let s0 = w[i - 15].rotate_right(1) ^ w[i - 15].rotate_right(8) ^ (w[i - 15] >> 7);
            let s1 = w[i - 2].rotate_right(19) ^ w[i - 2].rotate_right(61) ^ (w[i - 2] >> 6);
            w[i] = w[i - 16].wrapping_add(s0).wrapping_add(w[i - 7]).wrapping_add(s1);
        }
        let mut v = h;
        for i in 0..80 {
            let s1 = v[4].rotate_right(14) ^ v[4].rotate_right(18) ^ v[4].rotate_right(41);
            let ch = (v[4] & v[5]) ^ (!v[4] & v[6]);
            let t1 = v[7].wrapping_add(s1).wrapping_add(ch).wrapping_add(k[i]).wrapping_add(w[i]);
            let s0 = v[0].rotate_right(28) ^ v[0].rotate_right(34) ^ v[0].rotate_right(39);
            let maj = (v[0] & v[1]) ^ (v[0] & v[2]) ^ (v[1] & v[2]);
            let t2 = s0.wrapping_add(maj);
            v = [t1.wrapping_add(t2), v[0], v[1], v[2], v[3].wrapping_add(t1), v[4], v[5], v[6]];
        }
        for i in 0..8 {
            h[i] = h[i].wrapping_add(v[i]);
        }
    }
    h
}

fn iv512() -> &'static ([u64; 8], [u64; 8]) {
    static C: std::sync::OnceLock<([u64; 8], [u64; 8])> = std::sync::OnceLock::new();
    C.get_or_init(|| {
        let pr = primes(16);
        let mut a = [0u64; 8];
        let mut b = [0u64; 8];
        for i in 0..8 {
            a[i] = frac_root(pr[i], 2, 64);
            b[i] = frac_root(pr[8 + i], 2, 64);
        }
        (a, b)
    })
}

pub fn sha512(msg: &[u8]) -> [u8; 64] {
    let iv = iv512().0;
    let h = sha512_core(msg, iv);
    let mut out = [0u8; 64];
    for i in 0..8 {
        out[8 * i..8 * i + 8].copy_from_slice(&h[i].to_be_bytes());
    }
    out
}

pub fn sha384(msg: &[u8]) -> [u8; 48] {
    // IV: fractional parts of the square roots of the 9th through 16th primes
    let iv = iv512().1;
    let h = sha512_core(msg, iv);
    let mut out = [0u8; 48];
    for i in 0..6 {
        out[8 * i..8 * i + 8].copy_from_slice(&h[i].to_be_bytes());
    }
    out
}

// ---------------------------------------------------------------- AES
fn gmul(mut a: u8, mut b: u8) -> u8 {
    let mut p = 0u8;
    for _ in 0..8 {
        if b & 1 != 0 {
            p ^= a;
        }
        let hi = a & 0x80;
        a <<= 1;
        if hi != 0 {
            a ^= 0x1b;
        }
        b >>= 1;
    }
    p
}

fn sboxes() -> ([u8; 256], [u8; 256]) {
    static C: std::sync::OnceLock<([u8; 256], [u8; 256])> = std::sync::OnceLock::new();
    *C.get_or_init(sboxes_compute)
}

fn sboxes_compute() -> ([u8; 256], [u8; 256]) {
    let mut s = [0u8; 256];
    let mut inv = [0u8; 256];
    for x in 0..256u32 {
        let x = x as u8;
        // multiplicative inverse in GF(2^8)
        let mut i = 0u8;
        if x != 0 {
            for c in 1..=255u8 {
                if gmul(x, c) == 1 {
                    i = c;
                    break;
                }
            }
        }
        let mut y = i;
        let mut r = i;
        for _ in 0..4 {
            r = r.rotate_left(1);
            y ^= r;
        }
        y ^= 0x63;
        s[x as usize] = y;
        inv[y as usize] = x;
    }
    (s, inv)
}

pub struct Aes {
    rk: Vec<[u8; 16]>,
    s: [u8; 256],
    si: [u8; 256],
}

impl Aes {
    pub fn new(key: &[u8]) -> Option<Aes> {
        let nk = match key.len() {
            16 => 4,
            24 => 6,
            32 => 8,
            _ => return None,
        };
        let (s, si) = sboxes();
        let nr = nk + 6;
        let mut w: Vec<[u8; 4]> = key.chunks(4).map(|c| [c[0], c[1], c[2], c[3]]).collect();
        let mut rcon = 1u8;
        for i in nk..4 * (nr + 1) {
            let mut t = w[i - 1];
            if i % nk == 0 {
                t = [s[t[1] as usize] ^ rcon, s[t[2] as usize], s[t[3] as usize], s[t[0] as usize]];
                rcon = gmul(rcon, 2);
            } else if nk > 6 && i % nk == 4 {
                t = [s[t[0] as usize], s[t[1] as usize], s[t[2] as usize], s[t[3] as usize]];
            }
            let p = w[i - nk];
            w.push([p[0] ^ t[0], p[1] ^ t[1], p[2] ^ t[2], p[3] ^ t[3]]);
        }
        let rk = w
            .chunks(4)
            .map(|c| {
                let mut b = [0u8; 16];
                for (i, col) in c.iter().enumerate() {
                    b[4 * i..4 * i + 4].copy_from_slice(col);
                }
                b
            })
            .collect();
        Some(Aes { rk, s, si })
    }

    pub fn encrypt_block(&self, b: &mut [u8; 16]) {
        let nr = self.rk.len() - 1;
        xor16(b, &self.rk[0]);
        for r in 1..=nr {
            for x in b.iter_mut() {
                *x = self.s[*x as usize];
            }
            // shift rows (state is column-major: b[4c + r])
            let t = *b;
            for c in 0..4 {
                for row in 0..4 {
                    b[4 * c + row] = t[4 * ((c + row) % 4) + row];
                }
            }
            if r != nr {
                for c in 0..4 {
                    let a = [b[4 * c], b[4 * c + 1], b[4 * c + 2], b[4 * c + 3]];
                    b[4 * c] = gmul(a[0], 2) ^ gmul(a[1], 3) ^ a[2] ^ a[3];
                    b[4 * c + 1] = a[0] ^ gmul(a[1], 2) ^ gmul(a[2], 3) ^ a[3];
                    b[4 * c + 2] = a[0] ^ a[1] ^ gmul(a[2], 2) ^ gmul(a[3], 3);
                    b[4 * c + 3] = gmul(a[0], 3) ^ a[1] ^ a[2] ^ gmul(a[3], 2);
                }
            }
            xor16(b, &self.rk[r]);
        }
    }

    pub fn decrypt_block(&self, b: &mut [u8; 16]) {
        let nr = self.rk.len() - 1;
        xor16(b, &self.rk[nr]);
        for r in (0..nr).rev() {
            // inverse shift rows
            let t = *b;
            for c in 0..4 {
                for row in 0..4 {
                    b[4 * ((c + row) % 4) + row] = t[4 * c + row];
                }
            }
            for x in b.iter_mut() {
                *x = self.si[*x as usize];
            }
            xor16(b, &self.rk[r]);
            if r != 0 {
                for c in 0..4 {
                    let a = [b[4 * c], b[4 * c + 1], b[4 * c + 2], b[4 * c + 3]];
                    b[4 * c] = gmul(a[0], 14) ^ gmul(a[1], 11) ^ gmul(a[2], 13) ^ gmul(a[3], 9);
                    b[4 * c + 1] = gmul(a[0], 9) ^ gmul(a[1], 14) ^ gmul(a[2], 11) ^ gmul(a[3], 13);
                    b[4 * c + 2] = gmul(a[0], 13) ^ gmul(a[1], 9) ^ gmul(a[2], 14) ^ gmul(a[3], 11);
                    b[4 * c + 3] = gmul(a[0], 11) ^ gmul(a[1], 13) ^ gmul(a[2], 9) ^ gmul(a[3], 14);
                }
            }
        }
    }
}

fn xor16(a: &mut [u8; 16], b: &[u8; 16]) {
    for i in 0..16 {
        a[i] ^= b[i];
    }
}

/// AES-CBC without padding; data length must be a multiple of 16.
pub fn cbc_encrypt_nopad(key: &[u8], iv: &[u8; 16], data: &[u8]) -> Option<Vec<u8>> {
    if data.len() % 16 != 0 {
        return None;
    }
    let aes = Aes::new(key)?;
    let mut prev = *iv;
    let mut out = Vec::with_capacity(data.len());
    for c in data.chunks(16) {
        let mut b = [0u8; 16];
        b.copy_from_slice(c);
        xor16(&mut b, &prev);
        aes.encrypt_block(&mut b);
        out.extend_from_slice(&b);
        prev = b;
    }
    Some(out)
}

pub fn cbc_decrypt_nopad(key: &[u8], iv: &[u8; 16], data: &[u8]) -> Option<Vec<u8>> {
    if data.len() % 16 != 0 {
        return None;
    }
    let aes = Aes::new(key)?;
    let mut prev = *iv;
    let mut out = Vec::with_capacity(data.len());
    for c in data.chunks(16) {
        let mut b = [0u8; 16];
        b.copy_from_slice(c);
        let ct = b;
        aes.decrypt_block(&mut b);
        xor16(&mut b, &prev);
        out.extend_from_slice(&b);
        prev = ct;
    }
    Some(out)
}

pub fn pkcs7_pad(data: &[u8]) -> Vec<u8> {
    let n = 16 - data.len() % 16;
    let mut v = data.to_vec();
    v.extend(std::iter::repeat(n as u8).take(n));
    v
}

pub fn pkcs7_unpad(data: &[u8]) -> Option<Vec<u8>> {
    let n = *data.last()? as usize;
    if n == 0 || n > 16 || n > data.len() {
        return None;
    }
    if !data[data.len() - n..].iter().all(|b| *b as usize == n) {
        return None;
    }
    Some(data[..data.len() - n].to_vec())
}

pub fn cbc_encrypt(key: &[u8], iv: &[u8; 16], data: &[u8]) -> Option<Vec<u8>> {
    cbc_encrypt_nopad(key, iv, &pkcs7_pad(data))
}

pub fn cbc_decrypt(key: &[u8], iv: &[u8; 16], data: &[u8]) -> Option<Vec<u8>> {
    if data.is_empty() {
        return None;
    }
    pkcs7_unpad(&cbc_decrypt_nopad(key, iv, data)?)
}

pub fn ecb_encrypt_block(key: &[u8], block: &[u8; 16]) -> Option<[u8; 16]> {
    let aes = Aes::new(key)?;
    let mut b = *block;
    aes.encrypt_block(&mut b);
    Some(b)
}

pub fn ecb_decrypt_block(key: &[u8], block: &[u8; 16]) -> Option<[u8; 16]> {
    let aes = Aes::new(key)?;
    let mut b = *block;
    aes.decrypt_block(&mut b);
    Some(b)
}

// ---------------------------------------------------------------- RC4
pub fn rc4(key: &[u8], data: &[u8]) -> Vec<u8> {
    assert!(!key.is_empty());
    let mut s: Vec<u8> = (0..=255u8).collect();
    let mut j = 0u8;
    for i in 0..256 {
        j = j.wrapping_add(s[i]).wrapping_add(key[i % key.len()]);
        s.swap(i, j as usize);
    }
    let (mut i, mut j) = (0u8, 0u8);
    data.iter()
        .map(|b| {
            i = i.wrapping_add(1);
            j = j.wrapping_add(s[i as usize]);
            s.swap(i as usize, j as usize);
            b ^ s[s[i as usize].wrapping_add(s[j as usize]) as usize]
        })
        .collect()
}

fn hex(b: &[u8]) -> String {
    b.iter().map(|x| format!("{x:02x}")).collect()
}

/// Published test vectors; any mismatch means the harness is broken (exit 2 by the caller).
pub fn self_test() -> Result<(), String> {
    let chk = |name: &str, got: String, exp: &str| if got == exp { Ok(()) } else { Err(format!("{name}: got {got}, expected {exp}")) };
    chk("md5('')", hex(&md5(b"")), "d41d8cd98f00b204e9800998ecf8427e")?;
    chk("md5('abc')", hex(&md5(b"abc")), "900150983cd24fb0d6963f7d28e17f72")?;
    chk("md5(62)", hex(&md5(b"ABCDEFGHIJKLMNOPQRSTUVWXYZabcdefghijklmnopqrstuvwxyz0123456789")), "d174ab98d277d9f5a5611c2c9f419d9f")?;
    chk("sha256('abc')", hex(&sha256(b"abc")), "ba7816bf8f01cfea414140de5dae2223b00361a396177a9cb410ff61f20015ad")?;
    chk("sha256('')", hex(&sha256(b"")), "e3b0c44298fc1c149afbf4c8996fb92427ae41e4649b934ca495991b7852b855")?;
    chk(
        "sha384('abc')",
        hex(&sha384(b"abc")),
        "cb00753f45a35e8bb5a03d699ac65007272c32ab0eded1631a8b605a43ff5bed8086072ba1e7cc2358baeca134c825a7",
    )?;
    chk(
        "sha512('abc')",
        hex(&sha512(b"abc")),
        "ddaf35a193617abacc417349ae20413112e6fa4e89a97ea20a9eeee64b55d39a2192992a274fc1a836ba3c23a3feebbd454d4423643ce80e2a9ac94fa54ca49f",
    )?;
    // FIPS-197 appendix C
    let pt: [u8; 16] = [0x00, 0x11, 0x22, 0x33, 0x44, 0x55, 0x66, 0x77, 0x88, 0x99, 0xaa, 0xbb, 0xcc, 0xdd, 0xee, 0xff];
    let k128: Vec<u8> = (0..16).collect();
    let k256: Vec<u8> = (0..32).collect();
    chk("aes128", hex(&ecb_encrypt_block(&k128, &pt).unwrap()), "69c4e0d86a7b0430d8cdb78070b4c55a")?;
    chk("aes256", hex(&ecb_encrypt_block(&k256, &pt).unwrap()), "8ea2b7ca516745bfeafc49904b496089")?;
    let ct = ecb_encrypt_block(&k256, &pt).unwrap();
    chk("aes256-dec", hex(&ecb_decrypt_block(&k256, &ct).unwrap()), &hex(&pt))?;
    let ct = ecb_encrypt_block(&k128, &pt).unwrap();
    chk("aes128-dec", hex(&ecb_decrypt_block(&k128, &ct).unwrap()), &hex(&pt))?;
    // NIST SP 800-38A F.2.1 CBC-AES128
    let key = [0x2b, 0x7e, 0x15, 0x16, 0x28, 0xae, 0xd2, 0xa6, 0xab, 0xf7, 0x15, 0x88, 0x09, 0xcf, 0x4f, 0x3c];
    let iv: [u8; 16] = core::array::from_fn(|i| i as u8);
    let p1 = [0x6b, 0xc1, 0xbe, 0xe2, 0x2e, 0x40, 0x9f, 0x96, 0xe9, 0x3d, 0x7e, 0x11, 0x73, 0x93, 0x17, 0x2a];
    chk("cbc128", hex(&cbc_encrypt_nopad(&key, &iv, &p1).unwrap()), "7649abac8119b246cee98e9b12e9197d")?;
    // RC4 (RFC 6229 / classic)
    chk("rc4 Key/Plaintext", hex(&rc4(b"Key", b"Plaintext")), "bbf316e8d940af0ad3")?;
    chk("rc4 Wiki/pedia", hex(&rc4(b"Wiki", b"pedia")), "1021bf0420")?;
    Ok(())
}
