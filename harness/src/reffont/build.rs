//! A tiny TrueType *builder* for generated fonts: simple, composite and nested composite glyphs,
//! components with offsets / scale / x-y scale / 2×2 transforms / point matching, hinting
//! instructions of arbitrary length, short and long `loca`, `hmtx` with a trailing
//! side-bearing-only run, cmap format 4 (delta and glyphIdArray segments) and/or 12.
//!
//! The model (`GenFont`) is plain data (serde) so that a failing font shrinks and replays.
//! `expected()` computes outlines / advances / cmap from the MODEL alone; calibration checks that
//! the reader in `super` reads the built bytes back to exactly that.
use super::*;
use serde::{Deserialize, Serialize};

#[derive(Clone, Debug, Serialize, Deserialize, PartialEq)]
pub enum Xf {
    None,
    Scale(i16),
    XY(i16, i16),
    TwoByTwo(i16, i16, i16, i16),
}

#[derive(Clone, Debug, Serialize, Deserialize, PartialEq)]
pub struct GenComp {
    pub gid: u16,
    pub dx: i16,
    pub dy: i16,
    pub xf: Xf,
    /// extra flag bits: USE_MY_METRICS, ROUND_XY_TO_GRID, OVERLAP_COMPOUND, UNSCALED_COMPONENT_OFFSET
    pub extra_flags: u16,
    pub force_words: bool,
    /// Some((sel_parent, sel_child)): use point matching when both sides have points
    pub anchor: Option<(u16, u16)>,
}

#[derive(Clone, Debug, Serialize, Deserialize, PartialEq)]
pub enum GenGlyph {
    Empty,
    Simple { contours: Vec<Vec<(i16, i16, bool)>>, instr: Vec<u8>, compact: bool },
    Composite { comps: Vec<GenComp>, instr: Vec<u8> },
}

#[derive(Clone, Debug, Serialize, Deserialize, PartialEq)]
pub struct GenFont {
    pub upem: u16,
    pub long_loca: bool,
    /// glyph alignment inside glyf: 2 or 4 for short loca, 1, 2 or 4 for long
    pub align: u8,
    pub glyphs: Vec<GenGlyph>,
    /// (advance, lsb) per glyph
    pub metrics: Vec<(u16, i16)>,
    /// numberOfHMetrics, 1..=numGlyphs; glyphs beyond it take the last advance
    pub n_hmetrics: u16,
    /// sorted by code point, unique, gid in 1..numGlyphs
    pub cmap: Vec<(u32, u16)>,
    /// 0: (3,1) format 4 · 1: (3,10) format 12 + (3,1) format 4 · 2: (0,3) format 4 ·
    /// 3: (3,10) format 12 only · 4: (1,0) format 6 decoy + (3,1) format 4 · 5: (0,4) format 12 + (0,3) format 4
    pub cmap_kind: u8,
    pub fmt4_glyph_array: bool,
    /// length of a private table appended to reach a given file size (subsetting thresholds)
    pub pad: u32,
}

pub struct Expected {
    pub outlines: Vec<Outline>,
    pub advances: Vec<u16>,
    pub lsbs: Vec<i16>,
    pub cmap: BTreeMap<u32, u16>,
}

fn xf_matrix(x: &Xf) -> [f64; 4] {
    let f = |v: i16| v as f64 / 16384.0;
    match *x {
        Xf::None => [1.0, 0.0, 0.0, 1.0],
        Xf::Scale(s) => [f(s), 0.0, 0.0, f(s)],
        Xf::XY(a, d) => [f(a), 0.0, 0.0, f(d)],
        Xf::TwoByTwo(a, b, c, d) => [f(a), f(b), f(c), f(d)],
    }
}

impl GenFont {
    pub fn num_glyphs(&self) -> usize {
        self.glyphs.len()
    }

    pub fn advance(&self, gid: usize) -> u16 {
        self.metrics[gid.min(self.n_hmetrics as usize - 1)].0
    }

    /// resolved anchor for component `ci` of composite `gid` given the points gathered so far
    fn resolve_anchor(anchor: Option<(u16, u16)>, parent_pts: usize, child_pts: usize) -> Option<(usize, usize)> {
        let (sp, sc) = anchor?;
        if parent_pts == 0 || child_pts == 0 {
            return None;
        }
        Some((((sp as usize) * parent_pts) >> 16, ((sc as usize) * child_pts) >> 16))
    }

    /// Outline from the model alone (the definition of composite glyphs in the glyf chapter).
    pub fn model_outline(&self, gid: usize, depth: usize) -> Outline {
        assert!(depth <= 40, "generated composite graph must be acyclic");
        match &self.glyphs[gid] {
            GenGlyph::Empty => Vec::new(),
            GenGlyph::Simple { contours, .. } => contours.iter().map(|c| c.iter().map(|&(x, y, on)| Pt { x: x as f64, y: y as f64, on }).collect()).collect(),
            GenGlyph::Composite { comps, .. } => {
                let mut out: Outline = Vec::new();
                for c in comps {
                    let child = self.model_outline(c.gid as usize, depth + 1);
                    let [a, b, cc, d] = xf_matrix(&c.xf);
                    let mut tr: Outline = child.iter().map(|ct| ct.iter().map(|p| Pt { x: a * p.x + cc * p.y, y: b * p.x + d * p.y, on: p.on }).collect()).collect();
                    let np: usize = out.iter().map(|c| c.len()).sum();
                    let nk: usize = tr.iter().map(|c| c.len()).sum();
                    let (e, f) = match Self::resolve_anchor(c.anchor, np, nk) {
                        Some((pi, ki)) => {
                            let pp = *out.iter().flatten().nth(pi).unwrap();
                            let kp = *tr.iter().flatten().nth(ki).unwrap();
                            (pp.x - kp.x, pp.y - kp.y)
                        }
                        None => (c.dx as f64, c.dy as f64),
                    };
                    for ct in &mut tr {
                        for p in ct.iter_mut() {
                            p.x += e;
                            p.y += f;
                        }
                    }
                    out.extend(tr);
                }
                out
            }
        }
    }

    pub fn expected(&self) -> Expected {
        let n = self.num_glyphs();
        Expected {
            outlines: (0..n).map(|g| self.model_outline(g, 0)).collect(),
            advances: (0..n).map(|g| self.advance(g)).collect(),
            lsbs: self.metrics.iter().map(|m| m.1).collect(),
            cmap: self
                .cmap
                .iter()
                .filter(|(c, _)| match self.cmap_kind {
                    0 | 2 | 4 => *c <= 0xFFFF, // BMP-only subtables cannot carry the others
                    _ => true,
                })
                .map(|&(c, g)| (c, g))
                .collect(),
        }
    }

    fn encode_simple(contours: &[Vec<(i16, i16, bool)>], instr: &[u8], compact: bool) -> Vec<u8> {
        let pts: Vec<(i16, i16, bool)> = contours.iter().flatten().copied().collect();
        let mut g = Vec::new();
        g.extend_from_slice(&(contours.len() as i16).to_be_bytes());
        let (mut x0, mut y0, mut x1, mut y1) = (0i16, 0i16, 0i16, 0i16);
        if let Some(&(x, y, _)) = pts.first() {
            (x0, y0, x1, y1) = (x, y, x, y);
        }
        for &(x, y, _) in &pts {
            x0 = x0.min(x);
            y0 = y0.min(y);
            x1 = x1.max(x);
            y1 = y1.max(y);
        }
        for v in [x0, y0, x1, y1] {
            g.extend_from_slice(&v.to_be_bytes());
        }
        let mut e = 0usize;
        for c in contours {
            e += c.len();
            g.extend_from_slice(&((e - 1) as u16).to_be_bytes());
        }
        g.extend_from_slice(&(instr.len() as u16).to_be_bytes());
        g.extend_from_slice(instr);
        let mut flags: Vec<u8> = Vec::new();
        let (mut xb, mut yb) = (Vec::new(), Vec::new());
        let (mut px, mut py) = (0i32, 0i32);
        for &(x, y, on) in &pts {
            let (dx, dy) = (x as i32 - px, y as i32 - py);
            px = x as i32;
            py = y as i32;
            let mut f = on as u8;
            if compact && dx == 0 {
                f |= 0x10;
            } else if compact && dx.abs() <= 255 {
                f |= 0x02 | if dx > 0 { 0x10 } else { 0 };
                xb.push(dx.unsigned_abs() as u8);
            } else {
                xb.extend_from_slice(&(dx as i16).to_be_bytes());
            }
            if compact && dy == 0 {
                f |= 0x20;
            } else if compact && dy.abs() <= 255 {
                f |= 0x04 | if dy > 0 { 0x20 } else { 0 };
                yb.push(dy.unsigned_abs() as u8);
            } else {
                yb.extend_from_slice(&(dy as i16).to_be_bytes());
            }
            flags.push(f);
        }
        if compact {
            let mut i = 0;
            while i < flags.len() {
                let mut r = 0;
                while i + r + 1 < flags.len() && flags[i + r + 1] == flags[i] && r < 255 {
                    r += 1;
                }
                if r >= 1 {
                    g.push(flags[i] | 0x08);
                    g.push(r as u8);
                } else {
                    g.push(flags[i]);
                }
                i += r + 1;
            }
        } else {
            g.extend_from_slice(&flags);
        }
        g.extend_from_slice(&xb);
        g.extend_from_slice(&yb);
        g
    }

    fn encode_composite(&self, gid: usize, comps: &[GenComp], instr: &[u8]) -> Vec<u8> {
        let mut g = Vec::new();
        g.extend_from_slice(&(-1i16).to_be_bytes());
        // bounding box of the flattened outline, clamped
        let o = self.model_outline(gid, 0);
        let cl = |v: f64| v.max(-32768.0).min(32767.0) as i16;
        let mut bb = [0i16; 4];
        let mut first = true;
        for p in o.iter().flatten() {
            let (x, y) = (cl(p.x.round()), cl(p.y.round()));
            if first {
                bb = [x, y, x, y];
                first = false;
            }
            bb = [bb[0].min(x), bb[1].min(y), bb[2].max(x), bb[3].max(y)];
        }
        for v in bb {
            g.extend_from_slice(&v.to_be_bytes());
        }
        // running point counts for anchors
        let mut parent_pts = 0usize;
        for (i, c) in comps.iter().enumerate() {
            let child_pts: usize = self.model_outline(c.gid as usize, 1).iter().map(|c| c.len()).sum();
            let anchor = Self::resolve_anchor(c.anchor, parent_pts, child_pts);
            let mut flags = c.extra_flags & (USE_MY_METRICS | ROUND_XY_TO_GRID | OVERLAP_COMPOUND | UNSCALED_COMPONENT_OFFSET);
            let (a1, a2): (i32, i32) = match anchor {
                Some((p, k)) => (p as i32, k as i32),
                None => {
                    flags |= ARGS_ARE_XY_VALUES;
                    (c.dx as i32, c.dy as i32)
                }
            };
            let words = c.force_words
                || match anchor {
                    Some(_) => a1 > 255 || a2 > 255,
                    None => !(-128..=127).contains(&a1) || !(-128..=127).contains(&a2),
                };
            if words {
                flags |= ARG_1_AND_2_ARE_WORDS;
            }
            match c.xf {
                Xf::None => {}
                Xf::Scale(_) => flags |= WE_HAVE_A_SCALE,
                Xf::XY(..) => flags |= WE_HAVE_AN_X_AND_Y_SCALE,
                Xf::TwoByTwo(..) => flags |= WE_HAVE_A_TWO_BY_TWO,
            }
            if i + 1 < comps.len() {
                flags |= MORE_COMPONENTS;
            } else if !instr.is_empty() {
                flags |= WE_HAVE_INSTRUCTIONS;
            }
            g.extend_from_slice(&flags.to_be_bytes());
            g.extend_from_slice(&c.gid.to_be_bytes());
            if words {
                g.extend_from_slice(&(a1 as u16).to_be_bytes());
                g.extend_from_slice(&(a2 as u16).to_be_bytes());
            } else {
                g.push(a1 as u8);
                g.push(a2 as u8);
            }
            match c.xf {
                Xf::None => {}
                Xf::Scale(s) => g.extend_from_slice(&s.to_be_bytes()),
                Xf::XY(a, d) => {
                    g.extend_from_slice(&a.to_be_bytes());
                    g.extend_from_slice(&d.to_be_bytes());
                }
                Xf::TwoByTwo(a, b, cc, d) => {
                    for v in [a, b, cc, d] {
                        g.extend_from_slice(&v.to_be_bytes());
                    }
                }
            }
            parent_pts += child_pts;
        }
        if !instr.is_empty() {
            g.extend_from_slice(&(instr.len() as u16).to_be_bytes());
            g.extend_from_slice(instr);
        }
        g
    }

    fn cmap_format4(pairs: &[(u32, u16)], glyph_array: bool) -> Vec<u8> {
        // segments of consecutive code points
        let mut segs: Vec<(u16, u16, Vec<u16>)> = Vec::new();
        for &(c, g) in pairs.iter().filter(|(c, _)| *c < 0xFFFF) {
            let c = c as u16;
            match segs.last_mut() {
                Some((_, e, gs)) if *e + 1 == c && (glyph_array || gs[gs.len() - 1] + 1 == g) => {
                    *e = c;
                    gs.push(g);
                }
                _ => segs.push((c, c, vec![g])),
            }
        }
        let n = segs.len() + 1;
        let mut end = Vec::new();
        let mut start = Vec::new();
        let mut delta = Vec::new();
        let mut ro = Vec::new();
        let mut arr: Vec<u16> = Vec::new();
        for (i, (s, e, gs)) in segs.iter().enumerate() {
            end.push(*e);
            start.push(*s);
            if glyph_array {
                delta.push(0u16);
                // offset from this idRangeOffset word to the glyph's slot
                ro.push((2 * (n - i) + 2 * arr.len()) as u16);
                arr.extend_from_slice(gs);
            } else {
                delta.push(gs[0].wrapping_sub(*s));
                ro.push(0);
            }
        }
        end.push(0xFFFF);
        start.push(0xFFFF);
        delta.push(1);
        ro.push(0);
        let mut t = Vec::new();
        let len = 16 + 8 * n + 2 * arr.len();
        let es = (usize::BITS - 1 - n.leading_zeros()) as u16;
        for v in [4u16, len as u16, 0, (2 * n) as u16, 2 * (1 << es), es, (2 * n) as u16 - 2 * (1 << es)] {
            t.extend_from_slice(&v.to_be_bytes());
        }
        for v in &end {
            t.extend_from_slice(&v.to_be_bytes());
        }
        t.extend_from_slice(&[0, 0]);
        for v in start.iter().chain(&delta).chain(&ro).chain(&arr) {
            t.extend_from_slice(&v.to_be_bytes());
        }
        t
    }

    fn cmap_format12(pairs: &[(u32, u16)]) -> Vec<u8> {
        let mut groups: Vec<(u32, u32, u32)> = Vec::new();
        for &(c, g) in pairs {
            match groups.last_mut() {
                Some((s, e, sg)) if *e + 1 == c && *sg + (c - *s) == g as u32 => *e = c,
                _ => groups.push((c, c, g as u32)),
            }
        }
        let mut t = Vec::new();
        t.extend_from_slice(&12u16.to_be_bytes());
        t.extend_from_slice(&0u16.to_be_bytes());
        t.extend_from_slice(&((16 + 12 * groups.len()) as u32).to_be_bytes());
        t.extend_from_slice(&0u32.to_be_bytes());
        t.extend_from_slice(&(groups.len() as u32).to_be_bytes());
        for (s, e, g) in groups {
            for v in [s, e, g] {
                t.extend_from_slice(&v.to_be_bytes());
            }
        }
        t
    }

    fn cmap_format6(pairs: &[(u32, u16)]) -> Vec<u8> {
        // Macintosh Roman decoy: codes 0x20..0x7F taken from the Unicode map where present
        let first = 0x20u16;
        let cnt = 0x60u16;
        let mut t = Vec::new();
        for v in [6u16, 10 + 2 * cnt, 0, first, cnt] {
            t.extend_from_slice(&v.to_be_bytes());
        }
        for c in first..first + cnt {
            let g = pairs.iter().find(|(cp, _)| *cp == c as u32).map(|p| p.1).unwrap_or(0);
            t.extend_from_slice(&g.to_be_bytes());
        }
        t
    }

    pub fn build_cmap_table(&self) -> Vec<u8> {
        self.build_cmap()
    }

    fn build_cmap(&self) -> Vec<u8> {
        let bmp: Vec<(u32, u16)> = self.cmap.iter().copied().filter(|(c, _)| *c <= 0xFFFF).collect();
        let subs: Vec<(u16, u16, Vec<u8>)> = match self.cmap_kind {
            0 => vec![(3, 1, Self::cmap_format4(&bmp, self.fmt4_glyph_array))],
            1 => vec![(3, 1, Self::cmap_format4(&bmp, self.fmt4_glyph_array)), (3, 10, Self::cmap_format12(&self.cmap))],
            2 => vec![(0, 3, Self::cmap_format4(&bmp, self.fmt4_glyph_array))],
            3 => vec![(3, 10, Self::cmap_format12(&self.cmap))],
            4 => vec![(1, 0, Self::cmap_format6(&bmp)), (3, 1, Self::cmap_format4(&bmp, self.fmt4_glyph_array))],
            _ => vec![(0, 3, Self::cmap_format4(&bmp, self.fmt4_glyph_array)), (0, 4, Self::cmap_format12(&self.cmap))],
        };
        let mut t = Vec::new();
        t.extend_from_slice(&0u16.to_be_bytes());
        t.extend_from_slice(&(subs.len() as u16).to_be_bytes());
        let mut off = 4 + 8 * subs.len();
        for (p, e, b) in &subs {
            t.extend_from_slice(&p.to_be_bytes());
            t.extend_from_slice(&e.to_be_bytes());
            t.extend_from_slice(&(off as u32).to_be_bytes());
            off += b.len();
        }
        for (_, _, b) in &subs {
            t.extend_from_slice(b);
        }
        t
    }

    pub fn build(&self) -> Vec<u8> {
        let n = self.num_glyphs();
        assert!(n >= 1 && self.metrics.len() == n && self.n_hmetrics >= 1 && self.n_hmetrics as usize <= n);
        let align = if self.long_loca { self.align.max(1) as usize } else { (self.align.max(2) as usize + 1) & !1 };
        let mut glyf = Vec::new();
        let mut loca = vec![0u32];
        let (mut max_pts, mut max_ct, mut max_instr, mut max_comp_el) = (0usize, 0usize, 0usize, 0usize);
        for (gid, g) in self.glyphs.iter().enumerate() {
            let b = match g {
                GenGlyph::Empty => Vec::new(),
                GenGlyph::Simple { contours, instr, compact } => {
                    max_pts = max_pts.max(contours.iter().map(|c| c.len()).sum());
                    max_ct = max_ct.max(contours.len());
                    max_instr = max_instr.max(instr.len());
                    Self::encode_simple(contours, instr, *compact)
                }
                GenGlyph::Composite { comps, instr } => {
                    max_comp_el = max_comp_el.max(comps.len());
                    max_instr = max_instr.max(instr.len());
                    self.encode_composite(gid, comps, instr)
                }
            };
            glyf.extend_from_slice(&b);
            while glyf.len() % align != 0 {
                glyf.push(0);
            }
            loca.push(glyf.len() as u32);
        }
        assert!(self.long_loca || glyf.len() <= 0x1FFFE, "short loca cannot address {} bytes", glyf.len());
        let mut loca_t = Vec::new();
        for &o in &loca {
            if self.long_loca {
                loca_t.extend_from_slice(&o.to_be_bytes());
            } else {
                loca_t.extend_from_slice(&((o / 2) as u16).to_be_bytes());
            }
        }
        let nh = self.n_hmetrics as usize;
        let mut hmtx = Vec::new();
        for (i, &(a, l)) in self.metrics.iter().enumerate() {
            if i < nh {
                hmtx.extend_from_slice(&a.to_be_bytes());
            }
            hmtx.extend_from_slice(&l.to_be_bytes());
        }
        let mut head = Vec::new();
        head.extend_from_slice(&0x0001_0000u32.to_be_bytes()); // version
        head.extend_from_slice(&0x0001_0000u32.to_be_bytes()); // fontRevision
        head.extend_from_slice(&0u32.to_be_bytes()); // checkSumAdjustment (filled below)
        head.extend_from_slice(&0x5F0F_3CF5u32.to_be_bytes());
        head.extend_from_slice(&0x000Bu16.to_be_bytes()); // flags
        head.extend_from_slice(&self.upem.to_be_bytes());
        head.extend_from_slice(&[0; 16]); // created, modified
        for v in [-1000i16, -1000, 3000, 3000] {
            head.extend_from_slice(&v.to_be_bytes());
        }
        head.extend_from_slice(&0u16.to_be_bytes()); // macStyle
        head.extend_from_slice(&8u16.to_be_bytes()); // lowestRecPPEM
        head.extend_from_slice(&2i16.to_be_bytes()); // fontDirectionHint
        head.extend_from_slice(&(self.long_loca as i16).to_be_bytes());
        head.extend_from_slice(&0i16.to_be_bytes()); // glyphDataFormat
        assert_eq!(head.len(), 54);
        let mut hhea = Vec::new();
        hhea.extend_from_slice(&0x0001_0000u32.to_be_bytes());
        for v in [800i16, -200, 90] {
            hhea.extend_from_slice(&v.to_be_bytes());
        }
        hhea.extend_from_slice(&self.metrics.iter().map(|m| m.0).max().unwrap_or(0).to_be_bytes());
        for v in [-100i16, -100, 3000, 1, 0, 0, 0, 0, 0, 0, 0] {
            hhea.extend_from_slice(&v.to_be_bytes());
        }
        hhea.extend_from_slice(&self.n_hmetrics.to_be_bytes());
        assert_eq!(hhea.len(), 36);
        let mut maxp = Vec::new();
        maxp.extend_from_slice(&0x0001_0000u32.to_be_bytes());
        for v in [n as u16, max_pts as u16, max_ct as u16, 4000, 400, 2, 0, 16, 8, 0, 64, max_instr as u16, max_comp_el as u16, 8] {
            maxp.extend_from_slice(&v.to_be_bytes());
        }
        assert_eq!(maxp.len(), 32);
        let mut post = Vec::new();
        post.extend_from_slice(&0x0003_0000u32.to_be_bytes());
        post.extend_from_slice(&[0; 28]);
        let name: Vec<u8> = vec![0, 0, 0, 0, 0, 6];
        let mut tables: Vec<([u8; 4], Vec<u8>)> = vec![
            (*b"cmap", self.build_cmap()),
            (*b"glyf", glyf),
            (*b"head", head),
            (*b"hhea", hhea),
            (*b"hmtx", hmtx),
            (*b"loca", loca_t),
            (*b"maxp", maxp),
            (*b"name", name),
            (*b"post", post),
        ];
        if self.pad > 0 {
            // private table; bytes are a cheap deterministic pattern
            tables.push((*b"zpad", (0..self.pad).map(|i| (i.wrapping_mul(2654435761) >> 24) as u8).collect()));
        }
        assemble_sfnt(0x0001_0000, tables)
    }
}

/// Writes an sfnt with a sorted directory, 4-byte aligned tables, table checksums and
/// head.checkSumAdjustment as the specification prescribes.
pub fn assemble_sfnt(version: u32, mut tables: Vec<([u8; 4], Vec<u8>)>) -> Vec<u8> {
    tables.sort_by(|a, b| a.0.cmp(&b.0));
    let n = tables.len();
    let es = (usize::BITS - 1 - n.leading_zeros()) as u16;
    let mut out = Vec::new();
    out.extend_from_slice(&version.to_be_bytes());
    for v in [n as u16, 16 * (1 << es), es, (16 * n) as u16 - 16 * (1 << es)] {
        out.extend_from_slice(&v.to_be_bytes());
    }
    let mut off = 12 + 16 * n;
    let mut head_off = None;
    for (tag, b) in &tables {
        out.extend_from_slice(tag);
        out.extend_from_slice(&table_checksum(b).to_be_bytes());
        out.extend_from_slice(&(off as u32).to_be_bytes());
        out.extend_from_slice(&(b.len() as u32).to_be_bytes());
        if tag == b"head" {
            head_off = Some(off);
        }
        off += (b.len() + 3) & !3;
    }
    for (_, b) in &tables {
        out.extend_from_slice(b);
        while out.len() % 4 != 0 {
            out.push(0);
        }
    }
    if let Some(h) = head_off {
        let adj = 0xB1B0_AFBAu32.wrapping_sub(table_checksum(&out));
        out[h + 8..h + 12].copy_from_slice(&adj.to_be_bytes());
    }
    out
}

/// Reads a built font back with the reader and compares with the model. Err = harness broken.
pub fn calibrate_roundtrip(f: &GenFont) -> Result<(), String> {
    let bytes = f.build();
    let exp = f.expected();
    let sf = Sfnt::parse(&bytes).map_err(|e| format!("{e:?}"))?;
    let di = sf.directory_issues();
    if !di.is_empty() {
        return Err(format!("builder output has directory issues: {di:?}"));
    }
    let tt = TtFont::parse(&bytes).map_err(|e| format!("{e:?}"))?;
    if tt.num_glyphs as usize != f.num_glyphs() || (tt.loc_format == 1) != f.long_loca || tt.upem != f.upem {
        return Err("maxp/head read back differently".into());
    }
    for g in 0..f.num_glyphs() {
        let o = tt.flatten(g as u16).map_err(|e| format!("glyph {g}: {e:?}"))?;
        if o != exp.outlines[g] {
            return Err(format!("glyph {g}: outline read back differs from the model: {o:?} vs {:?}", exp.outlines[g]));
        }
        if tt.advance(g as u16).map_err(|e| format!("{e:?}"))? != exp.advances[g] || tt.lsb(g as u16).map_err(|e| format!("{e:?}"))? != exp.lsbs[g] {
            return Err(format!("glyph {g}: metrics read back differ"));
        }
        // structure: component lists
        if let (GenGlyph::Composite { comps, instr }, Ok(Glyph::Composite { comps: rc, instr_len, .. })) = (&f.glyphs[g], tt.glyph(g as u16)) {
            if comps.len() != rc.len() || comps.iter().zip(&rc).any(|(a, b)| a.gid != b.gid || xf_matrix(&a.xf) != b.m) || instr.len() != instr_len {
                return Err(format!("glyph {g}: component list read back differs"));
            }
        }
        if let (GenGlyph::Simple { instr, .. }, Ok(Glyph::Simple { instr_len, .. })) = (&f.glyphs[g], tt.glyph(g as u16)) {
            if instr.len() != instr_len {
                return Err(format!("glyph {g}: instruction length read back differs"));
            }
        }
    }
    let cm = unicode_cmap(&tt.sfnt).map_err(|e| format!("{e:?}"))?;
    if cm != exp.cmap {
        return Err(format!("cmap read back differs: {} vs {} entries", cm.len(), exp.cmap.len()));
    }
    Ok(())
}
