//! A small OpenType/CFF *builder* for generated fonts (name-keyed or CID-keyed CFF inside an sfnt
//! wrapper): charstrings are produced from an abstract model (width, stem hints, hint masks,
//! sub-paths made of line / curve / flex segments and references to shared fragments), encoded with
//! the whole Type 2 operator repertoire, and then *subroutinised* in several styles (whole operator
//! runs, operands only, operator only, tail with endchar, nested; local and global, bias 107 and 1131).
//!
//! `CffSpec::expected()` computes absolute paths and advances from the MODEL alone; calibration checks
//! that the CFF reader + Type 2 interpreter in `super::cff` reads the built bytes back to exactly that.
use super::build::assemble_sfnt;
use super::cff::{Cff, Seg};
use super::*;
use serde::{Deserialize, Serialize};

/// all coordinates are raw 16.16 values (value = raw / 65536)
#[derive(Clone, Debug, Serialize, Deserialize, PartialEq)]
pub enum SegSpec {
    Line(i32, i32),
    Curve([i32; 6]),
    /// dx1 dx2 dy2 dx3 dx4 dx5 dx6
    HFlex([i32; 7]),
    /// 6 relative points + flex depth
    Flex([i32; 13]),
    /// dx1 dy1 dx2 dy2 dx3 dx4 dx5 dy5 dx6
    HFlex1([i32; 9]),
    /// dx1 dy1 … dx5 dy5 d6
    Flex1([i32; 11]),
    /// reference to a shared fragment (selector, resolved against the fragments that may be used here)
    Shared(u16),
}

#[derive(Clone, Debug, Serialize, Deserialize, PartialEq)]
pub struct SubpathSpec {
    pub mv: (i32, i32),
    pub segs: Vec<SegSpec>,
    /// Some(seed): a hintmask (or cntrmask when `cntr`) precedes the moveto — only honoured when the glyph has `hm` hints
    pub mask_before: Option<u16>,
    pub cntr: bool,
}

#[derive(Clone, Debug, Serialize, Deserialize, PartialEq)]
pub struct WrapSpec {
    pub start: u16,
    pub len: u8,
    pub global: bool,
    /// 0 whole operator run · 1 leading operands in the subroutine, operator in the caller · 2 leading operands in the caller, rest + operator in the subroutine
    pub style: u8,
    pub split: u16,
}

#[derive(Clone, Debug, Serialize, Deserialize, PartialEq)]
pub struct GlyphSpec {
    /// None → defaultWidthX applies and the charstring has no width operand
    pub width: Option<u16>,
    pub hstems: Vec<(i32, i32)>,
    pub vstems: Vec<(i32, i32)>,
    /// use hstemhm/vstemhm and allow hint masks
    pub hm: bool,
    /// leave the vertical stems on the stack for the first hintmask (implicit vstemhm)
    pub implicit_v: bool,
    pub subpaths: Vec<SubpathSpec>,
    pub fd: u8,
    pub wraps: Vec<WrapSpec>,
    pub enc_seed: u32,
}

#[derive(Clone, Debug, Serialize, Deserialize, PartialEq)]
pub struct SharedSpec {
    pub segs: Vec<SegSpec>,
    pub global: bool,
}

#[derive(Clone, Debug, Serialize, Deserialize, PartialEq)]
pub struct CffSpec {
    pub glyphs: Vec<GlyphSpec>,
    pub shared: Vec<SharedSpec>,
    pub default_width: u16,
    pub nominal_width: i16,
    /// dummy subroutines added to the global INDEX; a value ≥ 1200 is the target TOTAL count (≥ 1240 switches the bias to 1131)
    pub gsubr_fill: u16,
    /// per font DICT: dummy subroutines added to its local INDEX
    pub lsubr_fill: Vec<u16>,
    pub fill_first: bool,
    /// 0 = name-keyed; otherwise CID-keyed with this many font DICTs
    pub n_fds: u8,
    pub fdselect3: bool,
    /// CID of glyph g = g * cid_step + cid_off (g ≥ 1)
    pub cid_step: u8,
    /// 0: no FontMatrix · 1: explicit default [0.001 0 0 0.001 0 0] · 2: [1/2048 …] with unitsPerEm 2048
    pub font_matrix: u8,
    pub cmap: Vec<(u32, u16)>,
    /// as GenFont::cmap_kind (0–5)
    pub cmap_kind: u8,
    pub pad: u32,
}

#[derive(Clone, Debug, PartialEq)]
enum Tok {
    Num(i32),
    Op(u8),
    Esc(u8),
    Mask(u8, Vec<u8>),
    Call { global: bool, idx: usize },
}

fn fx(v: i32) -> f64 {
    v as f64 / 65536.0
}

struct Lcg(u32);
impl Lcg {
    fn next(&mut self, n: u32) -> u32 {
        self.0 = self.0.wrapping_mul(1664525).wrapping_add(1013904223);
        (self.0 >> 8) % n.max(1)
    }
}

pub struct ExpectedCff {
    pub paths: Vec<Vec<Seg>>,
    pub advances: Vec<u16>,
    pub calls: Vec<bool>,
}

struct Pen {
    x: f64,
    y: f64,
    out: Vec<Seg>,
}
impl Pen {
    fn curve(&mut self, c: [f64; 6]) {
        let (x1, y1) = (self.x + c[0], self.y + c[1]);
        let (x2, y2) = (x1 + c[2], y1 + c[3]);
        self.x = x2 + c[4];
        self.y = y2 + c[5];
        self.out.push(Seg::Curve(x1, y1, x2, y2, self.x, self.y));
    }
}

impl CffSpec {
    pub fn is_cid(&self) -> bool {
        self.n_fds > 0
    }
    pub fn fd_count(&self) -> usize {
        self.n_fds.max(1) as usize
    }
    pub fn fd_of(&self, g: usize) -> usize {
        if self.is_cid() {
            self.glyphs[g].fd as usize % self.fd_count()
        } else {
            0
        }
    }
    pub fn upem(&self) -> u16 {
        if self.font_matrix == 2 {
            2048
        } else {
            1000
        }
    }
    pub fn advance(&self, g: usize) -> u16 {
        self.glyphs[g].width.unwrap_or(self.default_width)
    }

    /// Nesting depth of every shared fragment (1 = calls nothing). Fragment k may reference fragments i < k
    /// (a global fragment only global ones) whose depth is < 5; computed bottom-up so that it is exact.
    fn shared_depths(&self) -> Vec<usize> {
        let mut d: Vec<usize> = Vec::with_capacity(self.shared.len());
        for (k, sh) in self.shared.iter().enumerate() {
            let m = sh
                .segs
                .iter()
                .filter_map(|s| match s {
                    SegSpec::Shared(sel) => Self::resolve(&self.shared, &d, *sel, k, sh.global).map(|j| d[j]),
                    _ => None,
                })
                .max()
                .unwrap_or(0);
            d.push(1 + m);
        }
        d
    }

    fn resolve(shared: &[SharedSpec], depths: &[usize], sel: u16, below: usize, caller_global: bool) -> Option<usize> {
        let cands: Vec<usize> = (0..below.min(shared.len()).min(depths.len())).filter(|&i| (!caller_global || shared[i].global) && depths[i] < 5).collect();
        if cands.is_empty() {
            None
        } else {
            Some(cands[((sel as usize) * cands.len()) >> 16])
        }
    }

    fn draw(&self, pen: &mut Pen, segs: &[SegSpec], below: usize, caller_global: bool, depths: &[usize], called: &mut bool) {
        for s in segs {
            match s {
                SegSpec::Line(dx, dy) => {
                    pen.x += fx(*dx);
                    pen.y += fx(*dy);
                    pen.out.push(Seg::Line(pen.x, pen.y));
                }
                SegSpec::Curve(c) => pen.curve(c.map(fx)),
                SegSpec::HFlex(a) => {
                    let a = a.map(fx);
                    pen.curve([a[0], 0.0, a[1], a[2], a[3], 0.0]);
                    pen.curve([a[4], 0.0, a[5], -a[2], a[6], 0.0]);
                }
                SegSpec::Flex(a) => {
                    let a = a.map(fx);
                    pen.curve([a[0], a[1], a[2], a[3], a[4], a[5]]);
                    pen.curve([a[6], a[7], a[8], a[9], a[10], a[11]]);
                }
                SegSpec::HFlex1(a) => {
                    let a = a.map(fx);
                    pen.curve([a[0], a[1], a[2], a[3], a[4], 0.0]);
                    pen.curve([a[5], 0.0, a[6], a[7], a[8], -(a[1] + a[3] + a[7])]);
                }
                SegSpec::Flex1(a) => {
                    let a = a.map(fx);
                    let dx = a[0] + a[2] + a[4] + a[6] + a[8];
                    let dy = a[1] + a[3] + a[5] + a[7] + a[9];
                    pen.curve([a[0], a[1], a[2], a[3], a[4], a[5]]);
                    if dx.abs() > dy.abs() {
                        pen.curve([a[6], a[7], a[8], a[9], a[10], -dy]);
                    } else {
                        pen.curve([a[6], a[7], a[8], a[9], -dx, a[10]]);
                    }
                }
                SegSpec::Shared(sel) => {
                    if let Some(k) = Self::resolve(&self.shared, depths, *sel, below, caller_global) {
                        *called = true;
                        let sh = &self.shared[k];
                        self.draw(pen, &sh.segs, k, sh.global, depths, called);
                    }
                }
            }
        }
    }

    pub fn expected(&self) -> ExpectedCff {
        let mut paths = Vec::new();
        let mut calls = Vec::new();
        let depths = self.shared_depths();
        for g in &self.glyphs {
            let mut pen = Pen { x: 0.0, y: 0.0, out: Vec::new() };
            let mut called = !g.wraps.is_empty();
            for sp in &g.subpaths {
                pen.x += fx(sp.mv.0);
                pen.y += fx(sp.mv.1);
                pen.out.push(Seg::Move(pen.x, pen.y));
                self.draw(&mut pen, &sp.segs, self.shared.len(), false, &depths, &mut called);
            }
            paths.push(pen.out);
            calls.push(called);
        }
        ExpectedCff { paths, advances: (0..self.glyphs.len()).map(|g| self.advance(g)).collect(), calls }
    }

    // ---------------------------------------------------------------------------------------------
    // encoding
    // ---------------------------------------------------------------------------------------------

    /// operator units for a run of segments (no moveto); `below`/`caller_global` as in draw()
    fn encode_segs(&self, segs: &[SegSpec], below: usize, caller_global: bool, depths: &[usize], rng: &mut Lcg, local_base: &[usize], units: &mut Vec<Vec<Tok>>) {
        let n = |v: i32| Tok::Num(v);
        let mut i = 0;
        while i < segs.len() {
            match &segs[i] {
                SegSpec::Shared(sel) => {
                    if let Some(k) = Self::resolve(&self.shared, depths, *sel, below, caller_global) {
                        units.push(vec![Tok::Call { global: self.shared[k].global, idx: local_base[k] }]);
                    }
                    i += 1;
                }
                SegSpec::HFlex(a) => {
                    let mut u: Vec<Tok> = a.iter().map(|&v| n(v)).collect();
                    u.push(Tok::Esc(34));
                    units.push(u);
                    i += 1;
                }
                SegSpec::Flex(a) => {
                    let mut u: Vec<Tok> = a.iter().map(|&v| n(v)).collect();
                    u.push(Tok::Esc(35));
                    units.push(u);
                    i += 1;
                }
                SegSpec::HFlex1(a) => {
                    let mut u: Vec<Tok> = a.iter().map(|&v| n(v)).collect();
                    u.push(Tok::Esc(36));
                    units.push(u);
                    i += 1;
                }
                SegSpec::Flex1(a) => {
                    let mut u: Vec<Tok> = a.iter().map(|&v| n(v)).collect();
                    u.push(Tok::Esc(37));
                    units.push(u);
                    i += 1;
                }
                SegSpec::Line(..) => {
                    let mut j = i;
                    while j < segs.len() && j - i < 12 && matches!(segs[j], SegSpec::Line(..)) {
                        j += 1;
                    }
                    let run: Vec<(i32, i32)> = segs[i..j].iter().map(|s| if let SegSpec::Line(a, b) = s { (*a, *b) } else { unreachable!() }).collect();
                    // alternating horizontal / vertical?
                    let alt = |first_h: bool| run.iter().enumerate().all(|(k, &(dx, dy))| if (k % 2 == 0) == first_h { dy == 0 } else { dx == 0 });
                    let choice = rng.next(4);
                    if alt(true) && choice != 0 {
                        let mut u: Vec<Tok> = run.iter().enumerate().map(|(k, &(dx, dy))| n(if k % 2 == 0 { dx } else { dy })).collect();
                        u.push(Tok::Op(6));
                        units.push(u);
                        i = j;
                    } else if alt(false) && choice != 0 {
                        let mut u: Vec<Tok> = run.iter().enumerate().map(|(k, &(dx, dy))| n(if k % 2 == 0 { dy } else { dx })).collect();
                        u.push(Tok::Op(7));
                        units.push(u);
                        i = j;
                    } else if j < segs.len() && matches!(segs[j], SegSpec::Curve(_)) && choice >= 2 {
                        let mut u: Vec<Tok> = run.iter().flat_map(|&(dx, dy)| [n(dx), n(dy)]).collect();
                        if let SegSpec::Curve(c) = &segs[j] {
                            u.extend(c.iter().map(|&v| n(v)));
                        }
                        u.push(Tok::Op(25)); // rlinecurve
                        units.push(u);
                        i = j + 1;
                    } else {
                        let mut u: Vec<Tok> = run.iter().flat_map(|&(dx, dy)| [n(dx), n(dy)]).collect();
                        u.push(Tok::Op(5));
                        units.push(u);
                        i = j;
                    }
                }
                SegSpec::Curve(c) => {
                    let [a, b, cc, d, e, f] = *c;
                    let choice = rng.next(3);
                    let single: Option<(Vec<i32>, u8)> = if choice == 0 {
                        None
                    } else if b == 0 && f == 0 {
                        Some((vec![a, cc, d, e], 27))
                    } else if f == 0 {
                        Some((vec![b, a, cc, d, e], 27))
                    } else if a == 0 && e == 0 {
                        Some((vec![b, cc, d, f], 26))
                    } else if e == 0 {
                        Some((vec![a, b, cc, d, f], 26))
                    } else if b == 0 {
                        Some((vec![a, cc, d, f, e], 31))
                    } else if a == 0 {
                        Some((vec![b, cc, d, e, f], 30))
                    } else {
                        None
                    };
                    if let Some((args, op)) = single {
                        // hvcurveto / vhcurveto with a zero extra argument may drop it
                        let mut args = args;
                        if (op == 30 || op == 31) && args[4] == 0 && rng.next(2) == 0 {
                            args.pop();
                        }
                        let mut u: Vec<Tok> = args.into_iter().map(n).collect();
                        u.push(Tok::Op(op));
                        units.push(u);
                        i += 1;
                    } else {
                        let mut j = i;
                        while j < segs.len() && j - i < 5 && matches!(segs[j], SegSpec::Curve(_)) {
                            j += 1;
                        }
                        let mut u: Vec<Tok> = segs[i..j].iter().flat_map(|s| if let SegSpec::Curve(c) = s { c.to_vec() } else { unreachable!() }).map(n).collect();
                        if j < segs.len() && rng.next(2) == 0 {
                            if let SegSpec::Line(dx, dy) = segs[j] {
                                u.push(n(dx));
                                u.push(n(dy));
                                u.push(Tok::Op(24)); // rcurveline
                                units.push(u);
                                i = j + 1;
                                continue;
                            }
                        }
                        u.push(Tok::Op(8));
                        units.push(u);
                        i = j;
                    }
                }
            }
        }
    }

    fn serialize(toks: &[Tok], rng: &mut Lcg, bias_g: i32, bias_l: i32, out: &mut Vec<u8>) {
        fn num(v: i32, rng: &mut Lcg, out: &mut Vec<u8>) {
            if v % 65536 != 0 {
                out.push(255);
                out.extend_from_slice(&v.to_be_bytes());
                return;
            }
            let i = v / 65536;
            let style = rng.next(12);
            if style == 0 {
                out.push(255);
                out.extend_from_slice(&v.to_be_bytes());
            } else if style == 1 || !(-1131..=1131).contains(&i) {
                out.push(28);
                out.extend_from_slice(&(i as i16).to_be_bytes());
            } else if (-107..=107).contains(&i) {
                out.push((i + 139) as u8);
            } else if i > 0 {
                let w = i - 108;
                out.push((w / 256 + 247) as u8);
                out.push((w % 256) as u8);
            } else {
                let w = -i - 108;
                out.push((w / 256 + 251) as u8);
                out.push((w % 256) as u8);
            }
        }
        for t in toks {
            match t {
                Tok::Num(v) => num(*v, rng, out),
                Tok::Op(b) => out.push(*b),
                Tok::Esc(b) => {
                    out.push(12);
                    out.push(*b);
                }
                Tok::Mask(op, bytes) => {
                    out.push(*op);
                    out.extend_from_slice(bytes);
                }
                Tok::Call { global, idx } => {
                    let v = *idx as i32 - if *global { bias_g } else { bias_l };
                    num(v * 65536, rng, out);
                    out.push(if *global { 29 } else { 10 });
                }
            }
        }
    }

    /// Builds token programs: (charstrings, global subrs, local subrs per FD)
    fn programs(&self) -> (Vec<Vec<Tok>>, Vec<Vec<Tok>>, Vec<usize>, Vec<Vec<Vec<Tok>>>) {
        let nfd = self.fd_count();
        let pre = |fill: usize| if self.fill_first { fill } else { 0 };
        // shared fragments: index inside the global list or (the same position in) every local list
        let mut gl: Vec<Vec<Tok>> = Vec::new();
        let mut ll: Vec<Vec<Vec<Tok>>> = vec![Vec::new(); nfd];
        // positions (without fill offset); local fragments get the same position in every FD
        let mut pos = vec![0usize; self.shared.len()];
        let (mut ng, mut nl) = (0usize, 0usize);
        for (k, sh) in self.shared.iter().enumerate() {
            if sh.global {
                pos[k] = ng;
                ng += 1;
            } else {
                pos[k] = nl;
                nl += 1;
            }
        }
        // Call idx for fragments is stored WITHOUT the fill offset and fixed up at the end via `fix`
        let mut rng = Lcg(0x1234_5678);
        let shared_depth = self.shared_depths();
        // font DICT whose local subroutines a global subroutine may call (global wraps belong to one glyph)
        let mut gl_owner: Vec<usize> = Vec::new();
        for (k, sh) in self.shared.iter().enumerate() {
            let mut units = Vec::new();
            self.encode_segs(&sh.segs, k, sh.global, &shared_depth, &mut rng, &pos, &mut units);
            let mut body: Vec<Tok> = units.into_iter().flatten().collect();
            body.push(Tok::Op(11));
            if sh.global {
                gl.push(body);
                gl_owner.push(0);
            } else {
                for l in ll.iter_mut() {
                    l.push(body.clone());
                }
            }
        }
        let mut css = Vec::new();
        for (gi, g) in self.glyphs.iter().enumerate() {
            let fd = self.fd_of(gi);
            let mut rng = Lcg(g.enc_seed | 1);
            let n = |v: i32| Tok::Num(v);
            let mut units: Vec<Vec<Tok>> = Vec::new();
            let nh = g.hstems.len();
            let nv = g.vstems.len();
            let total = nh + nv;
            let masks_ok = g.hm && total > 0;
            let mask = |op: u8, seed: u16| {
                let nb = total.div_ceil(8);
                Tok::Mask(op, (0..nb).map(|i| (seed.wrapping_mul(31).wrapping_add(i as u16 * 77) >> 3) as u8).collect())
            };
            if nh > 0 {
                let mut u: Vec<Tok> = g.hstems.iter().flat_map(|&(a, b)| [n(a), n(b)]).collect();
                u.push(Tok::Op(if g.hm { 18 } else { 1 }));
                units.push(u);
            }
            let implicit = masks_ok && g.implicit_v && nv > 0;
            if nv > 0 && !implicit {
                let mut u: Vec<Tok> = g.vstems.iter().flat_map(|&(a, b)| [n(a), n(b)]).collect();
                u.push(Tok::Op(if g.hm { 23 } else { 3 }));
                units.push(u);
            }
            if implicit {
                let mut u: Vec<Tok> = g.vstems.iter().flat_map(|&(a, b)| [n(a), n(b)]).collect();
                u.push(mask(19, g.enc_seed as u16));
                units.push(u);
            }
            let mut depth_of: Vec<usize> = vec![0; units.len()];
            for sp in &g.subpaths {
                if let (true, Some(seed)) = (masks_ok, sp.mask_before) {
                    units.push(vec![mask(if sp.cntr { 20 } else { 19 }, seed)]);
                    depth_of.push(0);
                }
                let (dx, dy) = sp.mv;
                let c = rng.next(3);
                units.push(if dy == 0 && c != 0 {
                    vec![n(dx), Tok::Op(22)]
                } else if dx == 0 && c != 0 {
                    vec![n(dy), Tok::Op(4)]
                } else {
                    vec![n(dx), n(dy), Tok::Op(21)]
                });
                depth_of.push(0);
                let before = units.len();
                self.encode_segs(&sp.segs, self.shared.len(), false, &shared_depth, &mut rng, &pos, &mut units);
                for u in &units[before..] {
                    // a unit that is a call to fragment k has that fragment's depth
                    let d = match u.as_slice() {
                        [Tok::Call { global, idx }] => self.shared.iter().enumerate().filter(|(k, s)| s.global == *global && pos[*k] == *idx).map(|(k, _)| shared_depth[k]).max().unwrap_or(1),
                        _ => 0,
                    };
                    depth_of.push(d);
                }
            }
            units.push(vec![Tok::Op(14)]);
            depth_of.push(0);
            if let Some(w) = g.width {
                units[0].insert(0, n((w as i32 - self.nominal_width as i32) * 65536));
            }
            // subroutinise
            for w in &g.wraps {
                let len = units.len();
                let a = ((w.start as usize) * len) >> 16;
                let l = (w.len as usize).clamp(1, 4).min(len - a);
                let d = depth_of[a..a + l].iter().copied().max().unwrap_or(0) + 1;
                if d > 8 {
                    continue;
                }
                let target_len = if w.global { gl.len() } else { ll[fd].len() };
                let call = Tok::Call { global: w.global, idx: target_len };
                let lead = units[a].iter().take_while(|t| matches!(t, Tok::Num(_))).count();
                let (body, replacement): (Vec<Tok>, Vec<Tok>) = match w.style % 3 {
                    1 if l == 1 && lead >= 2 => {
                        let j = 1 + ((w.split as usize) * (lead - 1) >> 16);
                        let mut body: Vec<Tok> = units[a][..j].to_vec();
                        body.push(Tok::Op(11));
                        let mut rep = vec![call];
                        rep.extend_from_slice(&units[a][j..]);
                        (body, rep)
                    }
                    2 if l == 1 && lead >= 2 => {
                        let j = 1 + ((w.split as usize) * (lead - 1) >> 16);
                        let mut body: Vec<Tok> = units[a][j..].to_vec();
                        if body.last() != Some(&Tok::Op(14)) {
                            body.push(Tok::Op(11));
                        }
                        let mut rep: Vec<Tok> = units[a][..j].to_vec();
                        rep.push(call);
                        (body, rep)
                    }
                    _ => {
                        let mut body: Vec<Tok> = units[a..a + l].iter().flatten().cloned().collect();
                        // a tail that ends in endchar needs no return (sometimes one is added anyway)
                        if body.last() != Some(&Tok::Op(14)) || w.split % 2 == 0 {
                            body.push(Tok::Op(11));
                        }
                        (body, vec![call])
                    }
                };
                if w.global {
                    gl.push(body);
                    gl_owner.push(fd);
                } else {
                    ll[fd].push(body);
                }
                units.splice(a..a + l, [replacement]);
                depth_of.splice(a..a + l, [d]);
            }
            css.push(units.into_iter().flatten().collect::<Vec<Tok>>());
        }
        // add the dummy subroutines and shift call indices when they come first.
        // A fill value >= 1200 is a TARGET for the total INDEX count (so that the bias thresholds 1239/1240/1241 are hit exactly)
        let fill_for = |spec: u16, real: usize| if spec >= 1200 { (spec as usize).saturating_sub(real) } else { spec as usize };
        let gfill = fill_for(self.gsubr_fill, gl.len());
        let lfill: Vec<usize> = (0..nfd).map(|f| fill_for(self.lsubr_fill.get(f).copied().unwrap_or(0), ll[f].len())).collect();
        let shift = |toks: &mut Vec<Tok>, fd_l: usize| {
            for t in toks.iter_mut() {
                if let Tok::Call { global, idx } = t {
                    *idx += if *global { pre(gfill) } else { pre(lfill[fd_l]) };
                }
            }
        };
        for (gi, cs) in css.iter_mut().enumerate() {
            shift(cs, self.fd_of(gi));
        }
        // global subrs may call only global subrs; local ones of FD f call local ones of FD f
        for (b, &owner) in gl.iter_mut().zip(&gl_owner) {
            shift(b, owner);
        }
        for (f, l) in ll.iter_mut().enumerate() {
            for b in l.iter_mut() {
                shift(b, f);
            }
        }
        let dummy = vec![Tok::Op(11)];
        let place = |list: Vec<Vec<Tok>>, fill: usize| -> Vec<Vec<Tok>> {
            let fillv = vec![dummy.clone(); fill];
            if self.fill_first {
                fillv.into_iter().chain(list).collect()
            } else {
                list.into_iter().chain(fillv).collect()
            }
        };
        let gl = place(gl, gfill);
        let owner_fill = vec![0usize; gfill];
        let gl_owner: Vec<usize> = if self.fill_first { owner_fill.into_iter().chain(gl_owner).collect() } else { gl_owner.into_iter().chain(owner_fill).collect() };
        let ll = ll.into_iter().enumerate().map(|(f, l)| place(l, lfill[f])).collect();
        (css, gl, gl_owner, ll)
    }

    pub fn build_cff(&self) -> Vec<u8> {
        let (css, gl, gl_owner, ll) = self.programs();
        let bias = |n: usize| super::cff::subr_bias(n) as i32;
        let bg = bias(gl.len());
        let ser = |prog: &Vec<Tok>, seed: u32, bl: i32| {
            let mut out = Vec::new();
            Self::serialize(prog, &mut Lcg(seed), bg, bl, &mut out);
            out
        };
        let gsub: Vec<Vec<u8>> = gl.iter().enumerate().map(|(i, p)| ser(p, 77 + i as u32, bias(ll[gl_owner[i]].len()))).collect();
        let lsub: Vec<Vec<Vec<u8>>> = ll.iter().map(|l| l.iter().enumerate().map(|(i, p)| ser(p, 991 + i as u32, bias(l.len()))).collect()).collect();
        let cs: Vec<Vec<u8>> = css.iter().enumerate().map(|(g, p)| ser(p, self.glyphs[g].enc_seed ^ 0x55, bias(ll[self.fd_of(g)].len()))).collect();
        let n = self.glyphs.len();
        let int5 = |v: usize| {
            let mut b = vec![29u8];
            b.extend_from_slice(&(v as i32).to_be_bytes());
            b
        };
        let real = |txt: &str| {
            // DICT real number: BCD nibbles
            let mut nib: Vec<u8> = Vec::new();
            let mut chars = txt.chars().peekable();
            while let Some(c) = chars.next() {
                nib.push(match c {
                    '0'..='9' => c as u8 - b'0',
                    '.' => 10,
                    'E' if chars.peek() == Some(&'-') => {
                        chars.next();
                        12
                    }
                    'E' => 11,
                    '-' => 14,
                    _ => unreachable!(),
                });
            }
            nib.push(15);
            if nib.len() % 2 == 1 {
                nib.push(15);
            }
            let mut b = vec![30u8];
            for p in nib.chunks(2) {
                b.push(p[0] << 4 | p[1]);
            }
            b
        };
        let dint = |v: i32| -> Vec<u8> {
            if (-107..=107).contains(&v) {
                vec![(v + 139) as u8]
            } else {
                let mut b = vec![28u8];
                b.extend_from_slice(&(v as i16).to_be_bytes());
                b
            }
        };
        let nfd = self.fd_count();
        // Private DICTs (Subrs offset = size of the Private DICT: the local INDEX follows immediately)
        let private = |f: usize, has_subrs: bool| -> Vec<u8> {
            let mk = |subrs_off: usize| {
                let mut p = Vec::new();
                // BlueValues (delta encoded), BlueScale (real), StdHW, defaultWidthX, nominalWidthX, Subrs
                for v in [-12, 12, 480, 12] {
                    p.extend(dint(v));
                }
                p.push(6);
                p.extend(real("0.039625"));
                p.extend_from_slice(&[12, 9]);
                p.extend(dint(60 + f as i32));
                p.push(10);
                p.extend(dint(self.default_width as i32));
                p.push(20);
                p.extend(dint(self.nominal_width as i32));
                p.push(21);
                if has_subrs {
                    p.extend(int5(subrs_off));
                    p.push(19);
                }
                p
            };
            let size = mk(0).len();
            mk(size)
        };
        let privs: Vec<Vec<u8>> = (0..nfd).map(|f| private(f, !lsub[f].is_empty())).collect();
        let lidx: Vec<Vec<u8>> = (0..nfd).map(|f| if lsub[f].is_empty() { Vec::new() } else { index(&lsub[f]) }).collect();
        // charset
        let cid = |g: usize| -> u16 { (g as u16).wrapping_mul(self.cid_step.max(1) as u16).wrapping_add(if self.is_cid() { (self.cid_step as u16) / 2 } else { 0 }) };
        let mut charset = Vec::new();
        if self.is_cid() && self.cid_step > 1 {
            charset.push(0);
            for g in 1..n {
                charset.extend_from_slice(&cid(g).to_be_bytes());
            }
        } else if n > 1 {
            charset.push(2);
            charset.extend_from_slice(&1u16.to_be_bytes());
            charset.extend_from_slice(&((n - 2) as u16).to_be_bytes());
        } else {
            charset.push(0);
        }
        let mut fdselect = Vec::new();
        if self.is_cid() {
            if self.fdselect3 {
                let fds: Vec<u8> = (0..n).map(|g| self.fd_of(g) as u8).collect();
                let mut ranges: Vec<(u16, u8)> = Vec::new();
                for (g, &f) in fds.iter().enumerate() {
                    if ranges.last().map(|r| r.1 != f).unwrap_or(true) {
                        ranges.push((g as u16, f));
                    }
                }
                fdselect.push(3);
                fdselect.extend_from_slice(&(ranges.len() as u16).to_be_bytes());
                for (g, f) in ranges {
                    fdselect.extend_from_slice(&g.to_be_bytes());
                    fdselect.push(f);
                }
                fdselect.extend_from_slice(&(n as u16).to_be_bytes());
            } else {
                fdselect.push(0);
                fdselect.extend((0..n).map(|g| self.fd_of(g) as u8));
            }
        }
        let strings: Vec<Vec<u8>> = if self.is_cid() { vec![b"Adobe".to_vec(), b"Identity".to_vec()] } else { Vec::new() };
        let header = vec![1u8, 0, 4, 4];
        let name_idx = index(&[b"GenCFF".to_vec()]);
        let string_idx = index(&strings);
        let gsub_idx = index(&gsub);
        let cs_idx = index(&cs);
        // layout: header, name, top, strings, gsubrs, charset, fdselect, charstrings, fdarray, (private, local subrs) per FD
        let top = |charset_off: usize, fdselect_off: usize, cs_off: usize, fdarray_off: usize, priv_off: usize| -> Vec<u8> {
            let mut t = Vec::new();
            if self.is_cid() {
                t.extend(dint(391));
                t.extend(dint(392));
                t.extend(dint(0));
                t.extend_from_slice(&[12, 30]);
            }
            match self.font_matrix {
                1 => {
                    for v in ["0.001", "0", "0", "0.001", "0", "0"] {
                        t.extend(real(v));
                    }
                    t.extend_from_slice(&[12, 7]);
                }
                2 => {
                    for v in ["0.00048828125", "0", "0", "0.00048828125", "0", "0"] {
                        t.extend(real(v));
                    }
                    t.extend_from_slice(&[12, 7]);
                }
                _ => {}
            }
            for v in [-500, -500, 2500, 2500] {
                t.extend(dint(v));
            }
            t.push(5);
            t.extend(int5(charset_off));
            t.push(15);
            t.extend(int5(cs_off));
            t.push(17);
            if self.is_cid() {
                t.extend(dint(((n as u32 * self.cid_step.max(1) as u32 + 8).min(32000)) as i32));
                t.extend_from_slice(&[12, 34]);
                t.extend(int5(fdarray_off));
                t.extend_from_slice(&[12, 36]);
                t.extend(int5(fdselect_off));
                t.extend_from_slice(&[12, 37]);
            } else {
                t.extend(int5(privs[0].len()));
                t.extend(int5(priv_off));
                t.push(18);
            }
            t
        };
        let top_len = index(&[top(0, 0, 0, 0, 0)]).len();
        let charset_off = header.len() + name_idx.len() + top_len + string_idx.len() + gsub_idx.len();
        let fdselect_off = charset_off + charset.len();
        let cs_off = fdselect_off + fdselect.len();
        let fdarray_off = cs_off + cs_idx.len();
        let fd_dict = |f: usize, off: usize| -> Vec<u8> {
            let mut d = Vec::new();
            d.extend(int5(privs[f].len()));
            d.extend(int5(off));
            d.push(18);
            d
        };
        let fdarray_len = if self.is_cid() { index(&(0..nfd).map(|f| fd_dict(f, 0)).collect::<Vec<_>>()).len() } else { 0 };
        let mut priv_offs = Vec::new();
        let mut cur = fdarray_off + fdarray_len;
        for f in 0..nfd {
            priv_offs.push(cur);
            cur += privs[f].len() + lidx[f].len();
        }
        let mut out = header;
        out.extend(name_idx);
        out.extend(index(&[top(charset_off, fdselect_off, cs_off, fdarray_off, priv_offs[0])]));
        out.extend(string_idx);
        out.extend(gsub_idx);
        out.extend(charset);
        out.extend(fdselect);
        out.extend(cs_idx);
        if self.is_cid() {
            out.extend(index(&(0..nfd).map(|f| fd_dict(f, priv_offs[f])).collect::<Vec<_>>()));
        }
        for f in 0..nfd {
            out.extend_from_slice(&privs[f]);
            out.extend_from_slice(&lidx[f]);
        }
        out
    }

    pub fn build(&self) -> Vec<u8> {
        let n = self.glyphs.len();
        let cffb = self.build_cff();
        let mut head = Vec::new();
        head.extend_from_slice(&0x0001_0000u32.to_be_bytes());
        head.extend_from_slice(&0x0001_0000u32.to_be_bytes());
        head.extend_from_slice(&0u32.to_be_bytes());
        head.extend_from_slice(&0x5F0F_3CF5u32.to_be_bytes());
        head.extend_from_slice(&0x0003u16.to_be_bytes());
        head.extend_from_slice(&self.upem().to_be_bytes());
        head.extend_from_slice(&[0; 16]);
        for v in [-500i16, -500, 2500, 2500] {
            head.extend_from_slice(&v.to_be_bytes());
        }
        for v in [0u16, 8, 2, 0, 0] {
            head.extend_from_slice(&v.to_be_bytes());
        }
        let mut hhea = Vec::new();
        hhea.extend_from_slice(&0x0001_0000u32.to_be_bytes());
        for v in [800i16, -200, 0] {
            hhea.extend_from_slice(&v.to_be_bytes());
        }
        hhea.extend_from_slice(&(0..n).map(|g| self.advance(g)).max().unwrap_or(0).to_be_bytes());
        for v in [0i16, 0, 2500, 1, 0, 0, 0, 0, 0, 0, 0] {
            hhea.extend_from_slice(&v.to_be_bytes());
        }
        hhea.extend_from_slice(&(n as u16).to_be_bytes());
        let mut hmtx = Vec::new();
        for g in 0..n {
            hmtx.extend_from_slice(&self.advance(g).to_be_bytes());
            hmtx.extend_from_slice(&0i16.to_be_bytes());
        }
        let mut maxp = Vec::new();
        maxp.extend_from_slice(&0x0000_5000u32.to_be_bytes());
        maxp.extend_from_slice(&(n as u16).to_be_bytes());
        let mut post = Vec::new();
        post.extend_from_slice(&0x0003_0000u32.to_be_bytes());
        post.extend_from_slice(&[0; 28]);
        // cmap through the TrueType builder's encoders
        let carrier = super::build::GenFont {
            upem: 1000,
            long_loca: true,
            align: 2,
            glyphs: Vec::new(),
            metrics: Vec::new(),
            n_hmetrics: 1,
            cmap: self.cmap.clone(),
            cmap_kind: self.cmap_kind,
            fmt4_glyph_array: false,
            pad: 0,
        };
        let mut tables: Vec<([u8; 4], Vec<u8>)> = vec![
            (*b"CFF ", cffb),
            (*b"cmap", carrier.build_cmap_table()),
            (*b"head", head),
            (*b"hhea", hhea),
            (*b"hmtx", hmtx),
            (*b"maxp", maxp),
            (*b"name", vec![0, 0, 0, 0, 0, 6]),
            (*b"post", post),
        ];
        if self.pad > 0 {
            tables.push((*b"zpad", (0..self.pad).map(|i| (i.wrapping_mul(2654435761) >> 24) as u8).collect()));
        }
        assemble_sfnt(0x4F54_544F, tables)
    }

    pub fn expected_cmap(&self) -> BTreeMap<u32, u16> {
        self.cmap.iter().filter(|(c, _)| matches!(self.cmap_kind, 1 | 3 | 5) || *c < 0xFFFF).map(|&(c, g)| (c, g)).collect()
    }
}

/// TN 5176 INDEX with the smallest offSize that fits
pub fn index(items: &[Vec<u8>]) -> Vec<u8> {
    let mut out = Vec::new();
    out.extend_from_slice(&(items.len() as u16).to_be_bytes());
    if items.is_empty() {
        return out;
    }
    let total: usize = items.iter().map(|i| i.len()).sum::<usize>() + 1;
    let osz = if total < 0x100 {
        1
    } else if total < 0x10000 {
        2
    } else if total < 0x1000000 {
        3
    } else {
        4
    };
    out.push(osz as u8);
    let mut off = 1usize;
    let put = |v: usize, out: &mut Vec<u8>| out.extend_from_slice(&(v as u32).to_be_bytes()[4 - osz..]);
    put(off, &mut out);
    for i in items {
        off += i.len();
        put(off, &mut out);
    }
    for i in items {
        out.extend_from_slice(i);
    }
    out
}

/// Reads a built font back with the reader and compares with the model. Err = harness broken.
pub fn calibrate_roundtrip(s: &CffSpec) -> Result<(), String> {
    let bytes = s.build();
    let exp = s.expected();
    let sf = Sfnt::parse(&bytes).map_err(|e| format!("{e:?}"))?;
    let di = sf.directory_issues();
    if !di.is_empty() {
        return Err(format!("builder output has directory issues: {di:?}"));
    }
    let c = Cff::parse(sf.table(b"CFF ").map_err(|e| format!("{e:?}"))?).map_err(|e| format!("CFF builder output unreadable: {e:?}"))?;
    if c.num_glyphs() != s.glyphs.len() || c.is_cid != s.is_cid() {
        return Err("glyph count / keying read back differently".into());
    }
    let hm = HMetrics::parse(&sf).map_err(|e| format!("{e:?}"))?;
    for g in 0..s.glyphs.len() {
        let r = c.run(g).map_err(|e| format!("generated charstring does not interpret: {e:?}"))?;
        if !r.ended {
            return Err(format!("glyph {g}: generated charstring does not end in endchar"));
        }
        if r.path != exp.paths[g] {
            return Err(format!("glyph {g}: path read back differs from the model:\n{:?}\nvs\n{:?}", r.path, exp.paths[g]));
        }
        if r.width != exp.advances[g] as f64 || hm.advance(g as u16).map_err(|e| format!("{e:?}"))? != exp.advances[g] {
            return Err(format!("glyph {g}: width read back {} vs model {}", r.width, exp.advances[g]));
        }
    }
    let cm = unicode_cmap(&sf).map_err(|e| format!("{e:?}"))?;
    if cm != s.expected_cmap() {
        return Err("cmap read back differs".into());
    }
    Ok(())
}
