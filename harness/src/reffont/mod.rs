//! reffont — a minimal, independent sfnt / TrueType reader written from the OpenType
//! specification (chapters "The OpenType font file", head, hhea, maxp, hmtx, loca, glyf, cmap).
//! `cff` holds the CFF (Adobe TN 5176) reader and Type 2 charstring interpreter (TN 5177),
//! `build` a small TrueType / CFF *builder* for generated fonts.
//!
//! Nothing here shares code with the library under test. The reader is strict: every structural
//! problem is returned as an `Issue { clause, detail }` so that the property check can report it
//! under a stable clause name.
use std::collections::{BTreeMap, BTreeSet};

pub mod build;
pub mod build_cff;
pub mod cff;

#[derive(Clone, Debug, PartialEq)]
pub struct Issue {
    pub clause: &'static str,
    pub detail: String,
}

pub type R<T> = Result<T, Issue>;

pub fn issue<T>(clause: &'static str, detail: impl Into<String>) -> R<T> {
    Err(Issue { clause, detail: detail.into() })
}

pub fn be16(d: &[u8], o: usize) -> R<u16> {
    match d.get(o..o.wrapping_add(2)) {
        Some(b) => Ok(u16::from_be_bytes([b[0], b[1]])),
        None => issue("read-bounds", format!("u16 at {o} beyond length {}", d.len())),
    }
}
pub fn be16i(d: &[u8], o: usize) -> R<i16> {
    be16(d, o).map(|v| v as i16)
}
pub fn be32(d: &[u8], o: usize) -> R<u32> {
    match d.get(o..o.wrapping_add(4)) {
        Some(b) => Ok(u32::from_be_bytes([b[0], b[1], b[2], b[3]])),
        None => issue("read-bounds", format!("u32 at {o} beyond length {}", d.len())),
    }
}
pub fn byte(d: &[u8], o: usize) -> R<u8> {
    d.get(o).copied().ok_or(Issue { clause: "read-bounds", detail: format!("u8 at {o} beyond length {}", d.len()) })
}

/// OpenType "Calculating Checksums": sum of big-endian uint32, the table zero-padded to 4 bytes.
pub fn table_checksum(d: &[u8]) -> u32 {
    let mut s = 0u32;
    for ch in d.chunks(4) {
        let mut w = [0u8; 4];
        w[..ch.len()].copy_from_slice(ch);
        s = s.wrapping_add(u32::from_be_bytes(w));
    }
    s
}

pub fn tag_str(t: &[u8; 4]) -> String {
    t.iter().map(|&b| if (0x20..0x7f).contains(&b) { b as char } else { '?' }).collect()
}

#[derive(Clone, Debug)]
pub struct TableRec {
    pub tag: [u8; 4],
    pub checksum: u32,
    pub offset: u32,
    pub length: u32,
}

pub struct Sfnt<'a> {
    pub data: &'a [u8],
    pub version: u32,
    pub search_range: u16,
    pub entry_selector: u16,
    pub range_shift: u16,
    pub tables: Vec<TableRec>,
}

impl<'a> Sfnt<'a> {
    pub fn parse(data: &'a [u8]) -> R<Self> {
        if data.len() < 12 {
            return issue("sfnt-header", format!("file of {} bytes has no offset table", data.len()));
        }
        let version = be32(data, 0)?;
        let n = be16(data, 4)? as usize;
        if 12 + 16 * n > data.len() {
            return issue("sfnt-header", format!("table directory of {n} records beyond file length {}", data.len()));
        }
        let mut tables = Vec::with_capacity(n);
        for i in 0..n {
            let o = 12 + 16 * i;
            tables.push(TableRec {
                tag: [data[o], data[o + 1], data[o + 2], data[o + 3]],
                checksum: be32(data, o + 4)?,
                offset: be32(data, o + 8)?,
                length: be32(data, o + 12)?,
            });
        }
        Ok(Sfnt { data, version, search_range: be16(data, 6)?, entry_selector: be16(data, 8)?, range_shift: be16(data, 10)?, tables })
    }

    pub fn rec(&self, tag: &[u8; 4]) -> Option<&TableRec> {
        self.tables.iter().find(|t| &t.tag == tag)
    }

    pub fn has(&self, tag: &[u8; 4]) -> bool {
        self.rec(tag).is_some()
    }

    pub fn table(&self, tag: &[u8; 4]) -> R<&'a [u8]> {
        let Some(r) = self.rec(tag) else { return issue("required-table", format!("table '{}' missing", tag_str(tag))) };
        let (o, l) = (r.offset as usize, r.length as usize);
        match self.data.get(o..o.saturating_add(l)) {
            Some(s) => Ok(s),
            None => issue("table-bounds", format!("table '{}' offset {o} length {l} beyond file length {}", tag_str(tag), self.data.len())),
        }
    }

    /// Well-formedness of the container: OpenType spec, "Table Directory" and "Calculating Checksums".
    pub fn directory_issues(&self) -> Vec<Issue> {
        let mut v = Vec::new();
        let mut push = |clause: &'static str, detail: String| v.push(Issue { clause, detail });
        if !matches!(self.version, 0x0001_0000 | 0x7472_7565 | 0x4F54_544F) {
            push("sfnt-version", format!("sfntVersion 0x{:08X}", self.version));
        }
        let n = self.tables.len();
        if n == 0 {
            push("sfnt-header", "numTables = 0".into());
            return v;
        }
        // searchRange = (largest power of two <= numTables) * 16, entrySelector = log2 of it, rangeShift = n*16 - searchRange
        let es = (usize::BITS - 1 - n.leading_zeros()) as u16;
        let sr = (1u32 << es) * 16;
        let rs = (n as u32) * 16 - sr;
        if self.search_range as u32 != sr || self.entry_selector != es || self.range_shift as u32 != rs {
            push(
                "search-params",
                format!("numTables {n}: searchRange/entrySelector/rangeShift = {}/{}/{}, specified {sr}/{es}/{rs}", self.search_range, self.entry_selector, self.range_shift),
            );
        }
        for w in self.tables.windows(2) {
            if w[0].tag >= w[1].tag {
                push("directory-sorted", format!("'{}' is followed by '{}'", tag_str(&w[0].tag), tag_str(&w[1].tag)));
                break;
            }
        }
        let dir_end = 12 + 16 * n;
        let mut spans: Vec<(usize, usize, [u8; 4])> = Vec::new();
        for t in &self.tables {
            let (o, l) = (t.offset as usize, t.length as usize);
            if o.checked_add(l).map(|e| e > self.data.len()).unwrap_or(true) {
                push("table-bounds", format!("'{}' offset {o} length {l} beyond file length {}", tag_str(&t.tag), self.data.len()));
                continue;
            }
            if o % 4 != 0 {
                push("table-alignment", format!("'{}' starts at offset {o}, not a multiple of 4", tag_str(&t.tag)));
            }
            if o < dir_end {
                push("table-overlap", format!("'{}' at offset {o} overlaps the table directory (ends {dir_end})", tag_str(&t.tag)));
            }
            spans.push((o, o + l, t.tag));
            let body = &self.data[o..o + l];
            if &t.tag == b"head" {
                if l >= 12 {
                    let mut h = body.to_vec();
                    h[8..12].fill(0);
                    let c = table_checksum(&h);
                    if c != t.checksum {
                        push("head-checksum", format!("'head' checksum in directory 0x{:08X}, computed with checkSumAdjustment = 0: 0x{c:08X}, as stored: 0x{:08X}", t.checksum, table_checksum(body)));
                    }
                }
            } else {
                let c = table_checksum(body);
                if c != t.checksum {
                    push("table-checksum", format!("'{}' checksum in directory 0x{:08X}, computed 0x{c:08X}", tag_str(&t.tag), t.checksum));
                }
            }
        }
        spans.sort();
        for w in spans.windows(2) {
            if w[1].0 < w[0].1 {
                push("table-overlap", format!("'{}' [{}..{}) overlaps '{}' [{}..{})", tag_str(&w[0].2), w[0].0, w[0].1, tag_str(&w[1].2), w[1].0, w[1].1));
                break;
            }
        }
        // whole-file checksum
        if let Some(h) = self.rec(b"head") {
            let o = h.offset as usize;
            if h.length >= 12 && o + 12 <= self.data.len() {
                let stored = u32::from_be_bytes([self.data[o + 8], self.data[o + 9], self.data[o + 10], self.data[o + 11]]);
                let mut whole = self.data.to_vec();
                whole[o + 8..o + 12].fill(0);
                let want = 0xB1B0_AFBAu32.wrapping_sub(table_checksum(&whole));
                if stored != want {
                    push("checksum-adjustment", format!("head.checkSumAdjustment 0x{stored:08X}, file requires 0x{want:08X}"));
                }
            }
        }
        v
    }
}

// ------------------------------------------------------------------------------------------------
// TrueType outlines
// ------------------------------------------------------------------------------------------------

pub const ARG_1_AND_2_ARE_WORDS: u16 = 0x0001;
pub const ARGS_ARE_XY_VALUES: u16 = 0x0002;
pub const ROUND_XY_TO_GRID: u16 = 0x0004;
pub const WE_HAVE_A_SCALE: u16 = 0x0008;
pub const MORE_COMPONENTS: u16 = 0x0020;
pub const WE_HAVE_AN_X_AND_Y_SCALE: u16 = 0x0040;
pub const WE_HAVE_A_TWO_BY_TWO: u16 = 0x0080;
pub const WE_HAVE_INSTRUCTIONS: u16 = 0x0100;
pub const USE_MY_METRICS: u16 = 0x0200;
pub const OVERLAP_COMPOUND: u16 = 0x0400;
pub const SCALED_COMPONENT_OFFSET: u16 = 0x0800;
pub const UNSCALED_COMPONENT_OFFSET: u16 = 0x1000;

#[derive(Clone, Copy, Debug, PartialEq)]
pub struct Pt {
    pub x: f64,
    pub y: f64,
    pub on: bool,
}
pub type Contour = Vec<Pt>;
pub type Outline = Vec<Contour>;

#[derive(Clone, Debug, PartialEq)]
pub struct Comp {
    pub flags: u16,
    pub gid: u16,
    pub arg1: i32,
    pub arg2: i32,
    /// a b c d of x' = a·x + c·y + e, y' = b·x + d·y + f
    pub m: [f64; 4],
}

#[derive(Clone, Debug, PartialEq)]
pub enum Glyph {
    Empty,
    Simple { contours: Vec<Vec<(i32, i32, bool)>>, instr_len: usize, bbox: [i16; 4] },
    Composite { comps: Vec<Comp>, instr_len: usize, bbox: [i16; 4] },
}

fn f2dot14(v: i16) -> f64 {
    v as f64 / 16384.0
}

/// Parses one glyph description (glyf table, "Glyph Headers", "Simple Glyph Description",
/// "Composite Glyph Description"). `d` is exactly the loca range of the glyph.
pub fn parse_glyph(d: &[u8]) -> R<Glyph> {
    if d.is_empty() {
        return Ok(Glyph::Empty);
    }
    if d.len() < 10 {
        return issue("glyph-structure", format!("glyph of {} bytes is shorter than its 10-byte header", d.len()));
    }
    let nc = be16i(d, 0)?;
    let bbox = [be16i(d, 2)?, be16i(d, 4)?, be16i(d, 6)?, be16i(d, 8)?];
    if nc >= 0 {
        let nc = nc as usize;
        let mut p = 10;
        let mut ends = Vec::with_capacity(nc);
        for i in 0..nc {
            let e = be16(d, p).map_err(|_| Issue { clause: "glyph-structure", detail: "endPtsOfContours truncated".into() })? as usize;
            if i > 0 && e <= ends[i - 1] {
                return issue("glyph-structure", format!("endPtsOfContours not increasing: {} then {e}", ends[i - 1]));
            }
            ends.push(e);
            p += 2;
        }
        let npts = ends.last().map(|e| e + 1).unwrap_or(0);
        let il = be16(d, p).map_err(|_| Issue { clause: "glyph-structure", detail: "instructionLength truncated".into() })? as usize;
        p += 2;
        if p + il > d.len() {
            return issue("glyph-structure", format!("instructions ({il} bytes) run beyond the glyph ({} bytes)", d.len()));
        }
        p += il;
        let mut flags = Vec::with_capacity(npts);
        while flags.len() < npts {
            let f = byte(d, p).map_err(|_| Issue { clause: "glyph-structure", detail: format!("flags truncated after {} of {npts} points", flags.len()) })?;
            p += 1;
            flags.push(f);
            if f & 0x08 != 0 {
                let r = byte(d, p).map_err(|_| Issue { clause: "glyph-structure", detail: "repeat count truncated".into() })? as usize;
                p += 1;
                if flags.len() + r > npts {
                    return issue("glyph-structure", format!("flag repeat overruns the point count {npts}"));
                }
                for _ in 0..r {
                    flags.push(f);
                }
            }
        }
        let mut xs = Vec::with_capacity(npts);
        let mut v = 0i32;
        for &f in &flags {
            if f & 0x02 != 0 {
                let b = byte(d, p).map_err(|_| Issue { clause: "glyph-structure", detail: "x coordinates truncated".into() })? as i32;
                p += 1;
                v += if f & 0x10 != 0 { b } else { -b };
            } else if f & 0x10 == 0 {
                v += be16i(d, p).map_err(|_| Issue { clause: "glyph-structure", detail: "x coordinates truncated".into() })? as i32;
                p += 2;
            }
            xs.push(v);
        }
        let mut ys = Vec::with_capacity(npts);
        v = 0;
        for &f in &flags {
            if f & 0x04 != 0 {
                let b = byte(d, p).map_err(|_| Issue { clause: "glyph-structure", detail: "y coordinates truncated".into() })? as i32;
                p += 1;
                v += if f & 0x20 != 0 { b } else { -b };
            } else if f & 0x20 == 0 {
                v += be16i(d, p).map_err(|_| Issue { clause: "glyph-structure", detail: "y coordinates truncated".into() })? as i32;
                p += 2;
            }
            ys.push(v);
        }
        // what follows is padding (loca alignment); the specification sets no limit on it
        let mut contours = Vec::with_capacity(nc);
        let mut s = 0usize;
        for &e in &ends {
            contours.push((s..=e).map(|i| (xs[i], ys[i], flags[i] & 1 != 0)).collect());
            s = e + 1;
        }
        Ok(Glyph::Simple { contours, instr_len: il, bbox })
    } else {
        let mut p = 10;
        let mut comps = Vec::new();
        let mut any_instr = false;
        loop {
            let flags = be16(d, p).map_err(|_| Issue { clause: "glyph-structure", detail: "component record truncated".into() })?;
            let gid = be16(d, p + 2).map_err(|_| Issue { clause: "glyph-structure", detail: "component record truncated".into() })?;
            p += 4;
            let tr = |_| Issue { clause: "glyph-structure", detail: "component arguments truncated".into() };
            let (a1, a2) = if flags & ARG_1_AND_2_ARE_WORDS != 0 {
                let r = if flags & ARGS_ARE_XY_VALUES != 0 {
                    (be16i(d, p).map_err(tr)? as i32, be16i(d, p + 2).map_err(tr)? as i32)
                } else {
                    (be16(d, p).map_err(tr)? as i32, be16(d, p + 2).map_err(tr)? as i32)
                };
                p += 4;
                r
            } else {
                let (b1, b2) = (byte(d, p).map_err(tr)?, byte(d, p + 1).map_err(tr)?);
                p += 2;
                if flags & ARGS_ARE_XY_VALUES != 0 {
                    (b1 as i8 as i32, b2 as i8 as i32)
                } else {
                    (b1 as i32, b2 as i32)
                }
            };
            let mut m = [1.0, 0.0, 0.0, 1.0];
            if flags & WE_HAVE_A_SCALE != 0 {
                let s = f2dot14(be16i(d, p).map_err(tr)?);
                p += 2;
                m = [s, 0.0, 0.0, s];
            } else if flags & WE_HAVE_AN_X_AND_Y_SCALE != 0 {
                m = [f2dot14(be16i(d, p).map_err(tr)?), 0.0, 0.0, f2dot14(be16i(d, p + 2).map_err(tr)?)];
                p += 4;
            } else if flags & WE_HAVE_A_TWO_BY_TWO != 0 {
                m = [
                    f2dot14(be16i(d, p).map_err(tr)?),
                    f2dot14(be16i(d, p + 2).map_err(tr)?),
                    f2dot14(be16i(d, p + 4).map_err(tr)?),
                    f2dot14(be16i(d, p + 6).map_err(tr)?),
                ];
                p += 8;
            }
            any_instr |= flags & WE_HAVE_INSTRUCTIONS != 0;
            comps.push(Comp { flags, gid, arg1: a1, arg2: a2, m });
            if flags & MORE_COMPONENTS == 0 {
                break;
            }
            if comps.len() > 4096 {
                return issue("glyph-structure", "more than 4096 components");
            }
        }
        let mut il = 0;
        if any_instr {
            il = be16(d, p).map_err(|_| Issue { clause: "glyph-structure", detail: "composite instruction length truncated".into() })? as usize;
            p += 2;
            if p + il > d.len() {
                return issue("glyph-structure", format!("composite instructions ({il} bytes) run beyond the glyph"));
            }
            p += il;
        }
        // trailing bytes are padding
        let _ = p;
        Ok(Glyph::Composite { comps, instr_len: il, bbox })
    }
}

pub struct TtFont<'a> {
    pub sfnt: Sfnt<'a>,
    pub upem: u16,
    pub loc_format: i16,
    pub checksum_adjustment: u32,
    pub num_glyphs: u16,
    pub n_hmetrics: u16,
    pub loca: Vec<u32>,
    pub glyf: &'a [u8],
    pub hmtx: &'a [u8],
}

pub const MAX_COMPONENT_DEPTH: usize = 32;

impl<'a> TtFont<'a> {
    /// Reads the tables needed for outlines and metrics; every inconsistency between them that the
    /// specification forbids is an `Err` with its clause.
    pub fn parse(data: &'a [u8]) -> R<Self> {
        let sfnt = Sfnt::parse(data)?;
        let head = sfnt.table(b"head")?;
        if head.len() < 54 {
            return issue("head-table", format!("head table has {} bytes, 54 required", head.len()));
        }
        if be32(head, 12)? != 0x5F0F_3CF5 {
            return issue("head-table", format!("magicNumber 0x{:08X}", be32(head, 12)?));
        }
        let upem = be16(head, 18)?;
        let loc_format = be16i(head, 50)?;
        if loc_format != 0 && loc_format != 1 {
            return issue("head-table", format!("indexToLocFormat {loc_format}"));
        }
        let maxp = sfnt.table(b"maxp")?;
        if maxp.len() < 6 {
            return issue("maxp-table", format!("maxp table has {} bytes", maxp.len()));
        }
        let ver = be32(maxp, 0)?;
        if ver == 0x0001_0000 && maxp.len() < 32 {
            return issue("maxp-table", format!("maxp version 1.0 with {} bytes, 32 required", maxp.len()));
        }
        let num_glyphs = be16(maxp, 4)?;
        if num_glyphs == 0 {
            return issue("glyph0-present", "maxp.numGlyphs = 0");
        }
        let hhea = sfnt.table(b"hhea")?;
        if hhea.len() < 36 {
            return issue("hhea-table", format!("hhea table has {} bytes, 36 required", hhea.len()));
        }
        let n_hmetrics = be16(hhea, 34)?;
        let hmtx = sfnt.table(b"hmtx")?;
        if n_hmetrics == 0 || n_hmetrics > num_glyphs {
            return issue("hmtx-coverage", format!("hhea.numberOfHMetrics {n_hmetrics} with maxp.numGlyphs {num_glyphs}"));
        }
        let need = 4 * n_hmetrics as usize + 2 * (num_glyphs - n_hmetrics) as usize;
        if hmtx.len() < need {
            return issue("hmtx-coverage", format!("hmtx has {} bytes; {n_hmetrics} long metrics + {} side bearings need {need}", hmtx.len(), num_glyphs - n_hmetrics));
        }
        let loca_t = sfnt.table(b"loca")?;
        let glyf = sfnt.table(b"glyf")?;
        let esz = if loc_format == 0 { 2 } else { 4 };
        if loca_t.len() != esz * (num_glyphs as usize + 1) {
            return issue(
                "loca-entries",
                format!("loca has {} bytes = {} entries of {esz} bytes (indexToLocFormat {loc_format}); maxp.numGlyphs + 1 = {}", loca_t.len(), loca_t.len() / esz, num_glyphs as usize + 1),
            );
        }
        let mut loca = Vec::with_capacity(num_glyphs as usize + 1);
        for i in 0..=num_glyphs as usize {
            loca.push(if loc_format == 0 { be16(loca_t, 2 * i)? as u32 * 2 } else { be32(loca_t, 4 * i)? });
        }
        for (i, w) in loca.windows(2).enumerate() {
            if w[1] < w[0] {
                return issue("loca-monotone", format!("loca[{i}] = {} > loca[{}] = {}", w[0], i + 1, w[1]));
            }
        }
        if *loca.last().unwrap() as usize > glyf.len() {
            return issue("loca-bounds", format!("last loca offset {} beyond glyf length {}", loca.last().unwrap(), glyf.len()));
        }
        Ok(TtFont { sfnt, upem, loc_format, checksum_adjustment: be32(head, 8)?, num_glyphs, n_hmetrics, loca, glyf, hmtx })
    }

    pub fn advance(&self, gid: u16) -> R<u16> {
        if gid >= self.num_glyphs {
            return issue("gid-range", format!("glyph {gid} of {}", self.num_glyphs));
        }
        let i = gid.min(self.n_hmetrics - 1) as usize;
        be16(self.hmtx, 4 * i)
    }

    pub fn lsb(&self, gid: u16) -> R<i16> {
        if gid >= self.num_glyphs {
            return issue("gid-range", format!("glyph {gid} of {}", self.num_glyphs));
        }
        if gid < self.n_hmetrics {
            be16i(self.hmtx, 4 * gid as usize + 2)
        } else {
            be16i(self.hmtx, 4 * self.n_hmetrics as usize + 2 * (gid - self.n_hmetrics) as usize)
        }
    }

    pub fn glyph_bytes(&self, gid: u16) -> R<&'a [u8]> {
        if gid >= self.num_glyphs {
            return issue("gid-range", format!("glyph {gid} of {}", self.num_glyphs));
        }
        Ok(&self.glyf[self.loca[gid as usize] as usize..self.loca[gid as usize + 1] as usize])
    }

    pub fn glyph(&self, gid: u16) -> R<Glyph> {
        parse_glyph(self.glyph_bytes(gid)?).map_err(|e| Issue { clause: e.clause, detail: format!("glyph {gid}: {}", e.detail) })
    }

    /// Outline of a glyph with composites expanded (component transforms and offsets applied,
    /// point-matching resolved), as a list of contours in font units.
    pub fn flatten(&self, gid: u16) -> R<Outline> {
        let mut stack = Vec::new();
        self.flatten_rec(gid, &mut stack)
    }

    fn flatten_rec(&self, gid: u16, stack: &mut Vec<u16>) -> R<Outline> {
        if stack.contains(&gid) {
            return issue("composite-cycle", format!("glyph {gid} is a component of itself via {stack:?}"));
        }
        if stack.len() >= MAX_COMPONENT_DEPTH {
            return issue("composite-depth", format!("component nesting deeper than {MAX_COMPONENT_DEPTH} at {stack:?}"));
        }
        match self.glyph(gid)? {
            Glyph::Empty => Ok(Vec::new()),
            Glyph::Simple { contours, .. } => Ok(contours.into_iter().map(|c| c.into_iter().map(|(x, y, on)| Pt { x: x as f64, y: y as f64, on }).collect()).collect()),
            Glyph::Composite { comps, .. } => {
                stack.push(gid);
                let mut out: Outline = Vec::new();
                for c in &comps {
                    if c.gid >= self.num_glyphs {
                        stack.pop();
                        return issue("component-range", format!("glyph {gid}: component glyph {} with numGlyphs {}", c.gid, self.num_glyphs));
                    }
                    let child = self.flatten_rec(c.gid, stack)?;
                    let [a, b, cc, d] = c.m;
                    let mut tr: Outline = child.iter().map(|ct| ct.iter().map(|p| Pt { x: a * p.x + cc * p.y, y: b * p.x + d * p.y, on: p.on }).collect()).collect();
                    let (e, f) = if c.flags & ARGS_ARE_XY_VALUES != 0 {
                        let (e, f) = (c.arg1 as f64, c.arg2 as f64);
                        if c.flags & SCALED_COMPONENT_OFFSET != 0 && c.flags & UNSCALED_COMPONENT_OFFSET == 0 {
                            (a * e + cc * f, b * e + d * f)
                        } else {
                            (e, f)
                        }
                    } else {
                        // point matching: arg1 = point of the compound glyph so far, arg2 = point of the new component
                        let parent: Vec<&Pt> = out.iter().flatten().collect();
                        let kid: Vec<&Pt> = tr.iter().flatten().collect();
                        let (Some(pp), Some(kp)) = (parent.get(c.arg1 as usize), kid.get(c.arg2 as usize)) else {
                            stack.pop();
                            return issue(
                                "component-point-match",
                                format!("glyph {gid}: matching points {} / {} with {} parent and {} component points", c.arg1, c.arg2, parent.len(), kid.len()),
                            );
                        };
                        (pp.x - kp.x, pp.y - kp.y)
                    };
                    for ct in &mut tr {
                        for p in ct.iter_mut() {
                            p.x += e;
                            p.y += f;
                        }
                    }
                    out.extend(tr);
                }
                stack.pop();
                Ok(out)
            }
        }
    }

    /// Component glyph ids reachable from `gid` (closure), for classification.
    pub fn component_depth(&self, gid: u16) -> usize {
        fn rec(f: &TtFont, g: u16, d: usize) -> usize {
            if d > MAX_COMPONENT_DEPTH {
                return d;
            }
            match f.glyph(g) {
                Ok(Glyph::Composite { comps, .. }) => 1 + comps.iter().filter(|c| c.gid < f.num_glyphs).map(|c| rec(f, c.gid, d + 1)).max().unwrap_or(0),
                _ => 0,
            }
        }
        rec(self, gid, 0)
    }

    /// Every glyph parses, component ids are in range and acyclic.
    pub fn glyph_issues(&self) -> Vec<Issue> {
        let mut v = Vec::new();
        for g in 0..self.num_glyphs {
            if let Err(e) = self.flatten(g) {
                v.push(e);
                if v.len() >= 4 {
                    break;
                }
            }
        }
        v
    }
}

// ------------------------------------------------------------------------------------------------
// cmap
// ------------------------------------------------------------------------------------------------

#[derive(Clone, Debug)]
pub struct CmapSub {
    pub platform: u16,
    pub encoding: u16,
    pub format: u16,
    /// code → glyph id, glyph 0 (missing glyph) entries omitted
    pub map: BTreeMap<u32, u16>,
    pub supported: bool,
}

pub fn parse_cmap(t: &[u8]) -> R<Vec<CmapSub>> {
    let n = be16(t, 2)? as usize;
    let mut subs = Vec::new();
    for i in 0..n {
        let r = 4 + 8 * i;
        let (platform, encoding, off) = (be16(t, r)?, be16(t, r + 2)?, be32(t, r + 4)? as usize);
        let format = be16(t, off)?;
        let mut map = BTreeMap::new();
        let mut supported = true;
        match format {
            0 => {
                for c in 0..256usize {
                    let g = byte(t, off + 6 + c)? as u16;
                    if g != 0 {
                        map.insert(c as u32, g);
                    }
                }
            }
            4 => {
                let segx2 = be16(t, off + 6)? as usize;
                let seg = segx2 / 2;
                let end0 = off + 14;
                let start0 = end0 + segx2 + 2;
                let delta0 = start0 + segx2;
                let range0 = delta0 + segx2;
                for s in 0..seg {
                    let end = be16(t, end0 + 2 * s)? as u32;
                    let start = be16(t, start0 + 2 * s)? as u32;
                    let delta = be16(t, delta0 + 2 * s)? as u32;
                    let ro = be16(t, range0 + 2 * s)? as usize;
                    if start > end {
                        continue;
                    }
                    for c in start..=end {
                        let g = if ro == 0 {
                            (c + delta) & 0xFFFF
                        } else {
                            let a = range0 + 2 * s + ro + 2 * (c - start) as usize;
                            // the terminating 0xFFFF segment may point outside the array
                            let raw = match be16(t, a) {
                                Ok(v) => v as u32,
                                Err(_) if c == 0xFFFF => 0,
                                Err(e) => return Err(e),
                            };
                            if raw == 0 {
                                0
                            } else {
                                (raw + delta) & 0xFFFF
                            }
                        };
                        if g != 0 {
                            map.insert(c, g as u16);
                        }
                    }
                }
            }
            6 => {
                let first = be16(t, off + 6)? as u32;
                let cnt = be16(t, off + 8)? as u32;
                for i in 0..cnt {
                    let g = be16(t, off + 10 + 2 * i as usize)?;
                    if g != 0 {
                        map.insert(first + i, g);
                    }
                }
            }
            12 => {
                let ng = be32(t, off + 12)? as usize;
                for g in 0..ng {
                    let o = off + 16 + 12 * g;
                    let (s, e, sg) = (be32(t, o)?, be32(t, o + 4)?, be32(t, o + 8)?);
                    if e < s || e > 0x10FFFF {
                        return issue("cmap-structure", format!("format 12 group {s:#x}..{e:#x}"));
                    }
                    for c in s..=e {
                        let gid = sg + (c - s);
                        if gid != 0 && gid <= 0xFFFF {
                            map.insert(c, gid as u16);
                        }
                    }
                }
            }
            _ => supported = false,
        }
        subs.push(CmapSub { platform, encoding, format, map, supported });
    }
    Ok(subs)
}

/// The Unicode subtable a consumer should use (OpenType cmap chapter, "Encoding records and
/// encodings"): full-repertoire encodings before BMP-only ones, Windows before Unicode platform.
pub fn best_unicode(subs: &[CmapSub]) -> Option<&CmapSub> {
    let rank = |s: &CmapSub| -> u8 {
        if !s.supported {
            return 0;
        }
        match (s.platform, s.encoding) {
            (3, 10) => 6,
            (0, 4) | (0, 6) => 5,
            (3, 1) => 4,
            (0, 3) => 3,
            (0, 0..=2) => 2,
            _ => 0,
        }
    };
    let mut best: Option<&CmapSub> = None;
    for s in subs {
        if rank(s) > 0 && best.map(|b| rank(s) > rank(b)).unwrap_or(true) {
            best = Some(s);
        }
    }
    best
}

pub fn unicode_cmap(sfnt: &Sfnt) -> R<BTreeMap<u32, u16>> {
    let subs = parse_cmap(sfnt.table(b"cmap")?)?;
    Ok(best_unicode(&subs).map(|s| s.map.clone()).unwrap_or_default())
}

/// hmtx/hhea/maxp reading for fonts without glyf (OpenType/CFF).
pub struct HMetrics<'a> {
    pub num_glyphs: u16,
    pub n_hmetrics: u16,
    pub hmtx: &'a [u8],
}

impl<'a> HMetrics<'a> {
    pub fn parse(sfnt: &Sfnt<'a>) -> R<Self> {
        let maxp = sfnt.table(b"maxp")?;
        let num_glyphs = be16(maxp, 4)?;
        let hhea = sfnt.table(b"hhea")?;
        let n_hmetrics = be16(hhea, 34)?;
        let hmtx = sfnt.table(b"hmtx")?;
        if n_hmetrics == 0 || n_hmetrics > num_glyphs || hmtx.len() < 4 * n_hmetrics as usize + 2 * (num_glyphs - n_hmetrics) as usize {
            return issue("hmtx-coverage", format!("numberOfHMetrics {n_hmetrics}, numGlyphs {num_glyphs}, hmtx {} bytes", hmtx.len()));
        }
        Ok(HMetrics { num_glyphs, n_hmetrics, hmtx })
    }
    pub fn advance(&self, gid: u16) -> R<u16> {
        if gid >= self.num_glyphs {
            return issue("gid-range", format!("glyph {gid} of {}", self.num_glyphs));
        }
        be16(self.hmtx, 4 * gid.min(self.n_hmetrics - 1) as usize)
    }
}

/// Set of glyph ids that are composite, and of those nested (a component is itself composite).
pub fn composite_sets(f: &TtFont) -> (BTreeSet<u16>, BTreeSet<u16>) {
    let mut comp = BTreeSet::new();
    let mut kids: BTreeMap<u16, Vec<u16>> = BTreeMap::new();
    for g in 0..f.num_glyphs {
        if let Ok(Glyph::Composite { comps, .. }) = f.glyph(g) {
            comp.insert(g);
            kids.insert(g, comps.iter().map(|c| c.gid).collect());
        }
    }
    let nested = comp.iter().copied().filter(|g| kids[g].iter().any(|k| comp.contains(k))).collect();
    (comp, nested)
}
