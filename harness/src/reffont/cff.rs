//! CFF reader (Adobe Technical Note 5176, "The Compact Font Format Specification") and Type 2
//! charstring interpreter (Technical Note 5177), written from the two notes.
use super::{be16, byte, issue, Issue, R};
use std::collections::BTreeMap;

#[derive(Clone, Debug)]
pub struct Index {
    pub count: usize,
    /// absolute offsets (count + 1 of them, empty when count = 0)
    pub offs: Vec<usize>,
    /// absolute offset of the first byte after the INDEX
    pub end: usize,
}

impl Index {
    pub fn item<'a>(&self, d: &'a [u8], i: usize) -> Option<&'a [u8]> {
        if i >= self.count {
            return None;
        }
        d.get(self.offs[i]..self.offs[i + 1])
    }
}

/// TN 5176 §5: count, offSize, offset[count+1] (first = 1, non-decreasing), data.
pub fn parse_index(d: &[u8], pos: usize) -> R<Index> {
    let count = be16(d, pos).map_err(|_| Issue { clause: "cff-index", detail: format!("INDEX at {pos}: count beyond data ({})", d.len()) })? as usize;
    if count == 0 {
        return Ok(Index { count, offs: Vec::new(), end: pos + 2 });
    }
    let osz = byte(d, pos + 2).map_err(|_| Issue { clause: "cff-index", detail: format!("INDEX at {pos}: offSize beyond data") })? as usize;
    if !(1..=4).contains(&osz) {
        return issue("cff-index", format!("INDEX at {pos}: offSize {osz}"));
    }
    let arr = pos + 3;
    let base = arr + (count + 1) * osz - 1; // offsets are relative to the byte preceding the data
    if base + 1 > d.len() {
        return issue("cff-index", format!("INDEX at {pos}: offset array of {count}+1 entries beyond data"));
    }
    let mut offs = Vec::with_capacity(count + 1);
    for i in 0..=count {
        let mut v = 0usize;
        for k in 0..osz {
            v = (v << 8) | d[arr + i * osz + k] as usize;
        }
        if i == 0 && v != 1 {
            return issue("cff-index-offsets", format!("INDEX at {pos}: first offset {v}, must be 1"));
        }
        if i > 0 && base + v < offs[i - 1] {
            return issue("cff-index-offsets", format!("INDEX at {pos}: offset[{i}] = {v} smaller than the previous one"));
        }
        offs.push(base + v);
    }
    let end = *offs.last().unwrap();
    if end > d.len() {
        return issue("cff-index-offsets", format!("INDEX at {pos}: data end {end} beyond table length {}", d.len()));
    }
    Ok(Index { count, offs, end })
}

pub type Dict = Vec<(u16, Vec<f64>)>;

/// TN 5176 §4: DICT data. Two-byte operators 12 x are returned as 0x0C00 | x.
pub fn parse_dict(d: &[u8]) -> R<Dict> {
    let mut out = Vec::new();
    let mut st: Vec<f64> = Vec::new();
    let mut p = 0;
    let trunc = || Issue { clause: "cff-dict", detail: "truncated DICT".to_string() };
    while p < d.len() {
        let b = d[p];
        match b {
            0..=11 | 13..=21 => {
                out.push((b as u16, std::mem::take(&mut st)));
                p += 1;
            }
            12 => {
                let b1 = *d.get(p + 1).ok_or_else(trunc)?;
                out.push((0x0C00 | b1 as u16, std::mem::take(&mut st)));
                p += 2;
            }
            28 => {
                let s = d.get(p + 1..p + 3).ok_or_else(trunc)?;
                st.push(i16::from_be_bytes([s[0], s[1]]) as f64);
                p += 3;
            }
            29 => {
                let s = d.get(p + 1..p + 5).ok_or_else(trunc)?;
                st.push(i32::from_be_bytes([s[0], s[1], s[2], s[3]]) as f64);
                p += 5;
            }
            30 => {
                let mut txt = String::new();
                p += 1;
                'outer: loop {
                    let by = *d.get(p).ok_or_else(trunc)?;
                    p += 1;
                    for nib in [by >> 4, by & 15] {
                        match nib {
                            0..=9 => txt.push((b'0' + nib) as char),
                            10 => txt.push('.'),
                            11 => txt.push('E'),
                            12 => txt.push_str("E-"),
                            14 => txt.push('-'),
                            15 => break 'outer,
                            _ => return issue("cff-dict", "reserved nibble 13 in real number"),
                        }
                    }
                }
                st.push(txt.parse::<f64>().map_err(|_| Issue { clause: "cff-dict", detail: format!("real number {txt:?}") })?);
            }
            32..=246 => {
                st.push(b as f64 - 139.0);
                p += 1;
            }
            247..=250 => {
                let b1 = *d.get(p + 1).ok_or_else(trunc)? as f64;
                st.push((b as f64 - 247.0) * 256.0 + b1 + 108.0);
                p += 2;
            }
            251..=254 => {
                let b1 = *d.get(p + 1).ok_or_else(trunc)? as f64;
                st.push(-(b as f64 - 251.0) * 256.0 - b1 - 108.0);
                p += 2;
            }
            _ => return issue("cff-dict", format!("reserved DICT byte {b}")),
        }
    }
    if !st.is_empty() {
        return issue("cff-dict", "operands without operator at end of DICT");
    }
    Ok(out)
}

pub fn dict_get<'a>(d: &'a Dict, op: u16) -> Option<&'a Vec<f64>> {
    d.iter().find(|(o, _)| *o == op).map(|(_, v)| v)
}

#[derive(Clone, Debug)]
pub struct Private {
    pub default_width: f64,
    pub nominal_width: f64,
    pub subrs: Option<Index>,
}

pub struct Cff<'a> {
    pub d: &'a [u8],
    pub top: Dict,
    pub name_count: usize,
    pub string_count: usize,
    pub gsubrs: Index,
    pub charstrings: Index,
    /// SID or CID per glyph ([0] = 0)
    pub charset: Vec<u16>,
    pub is_cid: bool,
    pub fds: Vec<Private>,
    pub fd_select: Vec<u8>,
    pub font_matrix: Option<Vec<f64>>,
}

pub fn subr_bias(count: usize) -> i64 {
    if count < 1240 {
        107
    } else if count < 33900 {
        1131
    } else {
        32768
    }
}

fn int_operand(v: Option<&Vec<f64>>, k: usize, what: &str) -> R<usize> {
    match v.and_then(|v| v.get(k)) {
        Some(&x) if x >= 0.0 && x.fract() == 0.0 => Ok(x as usize),
        other => issue("cff-dict", format!("{what}: operand {other:?}")),
    }
}

fn parse_private(d: &[u8], size: usize, off: usize) -> R<Private> {
    let Some(bytes) = d.get(off..off.saturating_add(size)) else {
        return issue("cff-private-bounds", format!("Private DICT offset {off} size {size} beyond table length {}", d.len()));
    };
    let pd = parse_dict(bytes)?;
    let default_width = dict_get(&pd, 20).and_then(|v| v.first().copied()).unwrap_or(0.0);
    let nominal_width = dict_get(&pd, 21).and_then(|v| v.first().copied()).unwrap_or(0.0);
    let subrs = match dict_get(&pd, 19) {
        Some(v) => Some(parse_index(d, off + int_operand(Some(v), 0, "Subrs")?)?),
        None => None,
    };
    Ok(Private { default_width, nominal_width, subrs })
}

impl<'a> Cff<'a> {
    pub fn parse(d: &'a [u8]) -> R<Self> {
        if d.len() < 4 {
            return issue("cff-header", format!("CFF data of {} bytes", d.len()));
        }
        let (major, hdr, osz) = (d[0], d[2] as usize, d[3]);
        if major != 1 || hdr < 4 || hdr > d.len() || !(1..=4).contains(&osz) {
            return issue("cff-header", format!("major {major} hdrSize {hdr} offSize {osz}"));
        }
        let names = parse_index(d, hdr)?;
        let tops = parse_index(d, names.end)?;
        let strings = parse_index(d, tops.end)?;
        let gsubrs = parse_index(d, strings.end)?;
        if tops.count != 1 || names.count != 1 {
            return issue("cff-header", format!("Name INDEX has {} entries, Top DICT INDEX {}; a font file embeds exactly one font", names.count, tops.count));
        }
        let top = parse_dict(tops.item(d, 0).unwrap())?;
        let cs_off = int_operand(dict_get(&top, 17), 0, "CharStrings")?;
        let charstrings = parse_index(d, cs_off)?;
        let n = charstrings.count;
        if n == 0 {
            return issue("glyph0-present", "CharStrings INDEX is empty");
        }
        let is_cid = dict_get(&top, 0x0C1E).is_some();
        // charset
        let mut charset = vec![0u16];
        let cso = match dict_get(&top, 15) {
            Some(v) => int_operand(Some(v), 0, "charset")?,
            None => 0,
        };
        if cso <= 2 {
            if is_cid {
                return issue("cff-charset", "CID-keyed font with a predefined charset");
            }
            // predefined charsets (ISOAdobe / Expert / ExpertSubset): identity SIDs are enough here
            for g in 1..n {
                charset.push(g as u16);
            }
        } else {
            let fmt = byte(d, cso).map_err(|_| Issue { clause: "cff-charset", detail: format!("charset offset {cso} beyond table") })?;
            let mut p = cso + 1;
            let tr = |_| Issue { clause: "cff-charset", detail: format!("charset format {fmt} truncated: covers fewer than {n} glyphs") };
            match fmt {
                0 => {
                    for _ in 1..n {
                        charset.push(be16(d, p).map_err(tr)?);
                        p += 2;
                    }
                }
                1 | 2 => {
                    while charset.len() < n {
                        let first = be16(d, p).map_err(tr)? as u32;
                        let left = if fmt == 1 {
                            p += 3;
                            byte(d, p - 1).map_err(tr)? as u32
                        } else {
                            p += 4;
                            be16(d, p - 2).map_err(tr)? as u32
                        };
                        for k in 0..=left {
                            if charset.len() < n {
                                charset.push((first + k) as u16);
                            }
                        }
                    }
                }
                _ => return issue("cff-charset", format!("charset format {fmt}")),
            }
        }
        let mut fds = Vec::new();
        let mut fd_select = vec![0u8; n];
        if is_cid {
            let fda = parse_index(d, int_operand(dict_get(&top, 0x0C24), 0, "FDArray")?)?;
            if fda.count == 0 || fda.count > 256 {
                return issue("cff-fdarray", format!("FDArray with {} font dicts", fda.count));
            }
            for i in 0..fda.count {
                let fd = parse_dict(fda.item(d, i).unwrap())?;
                match dict_get(&fd, 18) {
                    Some(v) => fds.push(parse_private(d, int_operand(Some(v), 0, "Private size")?, int_operand(Some(v), 1, "Private offset")?)?),
                    None => return issue("cff-fdarray", format!("font DICT {i} has no Private entry")),
                }
            }
            let fso = int_operand(dict_get(&top, 0x0C25), 0, "FDSelect")?;
            let fmt = byte(d, fso).map_err(|_| Issue { clause: "cff-fdselect", detail: format!("FDSelect offset {fso} beyond table") })?;
            let tr = |_| Issue { clause: "cff-fdselect", detail: format!("FDSelect format {fmt} truncated for {n} glyphs") };
            match fmt {
                0 => {
                    for g in 0..n {
                        fd_select[g] = byte(d, fso + 1 + g).map_err(tr)?;
                    }
                }
                3 => {
                    let nr = be16(d, fso + 1).map_err(tr)? as usize;
                    let mut covered = 0usize;
                    for r in 0..nr {
                        let first = be16(d, fso + 3 + 3 * r).map_err(tr)? as usize;
                        let fd = byte(d, fso + 5 + 3 * r).map_err(tr)?;
                        let next = be16(d, fso + 3 + 3 * (r + 1)).map_err(tr)? as usize;
                        if first != covered || next <= first {
                            return issue("cff-fdselect", format!("FDSelect format 3 range {r}: first {first}, next {next}, expected first {covered}"));
                        }
                        for g in first..next.min(n) {
                            fd_select[g] = fd;
                        }
                        covered = next;
                    }
                    if covered != n {
                        return issue("cff-fdselect", format!("FDSelect format 3 sentinel {covered}, glyph count {n}"));
                    }
                }
                _ => return issue("cff-fdselect", format!("FDSelect format {fmt}")),
            }
            if let Some((g, fd)) = fd_select.iter().enumerate().find(|(_, &fd)| fd as usize >= fds.len()) {
                return issue("cff-fdselect", format!("glyph {g} selects font DICT {fd} of {}", fds.len()));
            }
        } else {
            match dict_get(&top, 18) {
                Some(v) => fds.push(parse_private(d, int_operand(Some(v), 0, "Private size")?, int_operand(Some(v), 1, "Private offset")?)?),
                None => return issue("cff-dict", "Top DICT has no Private entry"),
            }
        }
        let font_matrix = dict_get(&top, 0x0C07).cloned();
        Ok(Cff { d, top, name_count: names.count, string_count: strings.count, gsubrs, charstrings, charset, is_cid, fds, fd_select, font_matrix })
    }

    pub fn num_glyphs(&self) -> usize {
        self.charstrings.count
    }

    pub fn run(&self, gid: usize) -> R<CsResult> {
        let Some(cs) = self.charstrings.item(self.d, gid) else { return issue("gid-range", format!("glyph {gid} of {}", self.charstrings.count)) };
        let fd = &self.fds[self.fd_select[gid] as usize];
        let mut m = Machine { d: self.d, gsubrs: &self.gsubrs, lsubrs: fd.subrs.as_ref(), st: Vec::new(), x: 0.0, y: 0.0, path: Vec::new(), width: None, have_width: false, hints: 0, ended: false, max_depth: 0, calls: 0, masks: 0, steps: 0, trans: [0.0; 32] };
        m.exec(cs, 0).map_err(|e| Issue { clause: e.clause, detail: format!("glyph {gid}: {}", e.detail) })?;
        Ok(CsResult {
            width: match m.width {
                Some(w) => fd.nominal_width + w,
                None => fd.default_width,
            },
            path: m.path,
            ended: m.ended,
            hints: m.hints,
            subr_calls: m.calls,
            max_depth: m.max_depth,
            masks: m.masks,
        })
    }

    /// Every charstring is interpretable and terminates with endchar.
    pub fn charstring_issues(&self) -> Vec<Issue> {
        let mut v = Vec::new();
        for g in 0..self.num_glyphs() {
            match self.run(g) {
                Ok(r) if !r.ended => v.push(Issue { clause: "charstring-endchar", detail: format!("glyph {g}: charstring ends without endchar") }),
                Ok(_) => {}
                Err(e) => v.push(e),
            }
            if v.len() >= 4 {
                break;
            }
        }
        v
    }
}

#[derive(Clone, Copy, Debug, PartialEq)]
pub enum Seg {
    Move(f64, f64),
    Line(f64, f64),
    Curve(f64, f64, f64, f64, f64, f64),
}

#[derive(Clone, Debug, PartialEq)]
pub struct CsResult {
    pub width: f64,
    pub path: Vec<Seg>,
    pub ended: bool,
    pub hints: usize,
    pub subr_calls: usize,
    pub max_depth: usize,
    pub masks: usize,
}

struct Machine<'a> {
    d: &'a [u8],
    gsubrs: &'a Index,
    lsubrs: Option<&'a Index>,
    st: Vec<f64>,
    x: f64,
    y: f64,
    path: Vec<Seg>,
    width: Option<f64>,
    have_width: bool,
    hints: usize,
    ended: bool,
    max_depth: usize,
    calls: usize,
    masks: usize,
    steps: usize,
    trans: [f64; 32],
}

fn cs_err<T>(detail: impl Into<String>) -> R<T> {
    issue("charstring", detail)
}

impl<'a> Machine<'a> {
    /// Takes the optional width argument at the first stack-clearing operator (TN 5177 §3.1, §4.1).
    fn take_width(&mut self, has_extra: bool) {
        if !self.have_width {
            self.have_width = true;
            if has_extra {
                self.width = Some(self.st.remove(0));
            }
        }
    }
    fn line(&mut self, dx: f64, dy: f64) {
        self.x += dx;
        self.y += dy;
        self.path.push(Seg::Line(self.x, self.y));
    }
    fn mv(&mut self, dx: f64, dy: f64) {
        self.x += dx;
        self.y += dy;
        self.path.push(Seg::Move(self.x, self.y));
    }
    fn curve(&mut self, a: f64, b: f64, c: f64, d: f64, e: f64, f: f64) {
        let (x1, y1) = (self.x + a, self.y + b);
        let (x2, y2) = (x1 + c, y1 + d);
        self.x = x2 + e;
        self.y = y2 + f;
        self.path.push(Seg::Curve(x1, y1, x2, y2, self.x, self.y));
    }
    fn pop(&mut self) -> R<f64> {
        self.st.pop().ok_or(Issue { clause: "charstring", detail: "stack underflow".into() })
    }

    fn exec(&mut self, cs: &[u8], depth: usize) -> R<()> {
        if depth > 10 {
            return cs_err("subroutine nesting deeper than 10 (TN 5177 Appendix B)");
        }
        self.max_depth = self.max_depth.max(depth);
        let mut p = 0usize;
        while p < cs.len() {
            self.steps += 1;
            if self.steps > 2_000_000 {
                return cs_err("more than 2 000 000 interpreter steps");
            }
            let b = cs[p];
            p += 1;
            match b {
                28 => {
                    let s = cs.get(p..p + 2).ok_or(Issue { clause: "charstring", detail: "truncated number".into() })?;
                    self.st.push(i16::from_be_bytes([s[0], s[1]]) as f64);
                    p += 2;
                }
                32..=246 => self.st.push(b as f64 - 139.0),
                247..=250 => {
                    let b1 = *cs.get(p).ok_or(Issue { clause: "charstring", detail: "truncated number".into() })? as f64;
                    p += 1;
                    self.st.push((b as f64 - 247.0) * 256.0 + b1 + 108.0);
                }
                251..=254 => {
                    let b1 = *cs.get(p).ok_or(Issue { clause: "charstring", detail: "truncated number".into() })? as f64;
                    p += 1;
                    self.st.push(-(b as f64 - 251.0) * 256.0 - b1 - 108.0);
                }
                255 => {
                    let s = cs.get(p..p + 4).ok_or(Issue { clause: "charstring", detail: "truncated number".into() })?;
                    self.st.push(i32::from_be_bytes([s[0], s[1], s[2], s[3]]) as f64 / 65536.0);
                    p += 4;
                }
                // hstem vstem hstemhm vstemhm
                1 | 3 | 18 | 23 => {
                    let odd = self.st.len() % 2 == 1;
                    self.take_width(odd);
                    if self.st.len() % 2 != 0 {
                        return cs_err(format!("stem operator {b} with an odd number of arguments"));
                    }
                    self.hints += self.st.len() / 2;
                    self.st.clear();
                }
                19 | 20 => {
                    let odd = self.st.len() % 2 == 1;
                    self.take_width(odd);
                    if self.st.len() % 2 != 0 {
                        return cs_err("implicit vstem before hintmask with an odd number of arguments");
                    }
                    self.hints += self.st.len() / 2;
                    self.st.clear();
                    let nb = self.hints.div_ceil(8);
                    if p + nb > cs.len() {
                        return cs_err(format!("hintmask needs {nb} mask bytes, {} left", cs.len() - p));
                    }
                    p += nb;
                    self.masks += 1;
                }
                21 => {
                    let extra = self.st.len() > 2;
                    self.take_width(extra);
                    if self.st.len() != 2 {
                        return cs_err(format!("rmoveto with {} arguments", self.st.len()));
                    }
                    let (dx, dy) = (self.st[0], self.st[1]);
                    self.mv(dx, dy);
                    self.st.clear();
                }
                22 => {
                    let extra = self.st.len() > 1;
                    self.take_width(extra);
                    if self.st.len() != 1 {
                        return cs_err(format!("hmoveto with {} arguments", self.st.len()));
                    }
                    let dx = self.st[0];
                    self.mv(dx, 0.0);
                    self.st.clear();
                }
                4 => {
                    let extra = self.st.len() > 1;
                    self.take_width(extra);
                    if self.st.len() != 1 {
                        return cs_err(format!("vmoveto with {} arguments", self.st.len()));
                    }
                    let dy = self.st[0];
                    self.mv(0.0, dy);
                    self.st.clear();
                }
                5 => {
                    if self.st.is_empty() || self.st.len() % 2 != 0 {
                        return cs_err(format!("rlineto with {} arguments", self.st.len()));
                    }
                    let a = std::mem::take(&mut self.st);
                    for c in a.chunks(2) {
                        self.line(c[0], c[1]);
                    }
                }
                6 | 7 => {
                    if self.st.is_empty() {
                        return cs_err("hlineto/vlineto without arguments");
                    }
                    let a = std::mem::take(&mut self.st);
                    let mut horiz = b == 6;
                    for &v in &a {
                        if horiz {
                            self.line(v, 0.0);
                        } else {
                            self.line(0.0, v);
                        }
                        horiz = !horiz;
                    }
                }
                8 => {
                    if self.st.is_empty() || self.st.len() % 6 != 0 {
                        return cs_err(format!("rrcurveto with {} arguments", self.st.len()));
                    }
                    let a = std::mem::take(&mut self.st);
                    for c in a.chunks(6) {
                        self.curve(c[0], c[1], c[2], c[3], c[4], c[5]);
                    }
                }
                24 => {
                    // rcurveline
                    if self.st.len() < 8 || (self.st.len() - 2) % 6 != 0 {
                        return cs_err(format!("rcurveline with {} arguments", self.st.len()));
                    }
                    let a = std::mem::take(&mut self.st);
                    let n = a.len() - 2;
                    for c in a[..n].chunks(6) {
                        self.curve(c[0], c[1], c[2], c[3], c[4], c[5]);
                    }
                    self.line(a[n], a[n + 1]);
                }
                25 => {
                    // rlinecurve
                    if self.st.len() < 8 || (self.st.len() - 6) % 2 != 0 {
                        return cs_err(format!("rlinecurve with {} arguments", self.st.len()));
                    }
                    let a = std::mem::take(&mut self.st);
                    let n = a.len() - 6;
                    for c in a[..n].chunks(2) {
                        self.line(c[0], c[1]);
                    }
                    let c = &a[n..];
                    self.curve(c[0], c[1], c[2], c[3], c[4], c[5]);
                }
                26 => {
                    // vvcurveto: dx1? {dya dxb dyb dyc}+
                    let a = std::mem::take(&mut self.st);
                    let (mut dx1, body) = if a.len() % 4 == 1 { (a[0], &a[1..]) } else { (0.0, &a[..]) };
                    if body.is_empty() || body.len() % 4 != 0 {
                        return cs_err(format!("vvcurveto with {} arguments", a.len()));
                    }
                    for c in body.chunks(4) {
                        self.curve(dx1, c[0], c[1], c[2], 0.0, c[3]);
                        dx1 = 0.0;
                    }
                }
                27 => {
                    // hhcurveto: dy1? {dxa dxb dyb dxc}+
                    let a = std::mem::take(&mut self.st);
                    let (mut dy1, body) = if a.len() % 4 == 1 { (a[0], &a[1..]) } else { (0.0, &a[..]) };
                    if body.is_empty() || body.len() % 4 != 0 {
                        return cs_err(format!("hhcurveto with {} arguments", a.len()));
                    }
                    for c in body.chunks(4) {
                        self.curve(c[0], dy1, c[1], c[2], c[3], 0.0);
                        dy1 = 0.0;
                    }
                }
                30 | 31 => {
                    // vhcurveto (30) / hvcurveto (31): alternating, optional last argument on the final curve
                    let a = std::mem::take(&mut self.st);
                    let n = a.len();
                    if n < 4 || !(n % 4 == 0 || n % 4 == 1) {
                        return cs_err(format!("hvcurveto/vhcurveto with {n} arguments"));
                    }
                    let mut horiz = b == 31;
                    let mut i = 0;
                    while i + 4 <= n {
                        let last = i + 8 > n; // this is the final curve
                        let extra = if last && n % 4 == 1 { a[n - 1] } else { 0.0 };
                        let c = &a[i..i + 4];
                        if horiz {
                            // dx1 dx2 dy2 dy3 (dxf)
                            self.curve(c[0], 0.0, c[1], c[2], extra, c[3]);
                        } else {
                            // dy1 dx2 dy2 dx3 (dyf)
                            self.curve(0.0, c[0], c[1], c[2], c[3], extra);
                        }
                        horiz = !horiz;
                        i += 4;
                    }
                }
                10 | 29 => {
                    let idx = self.pop()?;
                    let index = if b == 10 {
                        match self.lsubrs {
                            Some(i) => i,
                            None => return cs_err("callsubr without a local Subrs INDEX"),
                        }
                    } else {
                        self.gsubrs
                    };
                    let k = idx as i64 + subr_bias(index.count);
                    if idx.fract() != 0.0 || k < 0 || k as usize >= index.count {
                        return cs_err(format!("subroutine number {idx} (+bias {}) outside INDEX of {}", subr_bias(index.count), index.count));
                    }
                    let body = index.item(self.d, k as usize).unwrap();
                    self.calls += 1;
                    self.exec(body, depth + 1)?;
                    if self.ended {
                        return Ok(());
                    }
                }
                11 => return Ok(()),
                14 => {
                    let extra = self.st.len() == 1 || self.st.len() == 5;
                    self.take_width(extra);
                    if self.st.len() == 4 {
                        return cs_err("endchar with four arguments (seac-style accent composition) is not supported by the reference");
                    }
                    if !self.st.is_empty() {
                        return cs_err(format!("endchar with {} arguments", self.st.len()));
                    }
                    self.ended = true;
                    return Ok(());
                }
                12 => {
                    let b1 = *cs.get(p).ok_or(Issue { clause: "charstring", detail: "truncated escape operator".into() })?;
                    p += 1;
                    self.escape(b1)?;
                }
                _ => return cs_err(format!("reserved operator {b}")),
            }
        }
        Ok(())
    }

    fn escape(&mut self, b1: u8) -> R<()> {
        match b1 {
            34 => {
                // hflex dx1 dx2 dy2 dx3 dx4 dx5 dx6
                if self.st.len() != 7 {
                    return cs_err(format!("hflex with {} arguments", self.st.len()));
                }
                let a = std::mem::take(&mut self.st);
                self.curve(a[0], 0.0, a[1], a[2], a[3], 0.0);
                self.curve(a[4], 0.0, a[5], -a[2], a[6], 0.0);
            }
            35 => {
                // flex: 6 points + fd
                if self.st.len() != 13 {
                    return cs_err(format!("flex with {} arguments", self.st.len()));
                }
                let a = std::mem::take(&mut self.st);
                self.curve(a[0], a[1], a[2], a[3], a[4], a[5]);
                self.curve(a[6], a[7], a[8], a[9], a[10], a[11]);
            }
            36 => {
                // hflex1 dx1 dy1 dx2 dy2 dx3 dx4 dx5 dy5 dx6
                if self.st.len() != 9 {
                    return cs_err(format!("hflex1 with {} arguments", self.st.len()));
                }
                let a = std::mem::take(&mut self.st);
                self.curve(a[0], a[1], a[2], a[3], a[4], 0.0);
                self.curve(a[5], 0.0, a[6], a[7], a[8], -(a[1] + a[3] + a[7]));
            }
            37 => {
                // flex1 dx1 dy1 dx2 dy2 dx3 dy3 dx4 dy4 dx5 dy5 d6
                if self.st.len() != 11 {
                    return cs_err(format!("flex1 with {} arguments", self.st.len()));
                }
                let a = std::mem::take(&mut self.st);
                let dx = a[0] + a[2] + a[4] + a[6] + a[8];
                let dy = a[1] + a[3] + a[5] + a[7] + a[9];
                self.curve(a[0], a[1], a[2], a[3], a[4], a[5]);
                if dx.abs() > dy.abs() {
                    self.curve(a[6], a[7], a[8], a[9], a[10], -dy);
                } else {
                    self.curve(a[6], a[7], a[8], a[9], -dx, a[10]);
                }
            }
            3 => {
                let (b, a) = (self.pop()?, self.pop()?);
                self.st.push(if a != 0.0 && b != 0.0 { 1.0 } else { 0.0 });
            }
            4 => {
                let (b, a) = (self.pop()?, self.pop()?);
                self.st.push(if a != 0.0 || b != 0.0 { 1.0 } else { 0.0 });
            }
            5 => {
                let a = self.pop()?;
                self.st.push(if a == 0.0 { 1.0 } else { 0.0 });
            }
            9 => {
                let a = self.pop()?;
                self.st.push(a.abs());
            }
            10 => {
                let (b, a) = (self.pop()?, self.pop()?);
                self.st.push(a + b);
            }
            11 => {
                let (b, a) = (self.pop()?, self.pop()?);
                self.st.push(a - b);
            }
            12 => {
                let (b, a) = (self.pop()?, self.pop()?);
                self.st.push(a / b);
            }
            14 => {
                let a = self.pop()?;
                self.st.push(-a);
            }
            15 => {
                let (b, a) = (self.pop()?, self.pop()?);
                self.st.push(if a == b { 1.0 } else { 0.0 });
            }
            18 => {
                self.pop()?;
            }
            20 => {
                let (i, v) = (self.pop()?, self.pop()?);
                if !(0.0..32.0).contains(&i) {
                    return cs_err(format!("put index {i}"));
                }
                self.trans[i as usize] = v;
            }
            21 => {
                let i = self.pop()?;
                if !(0.0..32.0).contains(&i) {
                    return cs_err(format!("get index {i}"));
                }
                self.st.push(self.trans[i as usize]);
            }
            22 => {
                let (v2, v1, s2, s1) = (self.pop()?, self.pop()?, self.pop()?, self.pop()?);
                self.st.push(if v1 <= v2 { s1 } else { s2 });
            }
            23 => return cs_err("random is not deterministic; not supported by the reference"),
            24 => {
                let (b, a) = (self.pop()?, self.pop()?);
                self.st.push(a * b);
            }
            26 => {
                let a = self.pop()?;
                self.st.push(a.sqrt());
            }
            27 => {
                let a = self.pop()?;
                self.st.push(a);
                self.st.push(a);
            }
            28 => {
                let (b, a) = (self.pop()?, self.pop()?);
                self.st.push(b);
                self.st.push(a);
            }
            29 => {
                let i = self.pop()?;
                let n = self.st.len();
                let k = if i < 0.0 { 0 } else { i as usize };
                if k >= n {
                    return cs_err("index beyond stack");
                }
                self.st.push(self.st[n - 1 - k]);
            }
            30 => {
                let (j, n) = (self.pop()? as i64, self.pop()? as i64);
                let len = self.st.len() as i64;
                if n < 0 || n > len {
                    return cs_err("roll beyond stack");
                }
                if n > 0 {
                    let start = (len - n) as usize;
                    let k = j.rem_euclid(n) as usize;
                    self.st[start..].rotate_right(k);
                }
            }
            _ => return cs_err(format!("reserved operator 12 {b1}")),
        }
        Ok(())
    }
}

/// Widths and paths of all glyphs, convenience for calibration.
pub fn all_widths(c: &Cff) -> R<Vec<f64>> {
    (0..c.num_glyphs()).map(|g| c.run(g).map(|r| r.width)).collect()
}

pub fn dict_summary(d: &Dict) -> BTreeMap<u16, Vec<f64>> {
    d.iter().cloned().collect()
}
