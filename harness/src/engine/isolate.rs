//! Process isolation: placeholder, filled in with the worker pool (see DESIGN.md §3.2).
