//! Process isolation (DESIGN.md §3.2): a pool of `vp worker` children, each with RLIMIT_AS,
//! running one case at a time on an 8 MiB main-thread stack. A panic is caught inside the worker
//! (message + location come back); a stack overflow / abort / OOM kills only the worker and is
//! attributed to exactly the case it was running; a hang is cut by a timeout.
use std::io::{Read, Write};
use std::process::{Child, ChildStdin, ChildStdout, Command, Stdio};
use std::sync::{Condvar, Mutex};
use std::time::Duration;

/// Debug aid: when VERIF_DUMP names a directory, write `bytes` there as `<name>` (used with `vp replay`).
pub fn dump(name: &str, bytes: &[u8]) {
    if let Ok(d) = std::env::var("VERIF_DUMP") {
        let _ = std::fs::create_dir_all(&d);
        let _ = std::fs::write(std::path::Path::new(&d).join(name), bytes);
    }
}

#[derive(Debug, Clone)]
pub enum WorkerResult {
    /// the driver returned; payload is its reply
    Done(Vec<u8>),
    /// panic caught in the worker: (message, file:line)
    Panic(String, String),
    /// worker died: signal number (or exit code as negative), tail of its stderr
    Died { signal: i32, stderr: String },
    Timeout,
}

struct Worker {
    child: Child,
    stdin: ChildStdin,
    stdout: ChildStdout,
    stderr_path: std::path::PathBuf,
}

pub struct Pool {
    idle: Mutex<Vec<Worker>>,
    cv: Condvar,
    mem_limit: u64,
    pub spawned: std::sync::atomic::AtomicU64,
}

static COUNTER: std::sync::atomic::AtomicU64 = std::sync::atomic::AtomicU64::new(0);

fn spawn_worker(mem_limit: u64) -> std::io::Result<Worker> {
    let exe = std::env::current_exe()?;
    let id = COUNTER.fetch_add(1, std::sync::atomic::Ordering::SeqCst);
    let stderr_path = std::env::temp_dir().join(format!("vp-worker-{}-{}.err", std::process::id(), id));
    let errf = std::fs::File::create(&stderr_path)?;
    let mut child = Command::new(exe)
        .arg("worker")
        .arg(mem_limit.to_string())
        .stdin(Stdio::piped())
        .stdout(Stdio::piped())
        .stderr(errf)
        .env("RUST_BACKTRACE", "0")
        .spawn()?;
    let stdin = child.stdin.take().unwrap();
    let stdout = child.stdout.take().unwrap();
    Ok(Worker { child, stdin, stdout, stderr_path })
}

fn read_exact_timeout(out: &mut ChildStdout, buf: &mut [u8], deadline: std::time::Instant) -> Result<(), &'static str> {
    use std::os::unix::io::AsRawFd;
    let fd = out.as_raw_fd();
    let mut got = 0;
    while got < buf.len() {
        let now = std::time::Instant::now();
        if now >= deadline {
            return Err("timeout");
        }
        let ms = (deadline - now).as_millis().min(i32::MAX as u128) as i32;
        let mut p = libc::pollfd { fd, events: libc::POLLIN, revents: 0 };
        let r = unsafe { libc::poll(&mut p, 1, ms) };
        if r == 0 {
            return Err("timeout");
        }
        if r < 0 {
            continue;
        }
        match out.read(&mut buf[got..]) {
            Ok(0) => return Err("eof"),
            Ok(n) => got += n,
            Err(_) => return Err("eof"),
        }
    }
    Ok(())
}

impl Pool {
    pub fn new(n: usize, mem_limit: u64) -> Pool {
        let mut v = Vec::new();
        for _ in 0..n {
            match spawn_worker(mem_limit) {
                Ok(w) => v.push(w),
                Err(e) => eprintln!("cannot spawn worker: {e}"),
            }
        }
        Pool { idle: Mutex::new(v), cv: Condvar::new(), mem_limit, spawned: std::sync::atomic::AtomicU64::new(n as u64) }
    }

    fn take(&self) -> Worker {
        let mut g = self.idle.lock().unwrap();
        loop {
            if let Some(w) = g.pop() {
                return w;
            }
            g = self.cv.wait(g).unwrap();
        }
    }

    fn give(&self, w: Worker) {
        self.idle.lock().unwrap().push(w);
        self.cv.notify_one();
    }

    /// Run one case (`kind` selects the driver in `props::worker_dispatch`).
    pub fn run(&self, kind: &str, payload: &[u8], timeout: Duration) -> WorkerResult {
        let mut w = self.take();
        let mut req = Vec::with_capacity(payload.len() + kind.len() + 16);
        req.extend_from_slice(&(kind.len() as u32).to_le_bytes());
        req.extend_from_slice(kind.as_bytes());
        req.extend_from_slice(&(payload.len() as u64).to_le_bytes());
        req.extend_from_slice(payload);
        let sent = w.stdin.write_all(&req).and_then(|_| w.stdin.flush());
        let deadline = std::time::Instant::now() + timeout;
        let res = if sent.is_err() {
            Err("eof")
        } else {
            let mut head = [0u8; 9];
            match read_exact_timeout(&mut w.stdout, &mut head, deadline) {
                Err(e) => Err(e),
                Ok(()) => {
                    let len = u64::from_le_bytes(head[1..9].try_into().unwrap()) as usize;
                    let mut body = vec![0u8; len.min(1 << 30)];
                    match read_exact_timeout(&mut w.stdout, &mut body, deadline) {
                        Err(e) => Err(e),
                        Ok(()) => Ok((head[0], body)),
                    }
                }
            }
        };
        match res {
            Ok((0, body)) => {
                self.give(w);
                WorkerResult::Done(body)
            }
            Ok((_, body)) => {
                self.give(w);
                let s = String::from_utf8_lossy(&body).into_owned();
                let (msg, loc) = s.split_once('\u{1}').map(|(a, b)| (a.to_string(), b.to_string())).unwrap_or((s, String::new()));
                WorkerResult::Panic(msg, loc)
            }
            Err(kind_err) => {
                // dead or hung: collect status, respawn
                let out = if kind_err == "timeout" {
                    let _ = w.child.kill();
                    let _ = w.child.wait();
                    WorkerResult::Timeout
                } else {
                    let status = w.child.wait().ok();
                    use std::os::unix::process::ExitStatusExt;
                    let signal = status.map(|s| s.signal().unwrap_or_else(|| -(s.code().unwrap_or(0)))).unwrap_or(0);
                    let mut stderr = std::fs::read(&w.stderr_path).map(|b| String::from_utf8_lossy(&b).into_owned()).unwrap_or_default();
                    if stderr.len() > 600 {
                        let cut = stderr.len() - 600;
                        let mut c = cut;
                        while !stderr.is_char_boundary(c) {
                            c += 1;
                        }
                        stderr = stderr[c..].to_string();
                    }
                    WorkerResult::Died { signal, stderr }
                };
                let _ = std::fs::remove_file(&w.stderr_path);
                match spawn_worker(self.mem_limit) {
                    Ok(nw) => {
                        self.spawned.fetch_add(1, std::sync::atomic::Ordering::Relaxed);
                        self.give(nw)
                    }
                    Err(e) => eprintln!("cannot respawn worker: {e}"),
                }
                out
            }
        }
    }
}

impl Drop for Pool {
    fn drop(&mut self) {
        let mut g = self.idle.lock().unwrap();
        for mut w in g.drain(..) {
            drop(w.stdin);
            let _ = w.child.kill();
            let _ = w.child.wait();
            let _ = std::fs::remove_file(&w.stderr_path);
        }
    }
}

/// Worker main loop: reads requests from stdin, dispatches, replies on stdout.
pub fn worker_main(args: &[String], dispatch: fn(&str, &[u8]) -> Vec<u8>) -> ! {
    let mem: u64 = args.first().and_then(|s| s.parse().ok()).unwrap_or(4 << 30);
    unsafe {
        let lim = libc::rlimit { rlim_cur: mem as libc::rlim_t, rlim_max: mem as libc::rlim_t };
        libc::setrlimit(libc::RLIMIT_AS, &lim);
        // no core dumps
        let z = libc::rlimit { rlim_cur: 0, rlim_max: 0 };
        libc::setrlimit(libc::RLIMIT_CORE, &z);
    }
    let stdin = std::io::stdin();
    let mut stdin = stdin.lock();
    let stdout = std::io::stdout();
    let mut stdout = stdout.lock();
    loop {
        let mut l4 = [0u8; 4];
        if stdin.read_exact(&mut l4).is_err() {
            std::process::exit(0);
        }
        let kl = u32::from_le_bytes(l4) as usize;
        let mut kind = vec![0u8; kl];
        if stdin.read_exact(&mut kind).is_err() {
            std::process::exit(0);
        }
        let mut l8 = [0u8; 8];
        if stdin.read_exact(&mut l8).is_err() {
            std::process::exit(0);
        }
        let mut payload = vec![0u8; u64::from_le_bytes(l8) as usize];
        if stdin.read_exact(&mut payload).is_err() {
            std::process::exit(0);
        }
        let kind = String::from_utf8_lossy(&kind).into_owned();
        let r = super::catch(|| dispatch(&kind, &payload));
        let (tag, body) = match r {
            Ok(b) => (0u8, b),
            Err((msg, loc)) => (1u8, format!("{msg}\u{1}{loc}").into_bytes()),
        };
        let mut out = vec![tag];
        out.extend_from_slice(&(body.len() as u64).to_le_bytes());
        out.extend_from_slice(&body);
        if stdout.write_all(&out).and_then(|_| stdout.flush()).is_err() {
            std::process::exit(0);
        }
    }
}
