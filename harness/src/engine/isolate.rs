//! Process isolation: placeholder, filled in with the worker pool (see DESIGN.md §3.2).

/// Debug aid: when VERIF_DUMP names a directory, write `bytes` there as `<name>` (used with `vp replay`).
pub fn dump(name: &str, bytes: &[u8]) {
    if let Ok(d) = std::env::var("VERIF_DUMP") {
        let _ = std::fs::create_dir_all(&d);
        let _ = std::fs::write(std::path::Path::new(&d).join(name), bytes);
    }
}
