//! Engine: seeded proptest runner driven from a binary, classification counters,
//! known-findings matching, replay files, evidence files.
//!
//! Every random choice lives inside proptest strategies; the runner's RNG is a pure
//! function of (VERIF_SEED, property id, sub-check name, shard index).

use proptest::strategy::Strategy;
use proptest::test_runner::{Config, RngAlgorithm, TestCaseError, TestError, TestRng, TestRunner};
use serde::de::DeserializeOwned;
use serde::Serialize;
use serde_json::{json, Value};
use std::cell::RefCell;
use std::collections::{BTreeMap, BTreeSet};
use std::fmt::Debug;
use std::panic::{catch_unwind, AssertUnwindSafe};
use std::sync::atomic::{AtomicBool, Ordering};
use std::sync::Mutex;
use std::time::Instant;

pub mod isolate;

#[derive(Clone, Copy, Debug, PartialEq, Eq)]
pub enum Tier {
    Quick,
    Thorough,
}

impl Tier {
    pub fn name(self) -> &'static str {
        match self {
            Tier::Quick => "quick",
            Tier::Thorough => "thorough",
        }
    }
    /// pick a case count by tier
    pub fn pick(self, quick: u32, thorough: u32) -> u32 {
        let n = match self {
            Tier::Quick => quick,
            Tier::Thorough => thorough,
        };
        // development aid only: VERIF_SCALE=0.1 runs a tenth of the cases
        match std::env::var("VERIF_SCALE").ok().and_then(|s| s.parse::<f64>().ok()) {
            Some(f) if f > 0.0 => ((n as f64 * f) as u32).max(1),
            _ => n,
        }
    }
}

/// One failed oracle clause on one case.
#[derive(Clone, Debug, Serialize, serde::Deserialize)]
pub struct Fail {
    /// stable clause name, e.g. "C27/label-equals-reference"
    pub clause: String,
    /// discriminating class of the case, e.g. "style=letters,index>=27"
    pub class: String,
    /// free text: expected / observed
    pub detail: String,
}

impl Fail {
    pub fn signature(&self) -> String {
        format!("{}|{}", self.clause, self.class)
    }
}

/// Result of running the oracle on one case.
#[derive(Clone, Debug, Default)]
pub struct Outcome {
    pub nontrivial: bool,
    pub labels: Vec<String>,
    pub fails: Vec<Fail>,
    /// clauses that could not be evaluated on this case because a known finding is in the way
    pub excluded: Vec<String>,
}

impl Outcome {
    pub fn new() -> Self {
        Self::default()
    }
    pub fn label(&mut self, l: impl Into<String>) {
        self.labels.push(l.into());
    }
    pub fn label_if(&mut self, c: bool, l: &str) {
        if c {
            self.labels.push(l.to_string());
        }
    }
    pub fn nontrivial(&mut self, c: bool) {
        self.nontrivial = self.nontrivial || c;
    }
    pub fn fail(&mut self, clause: &str, class: impl Into<String>, detail: impl Into<String>) {
        self.fails.push(Fail {
            clause: clause.to_string(),
            class: class.into(),
            detail: trunc(&detail.into(), 1500),
        });
    }
    pub fn excluded(&mut self, what: impl Into<String>) {
        self.excluded.push(what.into());
    }
    pub fn ok(&self) -> bool {
        self.fails.is_empty()
    }
}

pub fn trunc(s: &str, n: usize) -> String {
    if s.len() <= n {
        s.to_string()
    } else {
        let mut e = n;
        while !s.is_char_boundary(e) {
            e -= 1;
        }
        format!("{}…[{} bytes]", &s[..e], s.len())
    }
}

#[derive(Clone, Debug, serde::Deserialize, Serialize)]
pub struct Finding {
    pub status: String, // known | fixed
    pub property: String,
    pub signature: String,
    pub what: String,
    #[serde(default)]
    pub replay: Option<String>,
    #[serde(default)]
    pub commit: Option<String>,
}

#[derive(Default)]
struct Stats {
    evaluations: u64,
    nontrivial: BTreeSet<u64>,
    labels: BTreeMap<String, u64>,
    excluded: BTreeMap<String, u64>,
    known_hits: BTreeMap<String, u64>,
    samples: Vec<Value>,
    per_sub: BTreeMap<String, (u64, u64)>, // evaluations, nontrivial
    violations: Vec<(String, Fail, String)>, // sub, fail, replay path
    notes: Vec<String>,
    extra: BTreeMap<String, Value>,
    exhaustive: Option<bool>,
    bulk_evals: u64,
    bulk_nontrivial: u64,
}

pub struct Ctx {
    pub id: String,
    pub tier: Tier,
    pub seed: u64,
    pub known: Vec<Finding>,
    pub verif_dir: std::path::PathBuf,
    stats: Mutex<Stats>,
    start: Instant,
    /// strict mode (replay): nothing is tolerated silently
    pub replay_mode: bool,
    /// how many oracle evaluations the minimisation of one failure may use (expensive checks lower it)
    pub shrink_budget: std::sync::atomic::AtomicU32,
}

thread_local! {
    static LAST_PANIC: RefCell<Option<(String, String)>> = const { RefCell::new(None) };
    static QUIET_PANIC: RefCell<bool> = const { RefCell::new(false) };
}

/// Install a panic hook that records message and location in a thread local and stays quiet
/// for threads that asked for it.
pub fn install_panic_hook() {
    let default = std::panic::take_hook();
    std::panic::set_hook(Box::new(move |info| {
        let msg = if let Some(s) = info.payload().downcast_ref::<&str>() {
            s.to_string()
        } else if let Some(s) = info.payload().downcast_ref::<String>() {
            s.clone()
        } else {
            "<non-string panic>".to_string()
        };
        let mut loc = info
            .location()
            .map(|l| format!("{}:{}", l.file(), l.line()))
            .unwrap_or_default();
        if !loc.contains("oxidize-pdf-core") && !loc.contains("/verif/harness") {
            // the panic was raised inside std/core or a dependency (e.g. Iterator::sum overflow):
            // name the innermost frame of the library under test instead
            let bt = std::backtrace::Backtrace::force_capture().to_string();
            if let Some(f) = bt.lines().map(|l| l.trim()).find(|l| l.contains("oxidize_pdf::")) {
                let f = f.split_once(": ").map(|x| x.1).unwrap_or(f);
                let f = f.split("::h").next().unwrap_or(f);
                loc = format!("oxidize-pdf-core/{}:0", f.replace(' ', ""));
            }
        }
        let quiet = QUIET_PANIC.with(|q| *q.borrow());
        LAST_PANIC.with(|p| *p.borrow_mut() = Some((msg, loc)));
        if !quiet {
            default(info);
        }
    }));
}

/// Run `f`, turning a panic into Err((message, file:line)).
pub fn catch<T>(f: impl FnOnce() -> T) -> Result<T, (String, String)> {
    QUIET_PANIC.with(|q| *q.borrow_mut() = true);
    LAST_PANIC.with(|p| *p.borrow_mut() = None);
    let r = catch_unwind(AssertUnwindSafe(f));
    QUIET_PANIC.with(|q| *q.borrow_mut() = false);
    match r {
        Ok(v) => Ok(v),
        Err(_) => Err(LAST_PANIC
            .with(|p| p.borrow_mut().take())
            .unwrap_or(("<unknown panic>".into(), String::new()))),
    }
}

/// Normalise a panic into a signature class: file (without line) + message with digits collapsed.
pub fn panic_class(msg: &str, loc: &str) -> String {
    let file = loc.rsplit_once(':').map(|x| x.0).unwrap_or(loc);
    let file = file.rsplit("oxidize-pdf-core/").next().unwrap_or(file);
    let mut m = String::new();
    let mut last_digit = false;
    for c in msg.chars().take(120) {
        if c.is_ascii_digit() {
            if !last_digit {
                m.push('N');
            }
            last_digit = true;
        } else {
            last_digit = false;
            m.push(c);
        }
    }
    format!("{}: {}", file, m)
}

fn mix(mut h: u64, bytes: &[u8]) -> u64 {
    for &b in bytes {
        h ^= b as u64;
        h = h.wrapping_mul(0x100000001b3);
    }
    // splitmix finaliser
    h ^= h >> 30;
    h = h.wrapping_mul(0xbf58476d1ce4e5b9);
    h ^= h >> 27;
    h = h.wrapping_mul(0x94d049bb133111eb);
    h ^= h >> 31;
    h
}

pub fn hash64(bytes: &[u8]) -> u64 {
    mix(0xcbf29ce484222325, bytes)
}

pub fn derive_seed(seed: u64, id: &str, sub: &str, shard: u32) -> [u8; 32] {
    let mut out = [0u8; 32];
    let mut h = mix(0xcbf29ce484222325 ^ seed, id.as_bytes());
    h = mix(h, sub.as_bytes());
    h = mix(h, &shard.to_le_bytes());
    for i in 0..4 {
        h = mix(h, &[i as u8, 0x5a]);
        out[i * 8..i * 8 + 8].copy_from_slice(&h.to_le_bytes());
    }
    out
}

impl Ctx {
    /// Where evidence and new replay files go: VERIF_OUT (used when trying seeded changes, so that
    /// the committed evidence is not overwritten) or the /verif directory.
    fn out_dir(&self) -> std::path::PathBuf {
        match std::env::var("VERIF_OUT") {
            Ok(d) if !d.is_empty() => std::path::PathBuf::from(d),
            _ => self.verif_dir.clone(),
        }
    }

    pub fn new(id: &str, tier: Tier, seed: u64, verif_dir: std::path::PathBuf) -> Self {
        let known = load_findings(&verif_dir)
            .into_iter()
            .filter(|f| f.property == id)
            .collect();
        Ctx {
            id: id.to_string(),
            tier,
            seed,
            known,
            verif_dir,
            stats: Mutex::new(Stats::default()),
            start: Instant::now(),
            replay_mode: false,
            shrink_budget: std::sync::atomic::AtomicU32::new(4000),
        }
    }

    pub fn set_shrink_budget(&self, n: u32) {
        self.shrink_budget.store(n, Ordering::Relaxed);
    }

    pub fn is_known(&self, f: &Fail) -> Option<&Finding> {
        let sig = f.signature();
        self.known
            .iter()
            .find(|k| k.status == "known" && k.signature == sig)
    }

    /// Is a finding with this signature listed as known? (for generators that steer ~10 % of
    /// their cases into an affected region and for oracles applying a charitable reading)
    pub fn known_sig(&self, sig: &str) -> bool {
        self.known
            .iter()
            .any(|k| k.status == "known" && k.signature == sig)
    }

    pub fn note(&self, s: impl Into<String>) {
        let s = s.into();
        eprintln!("[{}] note: {}", self.id, s);
        self.stats.lock().unwrap().notes.push(s);
    }

    pub fn extra(&self, key: &str, v: Value) {
        self.stats.lock().unwrap().extra.insert(key.to_string(), v);
    }

    /// Account for cases enumerated outside `record` (exhaustive enumerations where each case is
    /// distinct by construction); `nontrivial` is counted by the enumerator.
    pub fn bulk(&self, sub: &str, evaluations: u64, nontrivial: u64, sample: Value) {
        let mut st = self.stats.lock().unwrap();
        st.bulk_evals += evaluations;
        st.bulk_nontrivial += nontrivial;
        let e = st.per_sub.entry(sub.to_string()).or_insert((0, 0));
        e.0 += evaluations;
        e.1 += nontrivial;
        st.samples.push(json!({"sub": sub, "case": sample}));
    }

    pub fn set_exhaustive(&self, e: bool) {
        self.stats.lock().unwrap().exhaustive = Some(e);
    }

    /// Record one evaluated case (used directly by enumerating checks; `run_sub` calls it too).
    /// Returns the unknown (not listed) failures.
    pub fn record(&self, sub: &str, key: u64, out: &Outcome, sample: impl FnOnce() -> Value) -> Vec<Fail> {
        let mut unknown = Vec::new();
        let mut st = self.stats.lock().unwrap();
        st.evaluations += 1;
        let e = st.per_sub.entry(sub.to_string()).or_insert((0, 0));
        e.0 += 1;
        if out.nontrivial {
            let fresh = st.nontrivial.insert(mix(key, sub.as_bytes()));
            if fresh {
                st.per_sub.get_mut(sub).unwrap().1 += 1;
                let per_sub_samples = st
                    .samples
                    .iter()
                    .filter(|s| s.get("sub").and_then(|x| x.as_str()) == Some(sub))
                    .count();
                if per_sub_samples < 3 && st.samples.len() < 12 {
                    let v = sample();
                    st.samples.push(json!({"sub": sub, "case": shrink_json(&v, 700)}));
                }
            }
        }
        for l in &out.labels {
            *st.labels.entry(l.clone()).or_insert(0) += 1;
        }
        for l in &out.excluded {
            *st.excluded.entry(l.clone()).or_insert(0) += 1;
        }
        for f in &out.fails {
            if self.is_known(f).is_some() {
                *st.known_hits.entry(f.signature()).or_insert(0) += 1;
            } else {
                unknown.push(f.clone());
            }
        }
        unknown
    }

    /// Record a violation with its replay file written; prints the VIOLATION line.
    pub fn violation(&self, sub: &str, fail: &Fail, case: Value, all_fails: &[Fail]) {
        let dir = self.out_dir().join("replays").join("new");
        let _ = std::fs::create_dir_all(&dir);
        let name = format!(
            "{}_{}_{:016x}.json",
            self.id,
            sub.replace(':', "-"),
            hash64(format!("{}{}", fail.signature(), case).as_bytes())
        );
        let path = dir.join(name);
        let doc = json!({
            "property": self.id, "sub_check": sub, "seed": self.seed, "tier": self.tier.name(),
            "signature": fail.signature(), "clause": fail.clause, "class": fail.class,
            "detail": fail.detail, "all_fails": all_fails, "case": case,
        });
        let _ = std::fs::write(&path, serde_json::to_vec_pretty(&doc).unwrap());
        let mut st = self.stats.lock().unwrap();
        // one line per distinct signature
        if !st.violations.iter().any(|(_, f, _)| f.signature() == fail.signature()) {
            println!("VIOLATION property={} replay={}", self.id, path.display());
            println!("  signature: {}", fail.signature());
            println!("  detail: {}", trunc(&fail.detail, 600));
        }
        st.violations
            .push((sub.to_string(), fail.clone(), path.display().to_string()));
    }

    pub fn violations(&self) -> usize {
        let st = self.stats.lock().unwrap();
        let mut sigs = BTreeSet::new();
        for (_, f, _) in &st.violations {
            sigs.insert(f.signature());
        }
        sigs.len()
    }

    pub fn evaluations(&self) -> u64 {
        self.stats.lock().unwrap().evaluations
    }
    pub fn label_count(&self, l: &str) -> u64 {
        *self.stats.lock().unwrap().labels.get(l).unwrap_or(&0)
    }
    pub fn nontrivial_count(&self) -> usize {
        self.stats.lock().unwrap().nontrivial.len()
    }

    /// Generated search for one sub-check: `cases` cases spread over shards, each shard its own
    /// deterministic proptest runner; the first unknown failure in a shard is shrunk and reported.
    pub fn run_sub<C, S, M, F>(&self, sub: &str, cases: u32, mk: M, check: F)
    where
        C: Debug + Clone + Serialize,
        S: Strategy<Value = C>,
        M: Fn() -> S + Sync,
        F: Fn(&C) -> Outcome + Sync,
    {
        let shards = if cases >= 64 { threads().min((cases / 16).max(1) as usize) as u32 } else { 1 };
        let per = cases.div_ceil(shards);
        let check = &check;
        let mk = &mk;
        std::thread::scope(|scope| {
            for shard in 0..shards {
                let b = std::thread::Builder::new()
                    .name(format!("{}-{}-{}", self.id, sub, shard))
                    .stack_size(64 << 20);
                b.spawn_scoped(scope, move || {
                    self.run_shard(sub, shard, per, mk(), check);
                })
                .expect("spawn shard");
            }
        });
    }

    fn run_shard<C, S, F>(&self, sub: &str, shard: u32, cases: u32, strat: S, check: &F)
    where
        C: Debug + Clone + Serialize,
        S: Strategy<Value = C>,
        F: Fn(&C) -> Outcome + Sync,
    {
        let config = Config {
            cases,
            failure_persistence: None,
            max_shrink_iters: 4000,
            max_global_rejects: 1_000_000,
            max_local_rejects: 1_000_000,
            verbose: 0,
            ..Config::default()
        };
        let rng = TestRng::from_seed(RngAlgorithm::ChaCha, &derive_seed(self.seed, &self.id, sub, shard));
        let mut runner = TestRunner::new_with_rng(config, rng);
        let failed = AtomicBool::new(false);
        let shrink_evals = std::sync::atomic::AtomicU32::new(0);
        let first_sig: Mutex<Option<String>> = Mutex::new(None);
        let first_case: Mutex<Option<C>> = Mutex::new(None);
        // VERIF_NO_SHRINK: report the first failing case as it is (used when trying seeded changes, where only the verdict matters)
        let shrink_budget = if std::env::var("VERIF_NO_SHRINK").is_ok() { 0 } else { self.shrink_budget.load(Ordering::Relaxed) };
        // minimisation also stops after a wall-clock allowance (default 60 s per shard); this bounds the cost of a red
        // run with an expensive oracle and never changes the verdict: the failing case found so far is what is reported
        let shrink_secs: u64 = std::env::var("VERIF_SHRINK_SECS").ok().and_then(|s| s.parse().ok()).unwrap_or(60);
        let failed_at: Mutex<Option<std::time::Instant>> = Mutex::new(None);
        let res = runner.run(&strat, |case| {
            if failed.load(Ordering::Relaxed)
                && (shrink_evals.fetch_add(1, Ordering::Relaxed) >= shrink_budget || failed_at.lock().unwrap().map(|t| t.elapsed().as_secs() >= shrink_secs).unwrap_or(false))
            {
                // minimisation budget used up (expensive oracles): keep the smallest failing case found so far
                return Ok(());
            }
            let out = self.eval(check, &case);
            if failed.load(Ordering::Relaxed) {
                // shrinking: do not count; a case fails iff it has an unknown failure
                let unknown: Vec<_> = out.fails.iter().filter(|f| self.is_known(f).is_none()).collect();
                return if unknown.is_empty() {
                    Ok(())
                } else {
                    Err(TestCaseError::fail(unknown[0].signature()))
                };
            }
            let js = serde_json::to_vec(&case).unwrap_or_default();
            let unknown = self.record(sub, hash64(&js), &out, || {
                serde_json::to_value(&case).unwrap_or(Value::Null)
            });
            if unknown.is_empty() {
                Ok(())
            } else {
                failed.store(true, Ordering::Relaxed);
                *failed_at.lock().unwrap() = Some(std::time::Instant::now());
                *first_sig.lock().unwrap() = Some(unknown[0].signature());
                *first_case.lock().unwrap() = Some(case.clone());
                Err(TestCaseError::fail(unknown[0].signature()))
            }
        });
        match res {
            Ok(()) => {}
            Err(TestError::Fail(_, shrunk)) => {
                let out = self.eval(check, &shrunk);
                let unknown: Vec<_> = out
                    .fails
                    .iter()
                    .filter(|f| self.is_known(f).is_none())
                    .cloned()
                    .collect();
                let case = serde_json::to_value(&shrunk).unwrap_or(Value::Null);
                if let Some(f) = unknown.first() {
                    self.violation(sub, f, case, &out.fails);
                } else if let Some((orig, out, f)) = first_case.lock().unwrap().clone().and_then(|orig| {
                    // the shrunk case sits on a threshold (e.g. stack depth) and no longer fails:
                    // fall back to the original failing case when that one reproduces.
                    let out = self.eval(check, &orig);
                    let f = out.fails.iter().find(|f| self.is_known(f).is_none()).cloned()?;
                    Some((orig, out, f))
                }) {
                    let case = serde_json::to_value(&orig).unwrap_or(Value::Null);
                    self.violation(sub, &f, case, &out.fails);
                } else {
                    // flaky oracle: neither the shrunk nor the original case fails again. Report as a note, not a violation.
                    self.note(format!("sub {sub}: a failure ({}) did not reproduce on the shrunk case; treated as inconclusive", first_sig.lock().unwrap().clone().unwrap_or_default()));
                }
            }
            Err(TestError::Abort(r)) => {
                self.note(format!("sub {sub} shard {shard}: generator aborted: {r}"));
            }
        }
    }

    /// Evaluate the oracle, converting a panic inside it into a failure of clause `<id>/no-panic`.
    pub fn eval<C, F: Fn(&C) -> Outcome>(&self, check: &F, case: &C) -> Outcome {
        match catch(|| check(case)) {
            Ok(o) => o,
            Err((msg, loc)) => {
                let mut o = Outcome::new();
                o.nontrivial = true;
                o.fail(
                    &format!("{}/no-panic", self.id),
                    panic_class(&msg, &loc),
                    format!("panic: {msg} at {loc}"),
                );
                o
            }
        }
    }

    /// Replay of one stored case through the same oracle, without proptest.
    pub fn replay_case<C, F>(&self, case: &Value, check: F) -> Result<Outcome, String>
    where
        C: DeserializeOwned,
        F: Fn(&C) -> Outcome,
    {
        let c: C = serde_json::from_value(case.clone()).map_err(|e| format!("cannot decode case: {e}"))?;
        Ok(self.eval(&check, &c))
    }

    pub fn finish(&self, def: &PropertyDef) -> i32 {
        let st = self.stats.lock().unwrap();
        for (sig, n) in &st.known_hits {
            let what = self
                .known
                .iter()
                .find(|k| &k.signature == sig)
                .map(|k| k.what.clone())
                .unwrap_or_default();
            println!("KNOWN-FINDING: property={} {} [{}] ({} hits)", self.id, what, sig, n);
        }
        let mut vio_sigs = BTreeSet::new();
        for (_, f, _) in &st.violations {
            vio_sigs.insert(f.signature());
        }
        let mut coverage = serde_json::Map::new();
        coverage.insert("evaluations".into(), json!(st.evaluations + st.bulk_evals));
        coverage.insert("distinct_nontrivial".into(), json!(st.nontrivial.len() as u64 + st.bulk_nontrivial));
        coverage.insert("rule".into(), json!(def.rule));
        coverage.insert("samples".into(), json!(st.samples));
        coverage.insert("labels".into(), json!(st.labels));
        coverage.insert("excluded_by_known_findings".into(), json!(st.excluded));
        coverage.insert("known_findings_hit".into(), json!(st.known_hits));
        coverage.insert(
            "sub_checks".into(),
            json!(st
                .per_sub
                .iter()
                .map(|(k, v)| (k.clone(), json!({"evaluations": v.0, "distinct_nontrivial": v.1})))
                .collect::<BTreeMap<_, _>>()),
        );
        coverage.insert("notes".into(), json!(st.notes));
        if let Some(e) = st.exhaustive {
            coverage.insert("exhaustive".into(), json!(e));
        }
        coverage.insert("trusted_base".into(), json!(def.trusted_base));
        for (k, v) in &st.extra {
            coverage.insert(k.clone(), v.clone());
        }
        coverage.insert(
            "violations_detail".into(),
            json!(st
                .violations
                .iter()
                .map(|(s, f, p)| json!({"sub": s, "signature": f.signature(), "replay": p}))
                .collect::<Vec<_>>()),
        );
        let ev = json!({
            "property_id": self.id,
            "tier": self.tier.name(),
            "seed": self.seed,
            "level": def.level,
            "coverage": Value::Object(coverage),
            "assumptions": def.assumptions,
            "wall_s": self.start.elapsed().as_secs_f64(),
            "violations": vio_sigs.len(),
        });
        let dir = self.out_dir().join("evidence");
        let _ = std::fs::create_dir_all(&dir);
        let path = dir.join(format!("{}.json", self.id));
        if let Err(e) = std::fs::write(&path, serde_json::to_vec_pretty(&ev).unwrap()) {
            eprintln!("cannot write evidence {}: {e}", path.display());
            return 2;
        }
        eprintln!(
            "[{}] {} evaluations, {} distinct non-trivial, {} known-finding signatures hit, {} violations, {:.1}s",
            self.id,
            st.evaluations + st.bulk_evals,
            st.nontrivial.len() as u64 + st.bulk_nontrivial,
            st.known_hits.len(),
            vio_sigs.len(),
            self.start.elapsed().as_secs_f64()
        );
        if !vio_sigs.is_empty() {
            return 1;
        }
        if st.evaluations + st.bulk_evals == 0 || (st.nontrivial.len() as u64 + st.bulk_nontrivial) < 2 {
            eprintln!("[{}] vacuous run: harness problem", self.id);
            return 2;
        }
        0
    }
}

fn shrink_json(v: &Value, budget: usize) -> Value {
    let s = v.to_string();
    if s.len() <= budget {
        v.clone()
    } else {
        Value::String(trunc(&s, budget))
    }
}

pub fn threads() -> usize {
    std::env::var("VERIF_THREADS")
        .ok()
        .and_then(|s| s.parse().ok())
        .unwrap_or_else(|| std::thread::available_parallelism().map(|n| n.get()).unwrap_or(8))
        .clamp(1, 16)
}

pub fn load_findings(verif_dir: &std::path::Path) -> Vec<Finding> {
    let p = verif_dir.join("known_findings.jsonl");
    let Ok(s) = std::fs::read_to_string(&p) else {
        return Vec::new();
    };
    s.lines()
        .filter(|l| !l.trim().is_empty() && !l.trim_start().starts_with('#'))
        .filter_map(|l| match serde_json::from_str::<Finding>(l) {
            Ok(f) => Some(f),
            Err(e) => {
                eprintln!("known_findings.jsonl: bad line ({e}): {l}");
                None
            }
        })
        .collect()
}

/// Static description of a property check.
pub struct PropertyDef {
    pub id: &'static str,
    pub level: &'static str,
    pub rule: &'static str,
    pub assumptions: &'static [&'static str],
    pub trusted_base: &'static [&'static str],
    pub run: fn(&Ctx),
    /// replay one stored case of sub-check `sub`
    pub replay: fn(&Ctx, &str, &Value) -> Result<Outcome, String>,
}

/// Parallel for over 0..n with a fixed chunking (deterministic assignment; results merged by caller).
pub fn par_chunks<F: Fn(usize, usize) + Sync>(n: usize, f: F) {
    let t = threads();
    let chunk = n.div_ceil(t).max(1);
    std::thread::scope(|s| {
        for i in 0..t {
            let lo = i * chunk;
            let hi = ((i + 1) * chunk).min(n);
            if lo >= hi {
                break;
            }
            let f = &f;
            std::thread::Builder::new()
                .stack_size(64 << 20)
                .spawn_scoped(s, move || f(lo, hi))
                .unwrap();
        }
    });
}

/// monotone index mapping (keeps shrinking effective): maps u16 -> 0..len
pub fn pick_idx(i: u16, len: usize) -> usize {
    if len == 0 {
        0
    } else {
        ((i as usize) * len) >> 16
    }
}

/// Write `n` values drawn from a strategy as files (seed corpora of the coverage-guided campaigns).
pub fn dump_strategy<S: Strategy>(dir: &std::path::Path, n: u32, seed: u64, id: &str, strat: S, to_bytes: impl Fn(&S::Value) -> Option<Vec<u8>>) -> std::io::Result<usize> {
    use proptest::strategy::ValueTree;
    std::fs::create_dir_all(dir)?;
    let rng = TestRng::from_seed(RngAlgorithm::ChaCha, &derive_seed(seed, id, "corpus", 0));
    let mut runner = TestRunner::new_with_rng(Config::default(), rng);
    let mut written = 0;
    for _ in 0..n {
        let Ok(tree) = strat.new_tree(&mut runner) else { continue };
        if let Some(bytes) = to_bytes(&tree.current()) {
            std::fs::write(dir.join(format!("{:016x}", hash64(&bytes))), &bytes)?;
            written += 1;
        }
    }
    Ok(written)
}
