//! C13 — text in embedded fonts is recoverable exactly.
//!
//! Documents are built through the public API (`Document::add_font_from_bytes`, `Font::Custom`,
//! `TextContext::write`, `GraphicsContext::{set_custom_font, draw_text, show_text}`) with strings drawn
//! from each font's OWN cmap repertoire as read by `reffont`. The written file is then judged by
//!   (a) the library's extractor (multiset of non-white-space characters per page, and every drawn string
//!       as a substring of the page text once white space is removed — each string sits alone on its line),
//!   (b) an independent extractor: `refpdf::Reader` → content stream show operators → 2-byte codes of the
//!       Identity-H Type0 font → the font's /ToUnicode stream through the reference CMap interpreter,
//!   (c) /W and /DW of the CIDFont against advance·1000/unitsPerEm of the ORIGINAL font (`reffont`),
//!   (d) CID → /CIDToGIDMap (TrueType) or the CID charset of the embedded CFF → glyph of the EMBEDDED font
//!       program, whose flattened outline and advance must equal the original glyph of the character.
use crate::engine::{self, Ctx, Outcome, PropertyDef};
use crate::props::c12;
use crate::reffont::{self, cff::Cff, Sfnt, TtFont};
use crate::refpdf::{self, Lexer, Obj, Tok};
use crate::reftab_cmap as rc;
use oxidize_pdf::parser::{PdfDocument, PdfReader};
use oxidize_pdf::text::extraction::ExtractionOptions;
use oxidize_pdf::writer::WriterConfig;
use oxidize_pdf::{Document, Font, Page};
use proptest::prelude::*;
use serde::{Deserialize, Serialize};
use serde_json::{json, Value};
use std::collections::{BTreeMap, BTreeSet};
use std::io::Cursor;
use std::sync::OnceLock;

pub fn def() -> PropertyDef {
    PropertyDef {
        id: "C13",
        level: "exploration",
        rule: "a case is a document with 1–3 custom fonts (Roboto, DejaVuSans, DejaVuSansMono: TrueType; SourceSans3: OpenType/CFF; two ~40-glyph generated TrueType fonts below the 100 KB subsetting threshold, embedded whole, one of them with supplementary-plane cmap entries) registered with add_font_from_bytes, 1–3 pages, 1–6 strings per page of 1–10 characters drawn with Font::Custom through TextContext::write, GraphicsContext::set_custom_font+draw_text or GraphicsContext::set_font+show_text, every string over the cmap repertoire of ITS font as read by reffont (classes ascii / latin / greek / cyrillic / symbols / other BMP / astral; repeats of earlier characters, successor runs that make bfrange entries, xxFF|xx00 pairs, characters sharing a glyph with another character, inner spaces), optionally mixed with ASCII strings in a standard-14 font, each string alone on its line 100 pt apart; writer configurations classic / xref-stream × compression on/off (object streams for 3 % of cases). Non-trivial: some custom-font string has ≥ 2 distinct non-ASCII characters; distinct by hash of the case.",
        assumptions: &[
            "strings only use characters the font's best Unicode cmap subtable maps to a glyph other than .notdef; C0/C1 controls are excluded",
            "the library extractor runs with its default options except merge_hyphenated = false (de-hyphenation is a documented transformation that deliberately drops a line-final '-')",
            "the library extractor is compared on non-white-space characters only (multiset per page; substring after removing white space) — positions, spacing and line order are not part of the property",
            "declared widths: the PDF width of a CID is the /W entry or /DW; accepted when |declared − advance·1000/unitsPerEm| < 1, i.e. floor, nearest and ceiling are all accepted because ISO 32000-1 9.7.4.3 does not prescribe a rounding and the library writes integers",
            "the independent extractor accepts either reading of a bfrange whose destination low byte overflows (such a range is reported separately under C13/tounicode-valid)",
            "clauses (c) and (d) are evaluated for the show operators whose independent extraction (b) reproduced a drawn string, so that code i ↔ character i is known without assuming the writer's CID convention",
            "strings that contain a character above U+FFFF lie in the region of the recorded astral finding: their failures are reported under the astral signature and clauses (c)/(d) are counted as excluded for them",
        ],
        trusted_base: &["refpdf reader/lexer/filters", "reftab_cmap reference CMap interpreter", "reffont sfnt/glyf/CFF readers (calibrated in C12 against the fonts' own maxp/hhea/hmtx)", "the five font files"],
        run,
        replay,
    }
}

// ------------------------------------------------------------------------------------------------
// fonts
// ------------------------------------------------------------------------------------------------

pub const CLASSES: [&str; 7] = ["ascii", "latin", "greek", "cyrillic", "symbols", "other-bmp", "astral"];

fn class_of(cp: u32) -> usize {
    match cp {
        0x21..=0x7E => 0,
        0xA0..=0x24F | 0x1E00..=0x1EFF => 1,
        0x370..=0x3FF | 0x1F00..=0x1FFF => 2,
        0x400..=0x52F => 3,
        0x2000..=0x2BFF => 4,
        0x10000.. => 6,
        _ => 5,
    }
}

pub struct FontInfo {
    pub label: &'static str,
    pub kind: &'static str, // truetype | cff | generated
    pub bytes: &'static [u8],
    pub tt: Option<&'static TtFont<'static>>,
    pub cff: Option<&'static Cff<'static>>,
    pub upem: u16,
    pub advances: Vec<u16>,
    pub cmap: BTreeMap<u32, u16>,
    pub classes: Vec<Vec<u32>>,
    pub all_bmp: Vec<u32>,
    /// code points xxFF whose successor is covered too
    pub boundary: Vec<u32>,
    /// BMP code points whose glyph is also the glyph of another BMP code point
    pub shared: Vec<u32>,
    /// for a member of `shared`, another BMP code point (possibly U+0020) with the same glyph
    pub partner: BTreeMap<u32, u32>,
}

fn gen_font_bytes(with_astral: bool) -> Vec<u8> {
    use reffont::build::{GenFont, GenGlyph};
    // 40 glyphs: .notdef + 39 boxes/triangles of distinct size and advance
    let mut cps: Vec<u32> = Vec::new();
    cps.extend(0x41..=0x4Au32); // A–J
    cps.extend(0x61..=0x66u32); // a–f
    cps.extend([0xE9, 0xFE, 0xFF, 0x100, 0x101, 0x3B1, 0x3B2, 0x3B3, 0x416, 0x417, 0x2022, 0x20AC, 0x2192, 0x4E2D, 0x6587, 0xFB01]);
    if with_astral {
        cps.extend([0x1F600, 0x1F601, 0x1D49C]);
    } else {
        cps.extend([0x3A9, 0x211D]);
    }
    cps.sort();
    let mut glyphs = vec![GenGlyph::Simple { contours: vec![vec![(50, 0, true), (50, 700, true), (450, 700, true), (450, 0, true)]], instr: vec![], compact: false }];
    let mut metrics = vec![(500u16, 50i16)];
    let mut cmap = Vec::new();
    for (k, cp) in cps.iter().enumerate() {
        let k16 = k as i16;
        let w = 200 + 13 * k16;
        let h = 300 + 7 * k16;
        let contour = if k % 2 == 0 { vec![(10, 0, true), (10, h, true), (w, h, true), (w, 0, true)] } else { vec![(10, 0, true), (w / 2, h, false), (w, 0, true)] };
        glyphs.push(GenGlyph::Simple { contours: vec![contour], instr: vec![], compact: k % 3 == 0 });
        metrics.push((300 + 17 * k as u16, 10));
        cmap.push((*cp, (k + 1) as u16));
    }
    if !with_astral {
        // OHM SIGN shares the glyph of GREEK CAPITAL OMEGA, as in real fonts
        let g = cmap.iter().find(|(c, _)| *c == 0x3A9).map(|(_, g)| *g).unwrap();
        cmap.push((0x2126, g));
        cmap.sort();
    }
    let n = glyphs.len() as u16;
    GenFont { upem: 1000, long_loca: false, align: 2, glyphs, metrics, n_hmetrics: n, cmap, cmap_kind: 1, fmt4_glyph_array: false, pad: 0 }.build()
}

pub fn fonts() -> &'static Result<Vec<FontInfo>, String> {
    static F: OnceLock<Result<Vec<FontInfo>, String>> = OnceLock::new();
    F.get_or_init(|| {
        let reals = c12::reals().as_ref().map_err(|e| e.clone())?;
        let mut out = Vec::new();
        let mk = |label: &'static str, kind: &'static str, bytes: &'static [u8], tt: Option<&'static TtFont<'static>>, cff: Option<&'static Cff<'static>>, advances: Vec<u16>, cmap: &BTreeMap<u32, u16>| -> Result<FontInfo, String> {
            let sf = Sfnt::parse(bytes).map_err(|i| format!("{label}: {}", i.detail))?;
            let upem = reffont::be16(sf.table(b"head").map_err(|i| i.detail)?, 18).map_err(|i| i.detail)?;
            let cmap: BTreeMap<u32, u16> = cmap.iter().filter(|(c, g)| **g != 0 && char::from_u32(**c).map(|ch| !ch.is_control()).unwrap_or(false)).map(|(c, g)| (*c, *g)).collect();
            let mut classes = vec![Vec::new(); 7];
            for c in cmap.keys().filter(|c| **c != 0x20) {
                classes[class_of(*c)].push(*c);
            }
            let all_bmp: Vec<u32> = cmap.keys().copied().filter(|c| *c < 0x10000 && *c != 0x20).collect();
            let boundary: Vec<u32> = all_bmp.iter().copied().filter(|c| c & 0xFF == 0xFF && cmap.contains_key(&(c + 1)) && c + 1 < 0x10000).collect();
            let mut by_gid: BTreeMap<u16, Vec<u32>> = BTreeMap::new();
            for (c, g) in cmap.iter().filter(|(c, _)| **c < 0x10000) {
                by_gid.entry(*g).or_default().push(*c);
            }
            let shared: Vec<u32> = all_bmp.iter().copied().filter(|c| by_gid[&cmap[c]].len() > 1).collect();
            let partner: BTreeMap<u32, u32> = shared.iter().chain(by_gid.get(cmap.get(&0x20).unwrap_or(&0)).filter(|v| v.len() > 1).map(|_| &0x20u32)).map(|c| (*c, *by_gid[&cmap[c]].iter().find(|x| *x != c).unwrap())).collect();
            Ok(FontInfo { label, kind, bytes, tt, cff, upem, advances, cmap, classes, all_bmp, boundary, shared, partner })
        };
        for r in reals {
            let label: &'static str = match r.name {
                "Roboto-Regular.ttf" => "Roboto",
                "SourceSans3-Regular.otf" => "SourceSans3",
                "DejaVuSans.ttf" => "DejaVuSans",
                _ => "DejaVuSansMono",
            };
            out.push(mk(label, if r.cff.is_some() { "cff" } else { "truetype" }, r.bytes, r.tt.as_ref(), r.cff.as_ref(), r.advances.clone(), &r.cmap)?);
        }
        // generated small fonts (full-embed path), without and with supplementary-plane characters in the cmap
        for (label, astral) in [("Generated", false), ("GeneratedAstral", true)] {
            let gb: &'static [u8] = Box::leak(gen_font_bytes(astral).into_boxed_slice());
            let gtt: &'static TtFont<'static> = Box::leak(Box::new(TtFont::parse(gb).map_err(|i| format!("generated font: {}: {}", i.clause, i.detail))?));
            let gsf = Sfnt::parse(gb).map_err(|i| i.detail)?;
            let gcmap = reffont::unicode_cmap(&gsf).map_err(|i| i.detail)?;
            let gadv: Vec<u16> = (0..gtt.num_glyphs).map(|g| gtt.advance(g)).collect::<Result<_, _>>().map_err(|i| i.detail)?;
            out.push(mk(label, "generated", gb, Some(gtt), None, gadv, &gcmap)?);
        }
        Ok(out)
    })
}

// ------------------------------------------------------------------------------------------------
// case
// ------------------------------------------------------------------------------------------------

#[derive(Clone, Debug, Serialize, Deserialize, PartialEq)]
pub struct Draw {
    /// index into `Case::fonts`; 255 = a standard-14 font
    pub slot: u8,
    pub text: String,
    pub size: u8,
    /// 0 TextContext::write · 1 GraphicsContext::set_custom_font + draw_text · 2 GraphicsContext begin_text/set_font/show_text
    pub api: u8,
}

#[derive(Clone, Debug, Serialize, Deserialize, PartialEq)]
pub struct Case {
    /// indices into `fonts()`
    pub fonts: Vec<u8>,
    pub pages: Vec<Vec<Draw>>,
    /// 0 classic plain · 1 classic Flate · 2 xref stream Flate · 3 xref stream plain · 4 object streams
    pub cfg: u8,
}

fn slot_name(slot: u8) -> String {
    format!("Emb{}", (b'A' + slot) as char)
}

fn std_font(k: usize) -> Font {
    [Font::Helvetica, Font::TimesRoman, Font::Courier][k % 3].clone()
}

fn writer_cfg(cfg: u8) -> WriterConfig {
    let (xs, os, comp, ver) = match cfg {
        0 => (false, false, false, "1.4"),
        1 => (false, false, true, "1.7"),
        2 => (true, false, true, "1.5"),
        3 => (true, false, false, "1.5"),
        _ => (true, true, true, "1.5"),
    };
    WriterConfig { use_xref_streams: xs, use_object_streams: os, pdf_version: ver.into(), compress_streams: comp, incremental_update: false }
}

fn build(c: &Case, fs: &[FontInfo]) -> Result<Vec<u8>, String> {
    let mut doc = Document::new();
    for (slot, fid) in c.fonts.iter().enumerate() {
        let f = fs.get(*fid as usize).ok_or("font index")?;
        doc.add_font_from_bytes(slot_name(slot as u8), f.bytes.to_vec()).map_err(|e| format!("add_font_from_bytes({}): {e}", f.label))?;
    }
    for draws in &c.pages {
        let mut page = Page::a4();
        for (k, d) in draws.iter().enumerate() {
            let (x, y) = (40.0, 790.0 - 100.0 * k as f64);
            let size = d.size as f64;
            let font = if d.slot == 255 { std_font(k) } else { Font::Custom(slot_name(d.slot)) };
            match d.api {
                0 => {
                    page.text().set_font(font, size).at(x, y).write(&d.text).map_err(|e| format!("TextContext::write: {e}"))?;
                }
                1 => {
                    let g = page.graphics();
                    if d.slot == 255 {
                        g.set_font(font, size);
                    } else {
                        g.set_custom_font(&slot_name(d.slot), size);
                    }
                    g.draw_text(&d.text, x, y).map_err(|e| format!("GraphicsContext::draw_text: {e}"))?;
                }
                _ => {
                    let g = page.graphics();
                    g.begin_text();
                    g.set_font(font, size);
                    g.set_text_position(x, y);
                    g.show_text(&d.text).map_err(|e| format!("GraphicsContext::show_text: {e}"))?;
                    g.end_text();
                }
            }
        }
        doc.add_page(page);
    }
    doc.to_bytes_with_config(writer_cfg(c.cfg)).map_err(|e| format!("to_bytes_with_config: {e}"))
}

// ------------------------------------------------------------------------------------------------
// independent reading of the written fonts
// ------------------------------------------------------------------------------------------------

struct EmbFont {
    subtype: Vec<u8>,
    tounicode: Option<rc::Program>,
    tounicode_err: Option<String>,
    w: Vec<(u32, u32, Vec<f64>)>, // (first, last, widths) — widths.len()==1 && first!=last ⇒ range form
    w_range: Vec<bool>,
    dw: f64,
    cid_to_gid: Option<Vec<u8>>, // None = identity / absent
    has_cid_to_gid_key: bool,
    program: Vec<u8>,
    program_key: &'static str,
    program_subtype: Option<Vec<u8>>,
    structure: Vec<String>,
    w_bad_cid: Vec<i64>,
}

fn read_font(rd: &refpdf::Reader, fd: &refpdf::Dict) -> Result<EmbFont, String> {
    let e = |x: refpdf::PErr| x.msg;
    let mut structure = Vec::new();
    if fd.name(b"Subtype") != Some(b"Type0") {
        return Err(format!("font /Subtype {:?}, expected Type0", fd.name(b"Subtype").map(String::from_utf8_lossy)));
    }
    match fd.get(b"Encoding").map(|v| rd.resolve(v)) {
        Some(Ok(Obj::Name(n))) if n == b"Identity-H" => {}
        other => return Err(format!("/Encoding {other:?}: only Identity-H is understood by this extractor")),
    }
    let (mut tounicode, mut tounicode_err) = (None, None);
    match fd.get(b"ToUnicode").map(|v| rd.resolve(v)) {
        Some(Ok(Obj::Stream(s))) => match rd.stream_data(&s).map_err(e).and_then(|d| rc::interpret(&d)) {
            Ok(p) => tounicode = Some(p),
            Err(m) => tounicode_err = Some(m),
        },
        other => tounicode_err = Some(format!("/ToUnicode is {other:?}")),
    }
    let desc = match fd.get(b"DescendantFonts").map(|v| rd.resolve(v)) {
        Some(Ok(Obj::Arr(a))) if a.len() == 1 => match rd.resolve(&a[0]).map_err(e)? {
            Obj::Dict(d) => d,
            other => return Err(format!("descendant font is {other:?}")),
        },
        other => return Err(format!("/DescendantFonts {other:?}")),
    };
    let subtype = desc.name(b"Subtype").unwrap_or(b"").to_vec();
    let dw = match desc.get(b"DW").map(|v| rd.resolve(v)) {
        None => 1000.0,
        Some(Ok(v)) => v.as_num().ok_or(format!("/DW {v:?}"))?,
        Some(Err(x)) => return Err(x.msg),
    };
    let (mut w, mut w_range) = (Vec::new(), Vec::new());
    let mut w_bad_cid: Vec<i64> = Vec::new();
    if let Some(v) = desc.get(b"W") {
        let Obj::Arr(a) = rd.resolve(v).map_err(e)? else { return Err("/W is not an array".into()) };
        let mut i = 0;
        while i < a.len() {
            let first = rd.resolve(&a[i]).map_err(e)?.as_int().ok_or(format!("/W element {i} is not an integer"))?;
            let second = rd.resolve(a.get(i + 1).ok_or("/W ends after a first code")?).map_err(e)?;
            match second {
                Obj::Arr(ws) => {
                    let ws: Vec<f64> = ws.iter().map(|x| rd.resolve(x).ok().and_then(|x| x.as_num()).ok_or("non-numeric width".to_string())).collect::<Result<_, _>>()?;
                    if ws.is_empty() {
                        structure.push(format!("/W: empty width list at element {i}"));
                    }
                    w.push((first as u32, first as u32 + ws.len().max(1) as u32 - 1, ws));
                    w_range.push(false);
                    i += 2;
                }
                Obj::Int(last) => {
                    let width = rd.resolve(a.get(i + 2).ok_or("/W ends inside a range")?).map_err(e)?.as_num().ok_or("non-numeric width")?;
                    if last < first {
                        structure.push(format!("/W: range {first} {last} is descending"));
                    }
                    w.push((first as u32, last as u32, vec![width]));
                    w_range.push(true);
                    i += 3;
                }
                other => return Err(format!("/W element {} is {other:?}", i + 1)),
            }
            if first < 0 || first > 0xFFFF {
                w_bad_cid.push(first);
            }
        }
    }
    let (mut cid_to_gid, mut has_key) = (None, false);
    match desc.get(b"CIDToGIDMap").map(|v| rd.resolve(v)) {
        None => {}
        Some(Ok(Obj::Name(n))) if n == b"Identity" => has_key = true,
        Some(Ok(Obj::Stream(s))) => {
            has_key = true;
            cid_to_gid = Some(rd.stream_data(&s).map_err(e)?);
        }
        other => return Err(format!("/CIDToGIDMap {other:?}")),
    }
    let fdesc = match desc.get(b"FontDescriptor").map(|v| rd.resolve(v)) {
        Some(Ok(Obj::Dict(d))) => d,
        other => return Err(format!("/FontDescriptor {other:?}")),
    };
    let (mut program, mut program_key, mut program_subtype) = (Vec::new(), "", None);
    for key in ["FontFile2", "FontFile3", "FontFile"] {
        if let Some(v) = fdesc.get(key.as_bytes()) {
            match rd.resolve(v).map_err(e)? {
                Obj::Stream(s) => {
                    program = rd.stream_data(&s).map_err(e)?;
                    program_key = key;
                    program_subtype = s.dict.name(b"Subtype").map(|n| n.to_vec());
                    if key == "FontFile2" {
                        match s.dict.get(b"Length1").map(|x| rd.resolve(x)) {
                            Some(Ok(Obj::Int(n))) if n as usize == program.len() => {}
                            other => structure.push(format!("FontFile2 /Length1 {other:?}, decoded length {}", program.len())),
                        }
                    }
                }
                other => return Err(format!("/{key} is {other:?}")),
            }
            break;
        }
    }
    if program_key.is_empty() {
        return Err("font descriptor has no font file: the font is not embedded".into());
    }
    Ok(EmbFont { subtype, tounicode, tounicode_err, w, w_range, dw, cid_to_gid, has_cid_to_gid_key: has_key, program, program_key, program_subtype, structure, w_bad_cid })
}

impl EmbFont {
    fn width(&self, cid: u32) -> f64 {
        // a later entry does not override an earlier one in any documented way; take the first that covers the CID
        for ((first, last, ws), range) in self.w.iter().zip(&self.w_range) {
            if cid >= *first && cid <= *last {
                return if *range { ws[0] } else { ws.get((cid - first) as usize).copied().unwrap_or(self.dw) };
            }
        }
        self.dw
    }
    fn w_entries_covering(&self, cid: u32) -> usize {
        self.w.iter().filter(|(f, l, _)| cid >= *f && cid <= *l).count()
    }
}

struct ShowOp {
    font: Vec<u8>,
    bytes: Vec<u8>,
}

/// Show operators of a content stream with the font resource name in force.
fn show_ops(content: &[u8]) -> Result<Vec<ShowOp>, String> {
    let mut lx = Lexer::new(content, 0);
    let mut operands: Vec<Tok> = Vec::new();
    let mut font: Vec<u8> = Vec::new();
    let mut stack: Vec<Vec<u8>> = Vec::new();
    let mut out = Vec::new();
    loop {
        match lx.next_tok().map_err(|e| format!("content stream at {}: {}", e.at, e.msg))? {
            Tok::Eof => break,
            Tok::Kw(k) => {
                match k.as_slice() {
                    b"Tf" => {
                        if let Some(Tok::Name(n)) = operands.iter().find(|t| matches!(t, Tok::Name(_))) {
                            font = n.clone();
                        }
                    }
                    b"q" => stack.push(font.clone()),
                    b"Q" => {
                        if let Some(f) = stack.pop() {
                            font = f;
                        }
                    }
                    b"Tj" | b"'" | b"\"" | b"TJ" => {
                        let mut bytes = Vec::new();
                        for t in &operands {
                            if let Tok::Str(s) = t {
                                bytes.extend_from_slice(s);
                            }
                        }
                        out.push(ShowOp { font: font.clone(), bytes });
                    }
                    _ => {}
                }
                operands.clear();
            }
            t => operands.push(t),
        }
    }
    Ok(out)
}

/// Decode 2-byte codes through a ToUnicode program. Err carries the first code that has no (valid) definition.
fn decode(p: &rc::Program, bytes: &[u8], want: Option<&str>) -> Result<String, String> {
    if bytes.len() % 2 != 0 {
        return Err(format!("show string of {} bytes is not a sequence of 2-byte codes", bytes.len()));
    }
    let mut s = String::new();
    // with `want` given, an ambiguous (low-byte-overflow) definition is read the way that reproduces `want`
    let want_chars: Vec<char> = want.map(|w| w.chars().collect()).unwrap_or_default();
    for code in bytes.chunks(2) {
        if !p.in_codespace(code) {
            return Err(format!("code <{:02X}{:02X}> is outside the code space", code[0], code[1]));
        }
        let cands = p.candidates(code);
        let Some(last) = cands.last() else { return Err(format!("code <{:02X}{:02X}> has no bfchar/bfrange definition", code[0], code[1])) };
        let vals: Vec<String> = last.values.iter().filter_map(|v| rc::utf16be(v)).collect();
        if vals.is_empty() {
            return Err(format!("code <{:02X}{:02X}> maps to {:02X?}, which is not UTF-16BE", code[0], code[1], last.values));
        }
        let pos = s.chars().count();
        let pick = vals.iter().find(|v| want_chars.get(pos).map(|c| v.chars().next() == Some(*c)).unwrap_or(false)).unwrap_or(&vals[0]);
        s.push_str(pick);
    }
    Ok(s)
}

// ------------------------------------------------------------------------------------------------
// oracle
// ------------------------------------------------------------------------------------------------

fn has_astral(s: &str) -> bool {
    s.chars().any(|c| c as u32 > 0xFFFF)
}

fn multiset<I: IntoIterator<Item = char>>(it: I) -> BTreeMap<char, i64> {
    let mut m = BTreeMap::new();
    for c in it {
        if !c.is_whitespace() {
            *m.entry(c).or_insert(0) += 1;
        }
    }
    m
}

fn squeeze(s: &str) -> String {
    s.chars().filter(|c| !c.is_whitespace()).collect()
}

fn show(s: &str) -> String {
    s.chars().map(|c| if c.is_ascii_graphic() { c.to_string() } else { format!("\\u{{{:X}}}", c as u32) }).collect()
}

pub fn check(c: &Case) -> Outcome {
    let mut o = Outcome::new();
    let fs = match fonts() {
        Ok(f) => f,
        Err(e) => {
            o.fail("C13/harness-fonts", "calibration", e.clone());
            return o;
        }
    };
    // ---- classification
    let mut nt = false;
    for (pi, draws) in c.pages.iter().enumerate() {
        let slots: BTreeSet<u8> = draws.iter().map(|d| d.slot).filter(|s| *s != 255).collect();
        o.label_if(slots.len() >= 2, "page:two-or-more-custom-fonts");
        o.label_if(!slots.is_empty() && draws.iter().any(|d| d.slot == 255), "page:custom+standard-font");
        let _ = pi;
        for d in draws {
            if d.slot == 255 {
                continue;
            }
            let f = &fs[c.fonts[d.slot as usize] as usize];
            o.label(format!("font={}", f.label));
            o.label(format!("api={}", ["TextContext::write", "set_custom_font+draw_text", "set_font+show_text"][d.api.min(2) as usize]));
            let chars: Vec<char> = d.text.chars().collect();
            let distinct: BTreeSet<char> = chars.iter().copied().collect();
            for ch in &distinct {
                if *ch != ' ' {
                    o.label(format!("script={}", CLASSES[class_of(*ch as u32)]));
                }
            }
            o.label_if(distinct.len() < chars.len(), "string:repeated-character");
            o.label_if(chars.windows(2).any(|w| w[1] as u32 == w[0] as u32 + 1), "string:successor-run");
            o.label_if(chars.windows(2).any(|w| w[1] as u32 == w[0] as u32 + 1 && w[0] as u32 & 0xFF == 0xFF), "string:xxFF|xx00-pair");
            o.label_if(chars.iter().any(|ch| f.shared.binary_search(&(*ch as u32)).is_ok()), "string:char-sharing-a-glyph");
            o.label_if(d.text.contains(' '), "string:inner-space");
            o.label_if(chars.iter().any(|ch| f.partner.get(&(*ch as u32)).map(|p| chars.contains(&char::from_u32(*p).unwrap_or('\0'))).unwrap_or(false)), "string:two-chars-of-one-glyph");
            if distinct.iter().filter(|ch| !ch.is_ascii()).count() >= 2 {
                nt = true;
            }
        }
    }
    o.nontrivial(nt);
    o.label(format!("cfg={}", ["classic,plain", "classic,flate", "xref-stream,flate", "xref-stream,plain", "object-streams"][c.cfg.min(4) as usize]));
    o.label(format!("custom-fonts={}", c.fonts.len()));
    o.label(format!("pages={}", c.pages.len()));
    let kinds: BTreeSet<&str> = c.fonts.iter().map(|f| fs[*f as usize].kind).collect();
    let kinds_s = kinds.iter().copied().collect::<Vec<_>>().join("+");

    // ---- build
    let bytes = match build(c, fs) {
        Ok(b) => b,
        Err(e) => {
            o.fail("C13/document-builds", kinds_s, e);
            return o;
        }
    };
    engine::isolate::dump("c13.pdf", &bytes);

    // ---- independent reader
    let rd = match refpdf::Reader::open(&bytes, None) {
        Ok(r) => r,
        Err(e) => {
            o.fail("C13/independent-reader-opens", format!("cfg={}", c.cfg), format!("at {}: {}", e.at, e.msg));
            return o;
        }
    };
    let pages = match rd.pages() {
        Ok(p) if p.len() == c.pages.len() => p,
        other => {
            o.fail("C13/independent-reader-opens", format!("cfg={}", c.cfg), format!("pages: {:?}, authored {}", other.map(|p| p.len()).map_err(|e| e.msg), c.pages.len()));
            return o;
        }
    };
    // font object (by resolved dictionary text) → parsed, so a font shared by pages is read once
    let mut emb: BTreeMap<u8, EmbFont> = BTreeMap::new();
    // (slot, code, char) pairs aligned through a successful independent extraction
    let mut aligned: BTreeMap<u8, BTreeMap<u32, BTreeSet<char>>> = BTreeMap::new();
    let mut excluded_cd = false;
    for (pi, (page, draws)) in pages.iter().zip(&c.pages).enumerate() {
        let res = match page.inherited.get(b"Resources").map(|r| rd.resolve(r)) {
            Some(Ok(Obj::Dict(d))) => d,
            other => {
                o.fail("C13/font-structure", kinds_s.clone(), format!("page {pi}: /Resources {other:?}"));
                continue;
            }
        };
        let fonts_dict = match res.get(b"Font").map(|v| rd.resolve(v)) {
            Some(Ok(Obj::Dict(d))) => d,
            _ => refpdf::Dict::new(),
        };
        for d in draws {
            if d.slot == 255 || emb.contains_key(&d.slot) {
                continue;
            }
            let f = &fs[c.fonts[d.slot as usize] as usize];
            match fonts_dict.get(slot_name(d.slot).as_bytes()).map(|v| rd.resolve(v)) {
                Some(Ok(Obj::Dict(fd))) => match read_font(&rd, &fd) {
                    Ok(e) => {
                        emb.insert(d.slot, e);
                    }
                    Err(m) => o.fail("C13/font-structure", format!("font={}", f.kind), format!("page {pi}, font {}: {m}", f.label)),
                },
                other => o.fail("C13/font-structure", format!("font={}", f.kind), format!("page {pi}: /Font has no dictionary for {} ({}): {other:?}", slot_name(d.slot), f.label)),
            }
        }
        let content = match rd.page_content(page) {
            Ok(c) => c,
            Err(e) => {
                o.fail("C13/independent-reader-opens", format!("cfg={}", c.cfg), format!("page {pi} content: {}", e.msg));
                continue;
            }
        };
        let ops = match show_ops(&content) {
            Ok(v) => v,
            Err(m) => {
                o.fail("C13/content-stream-tokenizes", kinds_s.clone(), m);
                continue;
            }
        };
        // (b) independent extraction: every drawn string must be produced by exactly one show operator of its font
        let mut unused: Vec<bool> = vec![true; ops.len()];
        for (k, d) in draws.iter().enumerate() {
            if d.slot == 255 {
                let name = std_font(k).pdf_name();
                let hit = ops.iter().enumerate().position(|(i, op)| unused[i] && op.font == name.as_bytes() && op.bytes == d.text.as_bytes());
                match hit {
                    Some(i) => unused[i] = false,
                    None => o.fail("C13/independent-extract", "font=standard-14", format!("page {pi}: no show operator under /{name} carries {:?}", d.text)),
                }
                continue;
            }
            let f = &fs[c.fonts[d.slot as usize] as usize];
            let Some(e) = emb.get(&d.slot) else { continue };
            let astral = has_astral(&d.text);
            let class = if astral { "astral".to_string() } else { format!("bmp,font={}", f.kind) };
            let Some(p) = &e.tounicode else {
                o.fail("C13/independent-extract", class, format!("page {pi}, font {}: no usable /ToUnicode: {:?}", f.label, e.tounicode_err));
                continue;
            };
            let name = slot_name(d.slot);
            let mut reasons = Vec::new();
            let mut hit = None;
            for (i, op) in ops.iter().enumerate() {
                if !unused[i] || op.font != name.as_bytes() {
                    continue;
                }
                match decode(p, &op.bytes, Some(&d.text)) {
                    Ok(s) if s == d.text => {
                        hit = Some(i);
                        break;
                    }
                    Ok(s) => reasons.push(format!("<{}> → {}", hex(&op.bytes), show(&s))),
                    Err(m) => reasons.push(format!("<{}>: {m}", hex(&op.bytes))),
                }
            }
            match hit {
                Some(i) => {
                    unused[i] = false;
                    let chars: Vec<char> = d.text.chars().collect();
                    if ops[i].bytes.len() == 2 * chars.len() {
                        for (code, ch) in ops[i].bytes.chunks(2).zip(&chars) {
                            aligned.entry(d.slot).or_default().entry((code[0] as u32) << 8 | code[1] as u32).or_default().insert(*ch);
                        }
                    } else {
                        excluded_cd = true; // several codes per character: no code ↔ character alignment
                    }
                }
                None => {
                    if astral {
                        excluded_cd = true;
                    }
                    o.fail("C13/independent-extract", class, format!("page {pi}, font {}: drawn {} is not what any show operator of /{name} decodes to through /ToUnicode: {}", f.label, show(&d.text), reasons.join("; ")));
                }
            }
        }
        // no show operator beyond the drawn strings
        let mut names: BTreeSet<Vec<u8>> = BTreeSet::new();
        for (k, d) in draws.iter().enumerate() {
            names.insert(if d.slot == 255 { std_font(k).pdf_name().into_bytes() } else { slot_name(d.slot).into_bytes() });
        }
        for n in &names {
            let drawn = draws.iter().enumerate().filter(|(k, d)| &(if d.slot == 255 { std_font(*k).pdf_name().into_bytes() } else { slot_name(d.slot).into_bytes() }) == n).count();
            let shown = ops.iter().filter(|op| &op.font == n).count();
            if drawn != shown {
                o.fail("C13/independent-extract", "show-operator-count", format!("page {pi}: {drawn} strings drawn with /{}, {shown} show operators under it", String::from_utf8_lossy(n)));
            }
        }
        if ops.iter().any(|op| !names.contains(&op.font)) {
            o.fail("C13/independent-extract", "show-operator-count", format!("page {pi}: a show operator runs under a font no string was drawn with"));
        }
    }

    // ---- /ToUnicode validity, (c) widths, (d) glyphs — per embedded font
    for (slot, e) in &emb {
        let f = &fs[c.fonts[*slot as usize] as usize];
        let fclass = format!("font={}", f.kind);
        for s in &e.structure {
            o.fail("C13/font-structure", fclass.clone(), format!("font {}: {s}", f.label));
        }
        if !e.w_bad_cid.is_empty() {
            o.fail("C13/font-structure", "W-CID-above-65535", format!("font {}: /W lists {} CIDs outside 0..65535 (a CID is a 16-bit number under Identity-H): {:?}", f.label, e.w_bad_cid.len(), &e.w_bad_cid[..e.w_bad_cid.len().min(5)]));
        }
        if let Some(p) = &e.tounicode {
            for is in &p.issues {
                let kind = if is.contains("low byte overflows") || is.contains("more than the last byte") {
                    "bfrange-crosses-xxFF/xx00"
                } else if is.contains("declared count") {
                    "block-count"
                } else {
                    "other"
                };
                o.fail("C13/tounicode-valid", kind, format!("font {}: {is}", f.label));
            }
        }
        let want_sub: &[u8] = if f.kind == "cff" { b"CIDFontType0" } else { b"CIDFontType2" };
        if e.subtype != want_sub {
            o.fail("C13/font-structure", fclass.clone(), format!("font {}: CIDFont /Subtype {:?} for a {} font", f.label, String::from_utf8_lossy(&e.subtype), f.kind));
        }
        let Some(al) = aligned.get(slot) else { continue };
        // embedded program
        enum Prog<'a> {
            Tt(TtFont<'a>),
            Cff(Cff<'a>),
        }
        let prog = if e.program_key == "FontFile2" {
            match TtFont::parse(&e.program) {
                Ok(t) => Some(Prog::Tt(t)),
                Err(i) => {
                    o.fail("C13/embedded-program-readable", fclass.clone(), format!("font {}: FontFile2: {}: {}", f.label, i.clause, i.detail));
                    None
                }
            }
        } else if e.program_key == "FontFile3" {
            let sub = e.program_subtype.clone().unwrap_or_default();
            let data: Result<&[u8], String> = if sub == b"OpenType" || e.program.starts_with(b"OTTO") {
                if sub != b"OpenType" {
                    o.fail("C13/font-structure", fclass.clone(), format!("font {}: FontFile3 /Subtype /{} but the stream is an OpenType (sfnt) file, not bare CFF", f.label, String::from_utf8_lossy(&sub)));
                }
                Sfnt::parse(&e.program).and_then(|s| s.table(b"CFF ")).map_err(|i| i.detail)
            } else {
                Ok(&e.program[..])
            };
            match data.and_then(|d| Cff::parse(d).map_err(|i| format!("{}: {}", i.clause, i.detail))) {
                Ok(cf) => Some(Prog::Cff(cf)),
                Err(m) => {
                    o.fail("C13/embedded-program-readable", fclass.clone(), format!("font {}: FontFile3: {m}", f.label));
                    None
                }
            }
        } else {
            o.fail("C13/font-structure", fclass.clone(), format!("font {}: program under /{}", f.label, e.program_key));
            None
        };
        match &prog {
            Some(Prog::Tt(_)) => o.label(if e.program.len() < f.bytes.len() { "embed=truetype-subset" } else { "embed=truetype-full" }),
            Some(Prog::Cff(cf)) => o.label(if cf.is_cid { "embed=cff-cid-keyed" } else { "embed=cff-name-keyed" }),
            None => {}
        }
        if f.kind != "cff" && !e.has_cid_to_gid_key {
            o.label("CIDToGIDMap=absent");
        }
        for (cid, chars) in al {
            if chars.len() != 1 {
                continue; // one code standing for two characters would already have failed (b)
            }
            let ch = *chars.iter().next().unwrap();
            let Some(&ogid) = f.cmap.get(&(ch as u32)) else { continue };
            let gclass = format!("font={},{}", f.kind, if f.partner.contains_key(&(ch as u32)) { "char-sharing-a-glyph" } else { "char-with-own-glyph" });
            // (c)
            let exact = f.advances[ogid as usize] as f64 * 1000.0 / f.upem as f64;
            let declared = e.width(*cid);
            if (declared - exact).abs() >= 1.0 {
                o.fail("C13/declared-width", gclass.clone(), format!("font {}: U+{:04X} (CID {cid}): /W,/DW give {declared}, original glyph {ogid} advance {} / {} upem = {exact:.3}", f.label, ch as u32, f.advances[ogid as usize], f.upem));
            }
            if e.w_entries_covering(*cid) > 1 {
                o.fail("C13/declared-width", "CID-covered-twice-in-W", format!("font {}: CID {cid} is covered by {} /W entries", f.label, e.w_entries_covering(*cid)));
            }
            // (d)
            match &prog {
                Some(Prog::Tt(t)) => {
                    let gid = match &e.cid_to_gid {
                        None => *cid as usize,
                        Some(m) => match m.get(2 * *cid as usize..2 * *cid as usize + 2) {
                            Some(b) => (b[0] as usize) << 8 | b[1] as usize,
                            None => {
                                o.fail("C13/cid-maps-to-glyph", gclass.clone(), format!("font {}: CID {cid} (U+{:04X}) lies beyond the {}-byte /CIDToGIDMap", f.label, ch as u32, m.len()));
                                continue;
                            }
                        },
                    };
                    if gid >= t.num_glyphs as usize {
                        o.fail("C13/cid-maps-to-glyph", gclass.clone(), format!("font {}: CID {cid} (U+{:04X}) → glyph {gid}, embedded program has {} glyphs", f.label, ch as u32, t.num_glyphs));
                        continue;
                    }
                    let ot = f.tt.expect("truetype original");
                    match (ot.flatten(ogid), t.flatten(gid as u16)) {
                        (Ok(a), Ok(b)) => {
                            if a != b {
                                o.fail("C13/glyph-outline-equal", gclass.clone(), format!("font {}: U+{:04X}: original glyph {ogid} has {} contours / {} points, embedded glyph {gid} has {} / {}", f.label, ch as u32, a.len(), a.iter().map(|c| c.len()).sum::<usize>(), b.len(), b.iter().map(|c| c.len()).sum::<usize>()));
                            }
                        }
                        (Err(_), _) => o.label("orig-glyph-unreadable"),
                        (_, Err(i)) => o.fail("C13/glyph-outline-equal", gclass.clone(), format!("font {}: U+{:04X}: embedded glyph {gid} unreadable: {}: {}", f.label, ch as u32, i.clause, i.detail)),
                    }
                    match t.advance(gid as u16) {
                        Ok(a) if a == f.advances[ogid as usize] => {}
                        other => o.fail("C13/glyph-advance-equal", gclass.clone(), format!("font {}: U+{:04X}: original advance {}, embedded glyph {gid} advance {other:?}", f.label, ch as u32, f.advances[ogid as usize])),
                    }
                }
                Some(Prog::Cff(cf)) => {
                    let gid = if cf.is_cid {
                        // CID-keyed CFF: the charset lists the CID of every glyph; a CID it does not list selects .notdef
                        match cf.charset.iter().position(|x| *x as u32 == *cid) {
                            Some(g) => g,
                            None => {
                                o.fail("C13/cid-maps-to-glyph", gclass.clone(), format!("font {}: CID {cid} (U+{:04X}) is not in the charset of the embedded CID-keyed CFF ({} glyphs): it shows .notdef", f.label, ch as u32, cf.num_glyphs()));
                                continue;
                            }
                        }
                    } else {
                        *cid as usize // name-keyed CFF under CIDFontType0: CID = glyph index (ISO 32000-1 9.7.4.2)
                    };
                    if gid >= cf.num_glyphs() {
                        o.fail("C13/cid-maps-to-glyph", gclass.clone(), format!("font {}: CID {cid} (U+{:04X}) → glyph {gid}, embedded CFF has {} glyphs", f.label, ch as u32, cf.num_glyphs()));
                        continue;
                    }
                    let oc = f.cff.expect("cff original");
                    match (oc.run(ogid as usize), cf.run(gid)) {
                        (Ok(a), Ok(b)) => {
                            if a.path != b.path {
                                o.fail("C13/glyph-outline-equal", gclass.clone(), format!("font {}: U+{:04X}: original glyph {ogid}: {} segments, embedded glyph {gid}: {} segments", f.label, ch as u32, a.path.len(), b.path.len()));
                            }
                            if b.width != f.advances[ogid as usize] as f64 {
                                o.fail("C13/glyph-advance-equal", gclass.clone(), format!("font {}: U+{:04X}: original advance {}, embedded charstring width {}", f.label, ch as u32, f.advances[ogid as usize], b.width));
                            }
                        }
                        (Err(_), _) => o.label("orig-glyph-unreadable"),
                        (_, Err(i)) => o.fail("C13/glyph-outline-equal", gclass.clone(), format!("font {}: U+{:04X}: embedded glyph {gid} not interpretable: {}", f.label, ch as u32, i.detail)),
                    }
                }
                None => {}
            }
        }
    }
    if excluded_cd {
        o.excluded("C13/declared-width");
        o.excluded("C13/cid-maps-to-glyph");
        o.excluded("C13/glyph-outline-equal");
    }

    // ---- (a) the library's extractor
    match PdfReader::new(Cursor::new(bytes.clone())).map(PdfDocument::new) {
        Err(e) => o.fail("C13/library-reads-own-output", format!("cfg={}", c.cfg), format!("PdfReader::new: {e}")),
        Ok(doc) => {
            for (pi, draws) in c.pages.iter().enumerate() {
                let opts = ExtractionOptions { merge_hyphenated: false, ..Default::default() };
                let text = match doc.extract_text_from_page_with_options(pi as u32, opts) {
                    Ok(t) => t.text,
                    Err(e) => {
                        o.fail("C13/library-reads-own-output", format!("cfg={}", c.cfg), format!("extract_text_from_page_with_options({pi}): {e}"));
                        continue;
                    }
                };
                let want = multiset(draws.iter().flat_map(|d| d.text.chars()));
                let got = multiset(text.chars());
                let page_astral = draws.iter().any(|d| has_astral(&d.text));
                let diff = |want: &BTreeMap<char, i64>| -> (String, String) {
                    let (mut missing, mut extra) = (String::new(), String::new());
                    let keys: BTreeSet<char> = want.keys().chain(got.keys()).copied().collect();
                    for k in keys {
                        let d = got.get(&k).copied().unwrap_or(0) - want.get(&k).copied().unwrap_or(0);
                        if d < 0 {
                            missing.push_str(&format!("U+{:04X}×{} ", k as u32, -d));
                        } else if d > 0 {
                            extra.push_str(&format!("U+{:04X}×{} ", k as u32, d));
                        }
                    }
                    (missing, extra)
                };
                let kinds_p: BTreeSet<&str> = draws.iter().filter(|d| d.slot != 255).map(|d| fs[c.fonts[d.slot as usize] as usize].kind).collect();
                let bmp_class = format!("bmp,font={}", kinds_p.iter().copied().collect::<Vec<_>>().join("+"));
                if !page_astral {
                    if want != got {
                        let (missing, extra) = diff(&want);
                        o.fail("C13/library-extract-multiset", bmp_class, format!("page {pi}: missing {missing}| extra {extra}| extracted {}", show(&text)));
                    }
                } else {
                    // behind the astral finding: the strings WITHOUT supplementary characters must still come back in full
                    // (the undefined surrogate codes of the other strings may add or swallow characters of their own string)
                    let clean = multiset(draws.iter().filter(|d| !has_astral(&d.text)).flat_map(|d| d.text.chars()));
                    let (missing, _) = diff(&clean);
                    if !missing.is_empty() {
                        o.fail("C13/library-extract-multiset", bmp_class, format!("page {pi}: characters of strings without supplementary characters are missing: {missing}| extracted {}", show(&text)));
                    }
                    if want != got {
                        let (missing, extra) = diff(&want);
                        o.fail("C13/library-extract-multiset", "astral", format!("page {pi}: missing {missing}| extra {extra}| extracted {}", show(&text)));
                    }
                }
                let hay = squeeze(&text);
                for d in draws {
                    let needle = squeeze(&d.text);
                    if !needle.is_empty() && !hay.contains(&needle) {
                        let class = if has_astral(&d.text) { "astral".to_string() } else if d.slot == 255 { "font=standard-14".into() } else { format!("bmp,font={}", fs[c.fonts[d.slot as usize] as usize].kind) };
                        o.fail("C13/library-extract-substring", class, format!("page {pi}: drawn {} does not occur in the extracted text {}", show(&d.text), show(&text)));
                    }
                }
            }
        }
    }
    o
}

fn hex(b: &[u8]) -> String {
    b.iter().map(|x| format!("{x:02X}")).collect()
}

// ------------------------------------------------------------------------------------------------
// generator
// ------------------------------------------------------------------------------------------------

type CharSpec = (u8, u16);
type DrawSpec = (u16, u8, Vec<CharSpec>, u8, u8, bool);

/// selection weights over `fonts()`: Roboto ×3, SourceSans3 ×4, DejaVuSans ×3, DejaVuSansMono ×2, Generated ×3, GeneratedAstral ×1
const FONT_WEIGHTS: [u8; 16] = [0, 0, 0, 1, 1, 1, 1, 2, 2, 2, 3, 3, 4, 4, 4, 5];

fn make_text(f: &FontInfo, primary: u8, specs: &[CharSpec], astral_ok: bool, boundary_ok: bool, pair_ok: bool) -> String {
    let nonempty: Vec<usize> = (0..6).filter(|k| !f.classes[*k].is_empty()).collect();
    let prim = nonempty[engine::pick_idx((primary as u16) << 8, nonempty.len())];
    let mut out: Vec<u32> = Vec::new();
    for (n, (sel, idx)) in specs.iter().enumerate() {
        let from = |v: &[u32]| v[engine::pick_idx(*idx, v.len())];
        match *sel {
            0..=119 => out.push(from(&f.classes[prim])),
            120..=149 => out.push(from(&f.classes[0])),
            150..=174 => out.push(from(&f.all_bmp)),
            175..=199 => {
                if out.is_empty() {
                    out.push(from(&f.classes[prim]));
                } else {
                    out.push(out[engine::pick_idx(*idx, out.len())]);
                }
            }
            200..=219 => {
                // successor of the previous character when the font covers it
                match out.last().copied().filter(|p| *p != 0x20 && f.cmap.contains_key(&(p + 1))) {
                    Some(p) => out.push(p + 1),
                    None => out.push(from(&f.classes[prim])),
                }
            }
            220..=229 => {
                if f.boundary.is_empty() || !boundary_ok {
                    out.push(from(&f.classes[prim]));
                } else {
                    let b = from(&f.boundary);
                    out.push(b);
                    out.push(b + 1);
                }
            }
            230..=239 => {
                if f.shared.is_empty() {
                    out.push(from(&f.classes[prim]));
                } else {
                    let c = from(&f.shared);
                    out.push(c);
                    if pair_ok && n > 0 {
                        out.push(f.partner[&c]);
                    }
                }
            }
            240..=247 => {
                if n > 0 && n + 1 < specs.len() && out.last() != Some(&0x20) {
                    out.push(0x20);
                } else {
                    out.push(from(&f.classes[prim]));
                }
            }
            _ => {
                if astral_ok && !f.classes[6].is_empty() {
                    out.push(from(&f.classes[6]));
                } else {
                    out.push(from(&f.classes[prim]));
                }
            }
        }
    }
    while out.last() == Some(&0x20) {
        out.pop();
    }
    out.into_iter().filter_map(char::from_u32).collect()
}

fn std_text(specs: &[CharSpec]) -> String {
    const A: &[u8] = b"ABCDEFGHIJKLMNOPQRSTUVWXYZabcdefghijklmnopqrstuvwxyz0123456789";
    specs.iter().map(|(_, i)| A[engine::pick_idx(*i, A.len())] as char).collect()
}

pub fn strategy() -> impl Strategy<Value = Case> {
    let draw = (any::<u16>(), any::<u8>(), prop::collection::vec((any::<u8>(), any::<u16>()), 1..=10), 6u8..=40, 0u8..3, prop::bool::weighted(0.15));
    let page = prop::collection::vec(draw, 1..=6);
    (prop::collection::vec(any::<u16>(), 1..=3), prop::collection::vec(page, 1..=3), 0u8..100, prop::bool::weighted(0.12), prop::bool::weighted(0.1), prop::bool::weighted(0.1), prop::bool::weighted(0.15)).prop_map(move |(fsel, mut pages, cfg, astral_ok, boundary_ok, pair_ok, small): (Vec<u16>, Vec<Vec<DrawSpec>>, u8, bool, bool, bool, bool)| {
        // small documents: the ToUnicode writer only forms bfrange entries at the start of a font's sorted code list
        if small || boundary_ok {
            pages.truncate(1);
            pages[0].truncate(2);
        }
        let fs = fonts().as_ref().expect("fonts calibrated in run()");
        let mut fonts: Vec<u8> = Vec::new();
        for s in fsel {
            let id = FONT_WEIGHTS[engine::pick_idx(s, FONT_WEIGHTS.len())];
            if !fonts.contains(&id) {
                fonts.push(id);
            }
        }
        let mut out_pages: Vec<Vec<Draw>> = Vec::new();
        for p in pages {
            let mut draws = Vec::new();
            for (slot_sel, primary, specs, size, api, is_std) in p {
                if is_std {
                    draws.push(Draw { slot: 255, text: std_text(&specs), size, api: api.min(1) });
                } else {
                    let slot = engine::pick_idx(slot_sel, fonts.len());
                    let text = make_text(&fs[fonts[slot] as usize], primary, &specs, astral_ok, boundary_ok, pair_ok);
                    if text.is_empty() {
                        continue;
                    }
                    draws.push(Draw { slot: slot as u8, text, size, api });
                }
            }
            if draws.is_empty() {
                draws.push(Draw { slot: 0, text: make_text(&fs[fonts[0] as usize], 0, &[(0, 0)], false, false, false), size: 12, api: 0 });
            }
            out_pages.push(draws);
        }
        let cfg = match cfg {
            0..=24 => 0,
            25..=49 => 1,
            50..=73 => 2,
            74..=96 => 3,
            _ => 4,
        };
        Case { fonts, pages: out_pages, cfg }
    })
}

/// Dense documents: one font, one page, 3–6 long strings drawn across the font's whole BMP repertoire, so that a
/// single font carries well over 100 distinct, mostly non-adjacent code points (several ToUnicode blocks, long /W arrays).
pub fn strategy_dense() -> impl Strategy<Value = Case> {
    let draw = (any::<u8>(), prop::collection::vec((any::<u8>(), any::<u16>()), 40..=70), 6u8..=14, 0u8..3);
    (any::<u16>(), prop::collection::vec(draw, 3..=6), 0u8..4).prop_map(|(fsel, draws, cfg)| {
        let fs = fonts().as_ref().expect("fonts calibrated in run()");
        let font = FONT_WEIGHTS[engine::pick_idx(fsel, FONT_WEIGHTS.len())];
        let f = &fs[font as usize];
        let mut out = Vec::new();
        for (primary, specs, size, api) in draws {
            // 4 of 5 characters from the whole BMP repertoire, the rest from the primary class / repeats / successors
            let specs: Vec<CharSpec> = specs.into_iter().enumerate().map(|(i, (sel, idx))| if i % 5 != 4 { (150 + sel % 25, idx) } else { (sel % 220, idx) }).collect();
            let text = make_text(f, primary, &specs, false, false, false);
            if !text.is_empty() {
                out.push(Draw { slot: 0, text, size, api });
            }
        }
        if out.is_empty() {
            out.push(Draw { slot: 0, text: make_text(f, 0, &[(0, 0)], false, false, false), size: 12, api: 0 });
        }
        Case { fonts: vec![font], pages: vec![out], cfg }
    })
}

fn run(ctx: &Ctx) {
    match fonts() {
        Ok(fs) => {
            let mut m = serde_json::Map::new();
            for f in fs {
                m.insert(f.label.to_string(), json!({"kind": f.kind, "bytes": f.bytes.len(), "upem": f.upem, "usable_cmap_entries": f.cmap.len(), "per_class": CLASSES.iter().zip(&f.classes).map(|(c, v)| (c.to_string(), json!(v.len()))).collect::<serde_json::Map<_, _>>(), "xxFF|xx00_pairs": f.boundary.len(), "bmp_chars_sharing_a_glyph": f.shared.len()}));
            }
            ctx.extra("fonts", Value::Object(m));
        }
        Err(e) => {
            eprintln!("[C13] font calibration failed: {e}");
            std::process::exit(2);
        }
    }
    if let Err(e) = rc::self_test() {
        eprintln!("[C13] reference CMap interpreter self-test failed: {e}");
        std::process::exit(2);
    }
    ctx.set_shrink_budget(400);
    ctx.run_sub("documents", ctx.tier.pick(1_000, 20_000), strategy, check);
    ctx.run_sub("dense", ctx.tier.pick(150, 3_000), strategy_dense, check);
}

fn replay(ctx: &Ctx, sub: &str, case: &Value) -> Result<Outcome, String> {
    if let Err(e) = fonts() {
        return Err(format!("font calibration failed: {e}"));
    }
    match sub.trim_start_matches("replay:") {
        "documents" | "dense" => ctx.replay_case::<Case, _>(case, check),
        s => Err(format!("unknown sub-check {s}")),
    }
}
