//! C22 — batch processing reports every job exactly once under any schedule.
//!
//! PART 1 (this module): real OS threads. A generated batch (≤ 8 jobs) is executed through
//! `BatchProcessor::execute` or directly through `WorkerPool::process_jobs` (whose cancel flag and
//! `BatchProgress` are public), while the job closures record a history (global sequence numbers,
//! thread ids, progress snapshots). The oracle is a set of invariants over that history and the
//! returned results; it never compares the library with itself.
//!
//! Soundness notes (what is deliberately NOT demanded):
//! * a job that was queued before `cancel()` may still run — only "cancel before execute" makes
//!   every job "dispatched after cancel() returned";
//! * stop_on_error is only judged (i) between two operations on the SAME worker thread (the failing
//!   job's wrapper has returned before the next job is taken) and (ii) at parallelism 1, where every
//!   job runs on the single worker; a job racing with the failure on another worker is never judged;
//! * a job skipped because of cancellation may be reported `Cancelled` or `Failed` — both accepted;
//! * the schedule quantifier is only sampled (OS scheduler + generated yields/spins), see PART 2
//!   (`harness-shuttle`) for controlled schedules.
use crate::engine::{pick_idx, Ctx, Outcome, PropertyDef};
use oxidize_pdf::batch::{BatchJob, BatchOptions, BatchProcessor, BatchProgress, JobResult, ProgressInfo, WorkerOptions, WorkerPool};
use oxidize_pdf::error::PdfError;
use proptest::prelude::*;
use serde::{Deserialize, Serialize};
use serde_json::Value;
use std::path::{Path, PathBuf};
use std::sync::atomic::{AtomicBool, AtomicU64, AtomicUsize, Ordering::SeqCst};
use std::sync::{mpsc, Arc, Mutex, OnceLock};
use std::thread::ThreadId;
use std::time::Duration;

pub fn def() -> PropertyDef {
    PropertyDef {
        id: "C22",
        level: "exploration",
        rule: "sub `threads`: generated batches of 1–8 jobs — custom closures with outcome ∈ {ok, error, panic} preceded by 0–3 yields and 0–2000 spins, Rotate/Compress copies on per-case temp files (input present / missing / 'gated' = created only once a failure is known to be recorded), Merge of a one-page PDF — × parallelism 1–4 × stop_on_error × job_timeout Some/None × driver ∈ {BatchProcessor::execute with or without progress callback, WorkerPool::process_jobs} × cancellation ∈ {never, before execute, inside the k-th custom job via the public flag}; executed on real OS threads under a watchdog. Non-trivial: ≥ 3 jobs and (some non-ok outcome or a cancellation); distinct by the whole case (jobs, timing knobs, options).",
        assumptions: &[
            "real OS threads: only the interleavings the scheduler offers (perturbed by generated yields/spins and by 16 concurrent shards) are explored; the controlled-schedule half is the separate harness-shuttle crate",
            "mid-run cancellation is only possible through WorkerPool::process_jobs (BatchProcessor::execute consumes the processor, so cancel() can only precede it); for it only the sound direction is checked (a result `Cancelled` implies the operation never ran); 'dispatched after cancel() returned' is decidable only for cancel-before-execute",
            "stop_on_error is judged only where the recorded history proves the order: same worker thread after a failing custom job (any parallelism), and at parallelism 1 (a) a custom job that saw failed_jobs ≥ 1 in BatchProgress/progress callback before starting, (b) a Rotate/Compress job whose input file is created only after a failure was recorded and whose output exists",
            "a panicking job is expected to get exactly one non-Success result; which of Failed/Cancelled is not prescribed; a panic counts as a stop_on_error trigger only if the library itself recorded it as Failed",
            "no return within 30 s, reproduced twice, is reported as a deadlock (C22/returns); inside a region already listed as known the watchdog is shortened to 2 s (3 s while shrinking an unlisted hang)",
        ],
        trusted_base: &["harness history recorder (AtomicU64 sequence, ThreadId)", "std::fs existence of per-job output files", "tempfile"],
        run,
        replay,
    }
}

// ------------------------------------------------------------------------------------------ case

#[derive(Clone, Copy, Debug, PartialEq, Eq, Serialize, Deserialize)]
pub enum Out {
    Ok,
    Err,
    Panic,
}

#[derive(Clone, Copy, Debug, PartialEq, Eq, Serialize, Deserialize)]
pub enum Input {
    Present,
    Missing,
    /// created only after a failure is known to be recorded (by a failing custom job at the end of
    /// its operation, by the progress observer on failed_jobs ≥ 1)
    Gated,
}

#[derive(Clone, Debug, PartialEq, Eq, Serialize, Deserialize)]
pub enum Job {
    Custom { out: Out, yields: u8, spins: u16 },
    /// Rotate (compress=false) or Compress (compress=true): both are `fs::copy(input, output)`
    Copy { compress: bool, input: Input },
    Merge { missing: bool },
}

#[derive(Clone, Copy, Debug, PartialEq, Eq, Serialize, Deserialize)]
pub enum Mode {
    Processor { callback: bool },
    Pool,
}

#[derive(Clone, Copy, Debug, PartialEq, Eq, Serialize, Deserialize)]
pub enum Cancel {
    Never,
    Before,
    /// the closure of the k-th custom job (monotone pick) sets the cancel flag; Pool mode only
    /// (treated as Never elsewhere or when there is no custom job)
    InJob(u16),
}

#[derive(Clone, Debug, Serialize, Deserialize)]
pub struct Case {
    pub jobs: Vec<Job>,
    pub parallelism: u8,
    pub stop_on_error: bool,
    pub job_timeout: bool,
    pub mode: Mode,
    pub cancel: Cancel,
}

impl Case {
    fn customs(&self) -> Vec<usize> {
        (0..self.jobs.len()).filter(|&i| matches!(self.jobs[i], Job::Custom { .. })).collect()
    }
    /// index of the job whose closure cancels
    fn cancelling_job(&self) -> Option<usize> {
        match (self.mode, self.cancel) {
            (Mode::Pool, Cancel::InJob(k)) => {
                let cs = self.customs();
                if cs.is_empty() {
                    None
                } else {
                    Some(cs[pick_idx(k, cs.len())])
                }
            }
            _ => None,
        }
    }
    fn effective_cancel(&self) -> Cancel {
        match self.cancel {
            Cancel::InJob(k) if self.cancelling_job().is_some() => Cancel::InJob(k),
            Cancel::InJob(_) => Cancel::Never,
            c => c,
        }
    }
    fn has_panic(&self) -> bool {
        self.jobs.iter().any(|j| matches!(j, Job::Custom { out: Out::Panic, .. }))
    }
    /// region of the known hang: a job panics while execute() polls progress for a callback
    fn hang_region(&self) -> bool {
        self.has_panic() && self.mode == (Mode::Processor { callback: true }) && self.cancel != Cancel::Before
    }
}

// --------------------------------------------------------------------------------------- recorder

#[derive(Clone, Debug)]
struct Ev {
    job: usize,
    start: u64,
    end: u64,
    tid: ThreadId,
    /// failed_jobs as visible to the closure when its operation started (BatchProgress in Pool
    /// mode, last progress-callback value in Processor mode)
    failed_at_start: usize,
}

struct Shared {
    seq: AtomicU64,
    events: Mutex<Vec<Ev>>,
    gates_open: AtomicBool,
    gate_links: Vec<PathBuf>,
    base: PathBuf,
    cb_failed: AtomicUsize,
    cb_calls: AtomicU64,
    last_info: Mutex<Option<[usize; 4]>>,
    abort: AtomicBool,
}

impl Shared {
    fn open_gates(&self) {
        if !self.gates_open.swap(true, SeqCst) {
            for g in &self.gate_links {
                if std::fs::hard_link(&self.base, g).is_err() {
                    let _ = std::fs::copy(&self.base, g);
                }
            }
        }
    }
    fn push(&self, e: Ev) {
        self.events.lock().unwrap_or_else(|p| p.into_inner()).push(e);
    }
}

fn base_pdf() -> &'static [u8] {
    static B: OnceLock<Vec<u8>> = OnceLock::new();
    B.get_or_init(|| {
        let mut doc = oxidize_pdf::Document::new();
        doc.add_page(oxidize_pdf::Page::a4());
        doc.to_bytes().unwrap_or_else(|_| b"%PDF-1.4\n%%EOF\n".to_vec())
    })
}

fn in_name(i: usize) -> String {
    format!("j{i}_in.pdf")
}
fn out_name(i: usize) -> String {
    format!("j{i}_out.pdf")
}
fn custom_name(i: usize) -> String {
    format!("c22-job-{i}")
}

/// does a reported job name belong to job i? custom: the exact name given; others: the library's
/// display name must mention the job's unique file name
fn name_matches(c: &Case, i: usize, name: &str) -> bool {
    match c.jobs[i] {
        Job::Custom { .. } => name == custom_name(i),
        Job::Copy { .. } => name.contains(&in_name(i)),
        Job::Merge { .. } => name.contains(&out_name(i)),
    }
}

#[derive(Clone, Copy, Debug, PartialEq, Eq)]
enum RK {
    Success,
    Failed,
    Cancelled,
}

#[derive(Debug)]
struct RunOut {
    results: Vec<(String, RK, String)>, // name, kind, error text
    summary: Option<(usize, usize, usize)>, // total_jobs, successful, failed
    final_info: Option<[usize; 4]>,         // total, completed, failed, running
    cb_calls: u64,
    exec_err: Option<String>,
}

enum Attempt {
    Done { run: RunOut, events: Vec<Ev>, out_exists: Vec<bool>, gates_opened: bool },
    Timeout,
    Panicked(String),
    HarnessIo(String),
}

fn info4(i: &ProgressInfo) -> [usize; 4] {
    [i.total_jobs, i.completed_jobs, i.failed_jobs, i.running_jobs]
}

fn conv(results: Vec<JobResult>) -> Vec<(String, RK, String)> {
    results
        .into_iter()
        .map(|r| match r {
            JobResult::Success { job_name, .. } => (job_name, RK::Success, String::new()),
            JobResult::Failed { job_name, error, .. } => (job_name, RK::Failed, error),
            JobResult::Cancelled { job_name } => (job_name, RK::Cancelled, String::new()),
        })
        .collect()
}

fn build_jobs(c: &Case, dir: &Path, sh: &Arc<Shared>, progress: Option<Arc<BatchProgress>>, flag: Option<Arc<AtomicBool>>) -> Vec<BatchJob> {
    let canceller = c.cancelling_job();
    let mut v = Vec::new();
    for (i, j) in c.jobs.iter().enumerate() {
        match j {
            Job::Custom { out, yields, spins } => {
                let (out, yields, spins) = (*out, *yields, *spins);
                let sh = sh.clone();
                let progress = progress.clone();
                let flag = if canceller == Some(i) { flag.clone() } else { None };
                v.push(BatchJob::Custom {
                    name: custom_name(i),
                    operation: Box::new(move || {
                        let start = sh.seq.fetch_add(1, SeqCst);
                        let failed_at_start = match &progress {
                            Some(p) => p.get_info().failed_jobs,
                            None => sh.cb_failed.load(SeqCst),
                        };
                        for _ in 0..yields {
                            std::thread::yield_now();
                        }
                        for _ in 0..spins {
                            std::hint::spin_loop();
                        }
                        if let Some(f) = &flag {
                            f.store(true, SeqCst); // == BatchProcessor::cancel()
                        }
                        if out == Out::Err {
                            sh.open_gates();
                        }
                        let end = sh.seq.fetch_add(1, SeqCst);
                        sh.push(Ev { job: i, start, end, tid: std::thread::current().id(), failed_at_start });
                        match out {
                            Out::Ok => Ok(()),
                            Out::Err => Err(PdfError::InvalidStructure("c22 generated job error".into())),
                            // a real unwinding panic on the library's worker thread, without the
                            // process-wide panic hook (no message, not mistaken for a harness panic)
                            Out::Panic => std::panic::resume_unwind(Box::new("c22 generated job panic")),
                        }
                    }),
                });
            }
            Job::Copy { compress, .. } => {
                let (input, output) = (dir.join(in_name(i)), dir.join(out_name(i)));
                v.push(if *compress {
                    BatchJob::Compress { input, output, quality: 50 }
                } else {
                    BatchJob::Rotate { input, output, rotation: 90, pages: None }
                });
            }
            Job::Merge { .. } => v.push(BatchJob::Merge { inputs: vec![dir.join(in_name(i))], output: dir.join(out_name(i)) }),
        }
    }
    v
}

/// One execution of the case under a watchdog.
fn attempt(c: &Case, timeout_ms: u64) -> Attempt {
    // per-case directory, removed when `td` is dropped; tmpfs when available (the jobs only copy ~1 KB files)
    let b = tempfile::Builder::new().prefix("vp-c22-").to_owned();
    let td = match b.tempdir_in("/dev/shm").or_else(|_| b.tempdir()) {
        Ok(t) => t,
        Err(e) => return Attempt::HarnessIo(format!("tempdir: {e}")),
    };
    let dir = td.path().to_path_buf();
    let base = dir.join("base.pdf");
    if let Err(e) = std::fs::write(&base, base_pdf()) {
        return Attempt::HarnessIo(format!("write base: {e}"));
    }
    let mut gate_links = Vec::new();
    for (i, j) in c.jobs.iter().enumerate() {
        let present = match j {
            Job::Copy { input: Input::Present, .. } => true,
            Job::Copy { input: Input::Gated, .. } => {
                gate_links.push(dir.join(in_name(i)));
                false
            }
            Job::Merge { missing: false } => true,
            _ => false,
        };
        if present {
            if let Err(e) = std::fs::hard_link(&base, dir.join(in_name(i))).or_else(|_| std::fs::copy(&base, dir.join(in_name(i))).map(|_| ())) {
                return Attempt::HarnessIo(format!("link input: {e}"));
            }
        }
    }
    let has_gates = !gate_links.is_empty();
    let sh = Arc::new(Shared {
        seq: AtomicU64::new(0),
        events: Mutex::new(Vec::new()),
        gates_open: AtomicBool::new(false),
        gate_links,
        base,
        cb_failed: AtomicUsize::new(0),
        cb_calls: AtomicU64::new(0),
        last_info: Mutex::new(None),
        abort: AtomicBool::new(false),
    });
    let (tx, rx) = mpsc::channel();
    let runner = {
        let (c, sh, dir) = (c.clone(), sh.clone(), dir.clone());
        std::thread::Builder::new().name("c22-runner".into()).spawn(move || {
            let r = std::panic::catch_unwind(std::panic::AssertUnwindSafe(|| execute_case(&c, &dir, &sh, has_gates)));
            let _ = tx.send(r.map_err(|p| {
                if let Some(s) = p.downcast_ref::<&str>() {
                    s.to_string()
                } else if let Some(s) = p.downcast_ref::<String>() {
                    s.clone()
                } else {
                    "<non-string panic>".into()
                }
            }));
        })
    };
    let runner = match runner {
        Ok(h) => h,
        Err(e) => return Attempt::HarnessIo(format!("spawn: {e}")),
    };
    match rx.recv_timeout(Duration::from_millis(timeout_ms)) {
        Ok(Ok(run)) => {
            let _ = runner.join();
            let events = sh.events.lock().unwrap_or_else(|p| p.into_inner()).clone();
            let out_exists = (0..c.jobs.len()).map(|i| dir.join(out_name(i)).exists()).collect();
            Attempt::Done { run, events, out_exists, gates_opened: sh.gates_open.load(SeqCst) }
        }
        Ok(Err(msg)) => {
            let _ = runner.join();
            Attempt::Panicked(msg)
        }
        Err(_) => {
            // escape hatch so that the stuck threads end: the progress callback unwinds
            sh.abort.store(true, SeqCst);
            let _ = rx.recv_timeout(Duration::from_millis(2000));
            Attempt::Timeout
        }
    }
}

fn execute_case(c: &Case, dir: &Path, sh: &Arc<Shared>, has_gates: bool) -> RunOut {
    let par = c.parallelism.clamp(1, 4) as usize;
    match c.mode {
        Mode::Pool => {
            let progress = Arc::new(BatchProgress::new());
            let flag = Arc::new(AtomicBool::new(false));
            let jobs = build_jobs(c, dir, sh, Some(progress.clone()), Some(flag.clone()));
            for _ in 0..jobs.len() {
                progress.add_job();
            }
            if c.cancel == Cancel::Before {
                flag.store(true, SeqCst);
            }
            let done = Arc::new(AtomicBool::new(false));
            let observer = if has_gates {
                let (p, sh, done) = (progress.clone(), sh.clone(), done.clone());
                Some(std::thread::spawn(move || {
                    while !done.load(SeqCst) {
                        if p.get_info().failed_jobs >= 1 {
                            sh.open_gates();
                            break;
                        }
                        std::thread::yield_now();
                    }
                }))
            } else {
                None
            };
            let pool = WorkerPool::new(WorkerOptions {
                num_workers: par,
                memory_limit: 64 << 20,
                job_timeout: if c.job_timeout { Some(Duration::from_secs(120)) } else { None },
            });
            let results = pool.process_jobs(jobs, progress.clone(), flag, c.stop_on_error);
            done.store(true, SeqCst);
            if let Some(o) = observer {
                let _ = o.join();
            }
            RunOut { results: conv(results), summary: None, final_info: Some(info4(&progress.get_info())), cb_calls: 0, exec_err: None }
        }
        Mode::Processor { callback } => {
            let mut opts = BatchOptions::default().with_parallelism(par).stop_on_error(c.stop_on_error);
            opts.job_timeout = if c.job_timeout { Some(Duration::from_secs(120)) } else { None };
            opts.progress_interval = Duration::from_micros(100);
            if callback {
                let sh = sh.clone();
                opts = opts.with_progress_callback(move |info: &ProgressInfo| {
                    if sh.abort.load(SeqCst) {
                        std::panic::resume_unwind(Box::new("c22 watchdog abort"));
                    }
                    sh.cb_calls.fetch_add(1, SeqCst);
                    sh.cb_failed.fetch_max(info.failed_jobs, SeqCst);
                    *sh.last_info.lock().unwrap_or_else(|p| p.into_inner()) = Some(info4(info));
                    if info.failed_jobs >= 1 {
                        sh.open_gates();
                    }
                });
            }
            let mut p = BatchProcessor::new(opts);
            for j in build_jobs(c, dir, sh, None, None) {
                p.add_job(j);
            }
            if c.cancel == Cancel::Before {
                p.cancel();
            }
            match p.execute() {
                Ok(s) => RunOut {
                    summary: Some((s.total_jobs, s.successful, s.failed)),
                    results: conv(s.results),
                    final_info: if callback { *sh.last_info.lock().unwrap_or_else(|p| p.into_inner()) } else { None },
                    cb_calls: sh.cb_calls.load(SeqCst),
                    exec_err: None,
                },
                Err(e) => RunOut { results: vec![], summary: None, final_info: None, cb_calls: 0, exec_err: Some(e.to_string()) },
            }
        }
    }
}

// ----------------------------------------------------------------------------------------- oracle

static HANGS_CONFIRMED: AtomicUsize = AtomicUsize::new(0);

#[derive(Clone, Copy, Debug, Default)]
pub struct Known {
    pub panic: bool,
    pub hang: bool,
    pub stop_custom: bool,
    pub stop_noncustom: bool,
}

pub const SIG_MISSING: &str = "C22/one-result-per-job|panic";
pub const SIG_HANG: &str = "C22/returns|panic,progress-callback";
pub const SIG_STOP_CUSTOM: &str = "C22/stop-on-error|failer=custom,victim=custom";
pub const SIG_STOP_CUSTOM_NC: &str = "C22/stop-on-error|failer=custom,victim=non-custom";
pub const SIG_STOP_NONCUSTOM: &str = "C22/stop-on-error|failer=non-custom,victim=non-custom";

fn known(ctx: &Ctx) -> Known {
    Known {
        panic: ctx.known_sig(SIG_MISSING),
        hang: ctx.known_sig(SIG_HANG),
        stop_custom: ctx.known_sig(SIG_STOP_CUSTOM) || ctx.known_sig(SIG_STOP_CUSTOM_NC),
        stop_noncustom: ctx.known_sig(SIG_STOP_NONCUSTOM),
    }
}

fn describe(c: &Case, o: &mut Outcome) {
    let n = c.jobs.len();
    o.label(format!("jobs={n}"));
    o.label(format!("parallelism={}", c.parallelism));
    o.label(match c.mode {
        Mode::Pool => "driver=WorkerPool::process_jobs",
        Mode::Processor { callback: true } => "driver=BatchProcessor+callback",
        Mode::Processor { callback: false } => "driver=BatchProcessor",
    });
    o.label(match c.effective_cancel() {
        Cancel::Never => "cancel=never",
        Cancel::Before => "cancel=before-execute",
        Cancel::InJob(_) => "cancel=inside-job",
    });
    o.label_if(c.stop_on_error, "stop_on_error");
    o.label_if(c.job_timeout, "job_timeout=Some");
    let any = |f: &dyn Fn(&Job) -> bool| c.jobs.iter().any(|j| f(j));
    o.label_if(c.has_panic(), "has:panic");
    o.label_if(any(&|j| matches!(j, Job::Custom { out: Out::Err, .. })), "has:custom-error");
    o.label_if(any(&|j| matches!(j, Job::Custom { out: Out::Ok, yields, spins } if *yields > 0 || *spins > 0)), "has:ok-after-yield/spin");
    o.label_if(any(&|j| matches!(j, Job::Copy { input: Input::Present, .. })), "has:copy-ok");
    o.label_if(any(&|j| matches!(j, Job::Copy { input: Input::Missing, .. })), "has:copy-missing-input");
    o.label_if(any(&|j| matches!(j, Job::Copy { input: Input::Gated, .. })), "has:copy-gated");
    o.label_if(any(&|j| matches!(j, Job::Merge { .. })), "has:merge");
    o.label_if(c.stop_on_error && any(&|j| matches!(j, Job::Custom { .. })) && c.effective_cancel() == Cancel::Never, "class:stop_on_error+custom");
    o.label_if(c.has_panic(), "class:panic");
    o.label_if(matches!(c.effective_cancel(), Cancel::InJob(_)), "class:cancel-mid-run");
    let non_ok = any(&|j| !matches!(j, Job::Custom { out: Out::Ok, .. } | Job::Copy { input: Input::Present, .. } | Job::Merge { missing: false }));
    o.nontrivial(n >= 3 && (non_ok || c.effective_cancel() != Cancel::Never));
}

pub fn check_with(c: &Case, k: Known) -> Outcome {
    let mut o = Outcome::new();
    if c.jobs.is_empty() || c.jobs.len() > 8 {
        o.label("out-of-domain");
        return o;
    }
    describe(c, &mut o);
    let in_known_hang = k.hang && c.hang_region();
    let t = if in_known_hang {
        2_000
    } else if HANGS_CONFIRMED.load(SeqCst) > 0 {
        3_000
    } else {
        30_000
    };
    match attempt(c, t) {
        Attempt::Done { run, events, out_exists, gates_opened } => judge(c, &run, &events, &out_exists, gates_opened, &mut o),
        Attempt::HarnessIo(e) => {
            o.nontrivial = false;
            o.label("harness-io-error");
            eprintln!("[C22] harness i/o problem: {e}");
        }
        Attempt::Panicked(msg) => {
            o.fail("C22/no-panic", "calling-thread", format!("the thread calling execute/process_jobs panicked: {msg}"));
        }
        Attempt::Timeout => {
            // reproduce twice (concurrently) before calling it a deadlock
            let (a, b) = std::thread::scope(|s| {
                let h1 = s.spawn(|| matches!(attempt(c, t), Attempt::Timeout));
                let h2 = s.spawn(|| matches!(attempt(c, t), Attempt::Timeout));
                (h1.join().unwrap_or(false), h2.join().unwrap_or(false))
            });
            if a && b {
                if !in_known_hang {
                    // an unlisted hang is a violation anyway; keep its shrinking affordable
                    HANGS_CONFIRMED.fetch_add(1, SeqCst);
                }
                let class = if c.hang_region() { "panic,progress-callback" } else { "other" };
                o.fail("C22/returns", class, format!("the call did not return within {t} ms in 3 of 3 executions"));
                for cl in ["C22/one-result-per-job", "C22/result-i-is-job-i", "C22/result-consistent-with-outcome", "C22/counts-match-results", "C22/progress-final", "C22/stop-on-error", "C22/cancel-before-execute"] {
                    o.excluded(cl);
                }
            } else {
                o.nontrivial = false;
                o.label("inconclusive-timeout");
                eprintln!("[C22] inconclusive-timeout ({t} ms; reproductions timed out: {a}, {b}) on {}", serde_json::to_string(c).unwrap_or_default());
            }
        }
    }
    o
}

fn judge(c: &Case, run: &RunOut, events: &[Ev], out_exists: &[bool], gates_opened: bool, o: &mut Outcome) {
    let n = c.jobs.len();
    let pc = if c.has_panic() { "panic" } else { "no-panic" };
    if let Some(e) = &run.exec_err {
        o.fail("C22/returns-summary", pc, format!("execute() returned Err({e})"));
        return;
    }
    let res = &run.results;
    let cancel = c.effective_cancel();

    // thread ids → small numbers for messages
    let mut tids: Vec<ThreadId> = Vec::new();
    for e in events {
        if !tids.contains(&e.tid) {
            tids.push(e.tid);
        }
    }
    let tno = |t: ThreadId| tids.iter().position(|x| *x == t).unwrap_or(99);
    let hist = || {
        let mut ev: Vec<&Ev> = events.iter().collect();
        ev.sort_by_key(|e| e.start);
        ev.iter().map(|e| format!("job{}@T{}[{}..{}]f{}", e.job, tno(e.tid), e.start, e.end, e.failed_at_start)).collect::<Vec<_>>().join(" ")
    };
    let shown = || res.iter().map(|(nm, k, _)| format!("{nm}:{k:?}")).collect::<Vec<_>>().join(", ");

    o.label_if(tids.len() >= 2, "observed:≥2-worker-threads");
    o.label_if(events.iter().any(|a| events.iter().any(|b| a.job != b.job && a.start < b.end && b.start < a.end)), "observed:overlapping-operations");
    o.label_if(gates_opened, "observed:gate-opened");

    // ---- exactly one result per job (by name; names are unique by construction)
    let mut count = vec![0usize; n];
    let mut owner_of: Vec<Option<usize>> = Vec::new();
    let mut stray = Vec::new();
    for (nm, _, _) in res {
        let owners: Vec<usize> = (0..n).filter(|&i| name_matches(c, i, nm)).collect();
        if owners.len() == 1 {
            count[owners[0]] += 1;
            owner_of.push(Some(owners[0]));
        } else {
            stray.push(nm.clone());
            owner_of.push(None);
        }
    }
    if res.len() != n || count.iter().any(|&x| x != 1) || !stray.is_empty() {
        let missing: Vec<usize> = (0..n).filter(|&i| count[i] == 0).collect();
        let dup: Vec<usize> = (0..n).filter(|&i| count[i] > 1).collect();
        o.fail(
            "C22/one-result-per-job",
            pc,
            format!("{n} jobs submitted, {} results; jobs without result {missing:?}, with several {dup:?}, unattributable {stray:?}; results [{}]; history {}", res.len(), shown(), hist()),
        );
    }
    // ---- result i belongs to job i
    for p in 0..res.len().min(n) {
        if !name_matches(c, p, &res[p].0) {
            o.fail("C22/result-i-is-job-i", pc, format!("results[{p}] is {:?} (job {:?}), expected the result of job {p}; results [{}]", res[p].0, owner_of[p], shown()));
            break;
        }
    }
    let result_of = |i: usize| -> Option<&(String, RK, String)> {
        if count[i] == 1 {
            res.iter().zip(&owner_of).find(|(_, ow)| **ow == Some(i)).map(|(r, _)| r)
        } else {
            None
        }
    };
    let ran = |i: usize| match c.jobs[i] {
        Job::Custom { .. } => events.iter().any(|e| e.job == i),
        _ => out_exists[i],
    };

    // ---- each result is consistent with what the job did
    let mut n_cancelled_results = 0;
    let mut n_skipped = 0;
    for i in 0..n {
        let Some((nm, kind, err)) = result_of(i) else { continue };
        let kind = *kind;
        if kind == RK::Cancelled {
            n_cancelled_results += 1;
        }
        let mut bad: Option<String> = None;
        if kind == RK::Cancelled && ran(i) {
            bad = Some("reported Cancelled but its operation ran".into());
        }
        match &c.jobs[i] {
            Job::Custom { out, .. } => {
                let r = ran(i);
                if !r && kind == RK::Failed {
                    n_skipped += 1;
                }
                match (out, r, kind) {
                    (Out::Ok, true, RK::Success) => {}
                    (Out::Ok, true, k) => bad = Some(format!("operation ran and returned Ok but the result is {k:?} ({err})")),
                    (Out::Err, true, RK::Failed) => {}
                    (Out::Err, true, k) => bad = Some(format!("operation ran and returned Err but the result is {k:?}")),
                    (Out::Panic, true, RK::Success) => bad = Some("operation panicked but the result is Success".into()),
                    (_, false, RK::Success) => bad = Some("operation never ran but the result is Success".into()),
                    _ => {}
                }
            }
            Job::Copy { input, .. } => {
                let exists = out_exists[i];
                if exists != (kind == RK::Success) {
                    bad = Some(format!("output file exists = {exists} but the result is {kind:?} ({err})"));
                }
                if *input == Input::Missing && kind == RK::Success {
                    bad = Some("input file does not exist but the result is Success".into());
                }
            }
            Job::Merge { missing } => {
                if *missing && kind == RK::Success {
                    bad = Some("input file does not exist but the result is Success".into());
                }
                o.label_if(!*missing && kind == RK::Success && out_exists[i], "observed:merge-succeeded");
                o.label_if(!*missing && kind == RK::Failed, "observed:merge-failed");
            }
        }
        if let Some(b) = bad {
            let kindname = match c.jobs[i] {
                Job::Custom { .. } => "custom",
                Job::Copy { .. } => "copy",
                Job::Merge { .. } => "merge",
            };
            o.fail("C22/result-consistent-with-outcome", kindname, format!("job {i} ({nm}): {b}; history {}", hist()));
        }
    }
    o.label_if(n_cancelled_results > 0 && matches!(cancel, Cancel::InJob(_)), "observed:cancelled-at-dispatch-mid-run");
    o.label_if(n_skipped > 0, "observed:custom-skipped-by-flag");

    // ---- summary counters equal the counts of result kinds
    let n_succ = res.iter().filter(|r| r.1 == RK::Success).count();
    let n_fail = res.iter().filter(|r| r.1 == RK::Failed).count();
    if let Some((total, succ, failed)) = run.summary {
        if total != n || succ != n_succ || failed != n_fail {
            o.fail(
                "C22/counts-match-results",
                "summary",
                format!("summary total_jobs={total} successful={succ} failed={failed}; submitted {n}, results hold {n_succ} Success / {n_fail} Failed"),
            );
        }
    }
    // ---- final progress
    if let Some([total, completed, failed, running]) = run.final_info {
        if total != n || completed != n_succ || failed != n_fail || running != 0 {
            o.fail(
                "C22/progress-final",
                pc,
                format!("final ProgressInfo total={total} completed={completed} failed={failed} running={running}; submitted {n}, results hold {n_succ} Success / {n_fail} Failed / {n_cancelled_results} Cancelled; history {}", hist()),
            );
        }
    } else if matches!(c.mode, Mode::Processor { callback: true }) {
        o.fail("C22/progress-final", "no-final-callback", "execute() returned without ever calling the progress callback");
    }

    // ---- cancel before execute: every job is dispatched after cancel() returned
    if cancel == Cancel::Before {
        let not_c: Vec<String> = res.iter().filter(|r| r.1 != RK::Cancelled).map(|r| format!("{}:{:?}", r.0, r.1)).collect();
        if !not_c.is_empty() {
            o.fail("C22/cancel-before-execute", "not-reported-cancelled", format!("cancel() returned before execute, yet {not_c:?}"));
        }
        let ran_jobs: Vec<usize> = (0..n).filter(|&i| ran(i)).collect();
        if !ran_jobs.is_empty() {
            o.fail("C22/cancel-before-execute", "operation-ran", format!("cancel() returned before execute, yet jobs {ran_jobs:?} ran; history {}", hist()));
        }
    }

    // ---- stop_on_error (only without cancellation, so that every recorded failure is a job failure)
    if c.stop_on_error && cancel == Cancel::Never {
        let recorded_failure = |j: usize| match c.jobs[j] {
            Job::Custom { out: Out::Err, .. } => true,
            Job::Custom { out: Out::Panic, .. } => matches!(result_of(j), Some((_, RK::Failed, _))),
            _ => false,
        };
        // class = who failed (as far as the history proves it) × who ran afterwards
        let custom_failure_before = |start: u64| events.iter().any(|e| recorded_failure(e.job) && e.end < start);
        let mut evaluable = false;
        let mut hit: Option<(&str, String)> = None;
        for kev in events {
            for e in events {
                if e.tid == kev.tid && e.end < kev.start {
                    evaluable = true;
                    if recorded_failure(e.job) && hit.is_none() {
                        hit = Some((
                            "failer=custom,victim=custom",
                            format!(
                                "job {} failed on worker T{} (operation ended at {}), its wrapper returned, and the same worker then ran the operation of job {} (started at {})",
                                e.job,
                                tno(e.tid),
                                e.end,
                                kev.job,
                                kev.start
                            ),
                        ));
                    }
                }
            }
            if c.parallelism == 1 && kev.failed_at_start >= 1 && hit.is_none() {
                let class = if custom_failure_before(kev.start) { "failer=custom,victim=custom" } else { "failer=non-custom,victim=custom" };
                hit = Some((class, format!("parallelism 1: job {} started its operation although failed_jobs was already {}", kev.job, kev.failed_at_start)));
            }
        }
        o.label_if(evaluable, "stop_on_error:same-thread-successor-observed");
        if let Some((class, h)) = hit {
            o.fail("C22/stop-on-error", class, format!("{h}; history {}", hist()));
        }
        if c.parallelism == 1 {
            let victims: Vec<usize> = (0..n).filter(|&i| matches!(c.jobs[i], Job::Copy { input: Input::Gated, .. }) && out_exists[i]).collect();
            o.label_if(c.jobs.iter().any(|j| matches!(j, Job::Copy { input: Input::Gated, .. })), "stop_on_error:gated-victim-evaluable");
            if !victims.is_empty() {
                let class = if events.iter().any(|e| recorded_failure(e.job)) { "failer=custom,victim=non-custom" } else { "failer=non-custom,victim=non-custom" };
                o.fail(
                    "C22/stop-on-error",
                    class,
                    format!("parallelism 1: the input of jobs {victims:?} was created only after a failure had been recorded, yet their output files exist (they ran afterwards); results [{}]; history {}", shown(), hist()),
                );
            }
        }
    }
}

// -------------------------------------------------------------------------------------- generator

fn job_strategy() -> impl Strategy<Value = Job> {
    prop_oneof![
        3 => Just(Job::Custom { out: Out::Ok, yields: 0, spins: 0 }),
        3 => (0u8..4, 0u16..2000).prop_map(|(yields, spins)| Job::Custom { out: Out::Ok, yields, spins }),
        3 => (0u8..3, 0u16..600).prop_map(|(yields, spins)| Job::Custom { out: Out::Err, yields, spins }),
        2 => (0u8..2, 0u16..300).prop_map(|(yields, spins)| Job::Custom { out: Out::Panic, yields, spins }),
        4 => (any::<bool>(), prop_oneof![3 => Just(Input::Present), 2 => Just(Input::Missing), 2 => Just(Input::Gated)]).prop_map(|(compress, input)| Job::Copy { compress, input }),
        1 => prop_oneof![3 => Just(false), 1 => Just(true)].prop_map(|missing| Job::Merge { missing }),
    ]
}

fn strategy(k: Known) -> impl Strategy<Value = Case> {
    let mode_cancel = prop_oneof![
        3 => (any::<bool>(), prop_oneof![4 => Just(Cancel::Never), 1 => Just(Cancel::Before)]).prop_map(|(callback, cancel)| (Mode::Processor { callback }, cancel)),
        4 => prop_oneof![3 => Just(Cancel::Never), 1 => Just(Cancel::Before), 3 => any::<u16>().prop_map(Cancel::InJob)].prop_map(|cancel| (Mode::Pool, cancel)),
    ];
    (prop::collection::vec(job_strategy(), 1..=8), 1u8..=4, any::<bool>(), any::<bool>(), mode_cancel, (0u8..100, 0u8..100, 0u8..100))
        .prop_map(move |(jobs, parallelism, stop_on_error, job_timeout, (mode, cancel), tickets)| {
            let mut c = Case { jobs, parallelism, stop_on_error, job_timeout, mode, cancel };
            steer(&mut c, k, tickets);
            c
        })
}

/// Keeps ≈ 10 % of the cases inside each region already listed as a known finding, the rest outside.
fn steer(c: &mut Case, k: Known, (t1, t2, t3): (u8, u8, u8)) {
    if k.panic && t1 >= 22 {
        for (i, j) in c.jobs.iter_mut().enumerate() {
            if let Job::Custom { out: out @ Out::Panic, .. } = j {
                *out = if i % 2 == 0 { Out::Err } else { Out::Ok };
            }
        }
    }
    if k.hang && c.hang_region() && t3 >= 15 {
        c.mode = Mode::Processor { callback: false };
    }
    if (k.stop_custom || k.stop_noncustom) && c.stop_on_error && c.effective_cancel() == Cancel::Never && t2 >= 30 {
        for j in c.jobs.iter_mut() {
            let repl = match j {
                Job::Custom { out: Out::Err, spins, .. } if k.stop_custom => Some(Job::Copy { compress: *spins % 2 == 1, input: Input::Missing }),
                Job::Copy { input: Input::Gated, compress } if k.stop_noncustom => Some(Job::Copy { compress: *compress, input: Input::Present }),
                _ => None,
            };
            if let Some(r) = repl {
                *j = r;
            }
        }
    }
}

fn run(ctx: &Ctx) {
    let k = known(ctx);
    ctx.run_sub("threads", ctx.tier.pick(4_000, 60_000), || strategy(k), |c: &Case| check_with(c, k));
    if ctx.label_count("inconclusive-timeout") > 0 {
        ctx.note(format!("inconclusive-timeout: {} executions did not return within the watchdog but did not reproduce twice; not counted as violations", ctx.label_count("inconclusive-timeout")));
    }
    shuttle_part(ctx);
    if ctx.label_count("harness-io-error") > 0 {
        ctx.note(format!("{} cases skipped because the temp directory could not be prepared", ctx.label_count("harness-io-error")));
    }
}

/// PART 2 — generated schedules. `harness-shuttle` rebuilds the library's batch sources from the working tree with
/// std::{thread,sync} replaced by shuttle:: (no change in the library) and runs random, PCT and bounded depth-first
/// schedules of small job lists against the same invariants. The binary is built by `/verif/check` for C22.
fn shuttle_bin(ctx: &Ctx) -> PathBuf {
    ctx.verif_dir.join(".build-shuttle").join("debug").join("vp-shuttle")
}

fn run_shuttle(ctx: &Ctx, tier: &str, seed: u64) -> Result<Value, String> {
    let bin = shuttle_bin(ctx);
    if !bin.exists() {
        return Err(format!("{} not built", bin.display()));
    }
    let out = std::process::Command::new(&bin)
        .arg(tier)
        .env("VP_SHUTTLE_JSON", "1")
        .env("VERIF_SEED", seed.to_string())
        .env("VERIF_DIR", &ctx.verif_dir)
        .output()
        .map_err(|e| format!("cannot run {}: {e}", bin.display()))?;
    let text = String::from_utf8_lossy(&out.stdout);
    let line = text.lines().rev().find_map(|l| l.strip_prefix("JSON ")).ok_or_else(|| format!("no result line from vp-shuttle (status {:?})", out.status))?;
    serde_json::from_str(line).map_err(|e| format!("bad result line from vp-shuttle: {e}"))
}

fn shuttle_outcomes(res: &Value) -> Vec<Outcome> {
    res["found"]
        .as_array()
        .map(|a| {
            a.iter()
                .map(|f| {
                    let sig = f["sig"].as_str().unwrap_or("C22/shuttle|unknown");
                    let (clause, class) = sig.split_once('|').unwrap_or((sig, ""));
                    let mut o = Outcome::new();
                    o.nontrivial(true);
                    o.fail(clause, class, format!("{} schedules: {}", f["n"], f["detail"].as_str().unwrap_or("")));
                    o
                })
                .collect()
        })
        .unwrap_or_default()
}

fn shuttle_part(ctx: &Ctx) {
    let tier = ctx.tier.name();
    match run_shuttle(ctx, tier, ctx.seed) {
        Err(e) => {
            ctx.note(format!("schedule part (shuttle) could not run: {e}; only the real-thread part decided this run"));
            ctx.extra("shuttle", serde_json::json!({"ran": false, "why": e}));
        }
        Ok(res) => {
            let n = res["random_pct"].as_u64().unwrap_or(0) + res["dfs"].as_u64().unwrap_or(0);
            // distinct is counted conservatively as the number of generated job lists: random and PCT schedules of one
            // job list may repeat, and the harness does not deduplicate schedules
            let distinct = res["cases"].as_u64().unwrap_or(0) + res["dfs_cases"].as_u64().unwrap_or(0);
            ctx.bulk("shuttle-schedules", n, distinct, serde_json::json!({"cases": res["cases"], "random_pct_schedules": res["random_pct"], "dfs_schedules": res["dfs"], "dfs_cases": res["dfs_cases"], "dfs_explored_completely": res["dfs_complete"]}));
            ctx.extra("shuttle", serde_json::json!({"ran": true, "result": res}));
            for (i, o) in shuttle_outcomes(&res).into_iter().enumerate() {
                let case = serde_json::json!({"seed": ctx.seed, "tier": tier, "signature": o.fails[0].signature()});
                let unknown = ctx.record("shuttle-schedules", crate::engine::hash64(format!("shuttle{i}{}", o.fails[0].signature()).as_bytes()), &o, || case.clone());
                if let Some(f) = unknown.first() {
                    ctx.violation("shuttle-schedules", f, case, &o.fails);
                }
            }
        }
    }
}

fn replay(ctx: &Ctx, sub: &str, case: &Value) -> Result<Outcome, String> {
    let k = known(ctx);
    match sub.trim_start_matches("replay:") {
        "threads" => ctx.replay_case::<Case, _>(case, |c: &Case| check_with(c, k)),
        "shuttle-schedules" => {
            // a schedule finding is reproduced by re-running the campaign it came from (same seed and tier)
            let res = run_shuttle(ctx, case["tier"].as_str().unwrap_or("quick"), case["seed"].as_u64().unwrap_or(0))?;
            let want = case["signature"].as_str().unwrap_or("");
            let mut out = Outcome::new();
            out.nontrivial(true);
            for o in shuttle_outcomes(&res) {
                if want.is_empty() || o.fails[0].signature() == want {
                    out.fails.extend(o.fails);
                }
            }
            Ok(out)
        }
        s => Err(format!("unknown sub-check {s}")),
    }
}
