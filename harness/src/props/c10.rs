//! C10 — text given through the API reads back unchanged.
use crate::engine::{Ctx, Outcome, PropertyDef};
use crate::refpdf::{self, textstring, Obj};
use oxidize_pdf::annotations::{Annotation, AnnotationType};
use oxidize_pdf::forms::{FormManager, TextField, Widget};
use oxidize_pdf::parser::PdfReader;
use oxidize_pdf::structure::{OutlineItem, OutlineTree};
use oxidize_pdf::writer::{IncrementalFormFiller, WriterConfig};
use oxidize_pdf::{Document, Page, Point, Rectangle};
use proptest::prelude::*;
use serde::{Deserialize, Serialize};
use serde_json::Value;

pub fn def() -> PropertyDef {
    PropertyDef {
        id: "C10",
        level: "exploration",
        rule: "one Unicode string (classes: ASCII, ASCII with ( ) \\ CR LF TAB, Latin-1, WinAnsi-only € “ ”, PDFDoc-only ˘ ˇ, BMP, astral, leading þÿ, empty, > 256 chars) fed to one text-bearing entry point {title, author, subject, keywords, creator, outline title, annotation contents, text-field value at authoring, incremental form fill} under one of four writer configurations (classic, xref stream, uncompressed, object streams). Oracle: the library's reader returns exactly the string (metadata() / PdfString::to_text of the stored string), and the independent reader's text-string decoder (BOM → UTF-16BE, else PDFDocEncoding) decodes the stored bytes to exactly the string. Non-trivial: the value contains a non-ASCII scalar or a delimiter / end-of-line; distinct by hash of (entry point, value, configuration).",
        assumptions: &[
            "the empty string may read back as absent",
            "/Producer is stamped by the library (documented) and is not an entry point here",
            "the independent decoder = refpdf::textstring (Annex D.2 PDFDocEncoding table, UTF-16BE with BOM, UTF-8 BOM accepted)",
        ],
        trusted_base: &["refpdf strict reader", "refpdf::textstring codec"],
        run,
        replay,
    }
}

#[derive(Clone, Debug, Serialize, Deserialize)]
pub struct Case {
    pub entry: u8, // 0..=4 info, 5 outline, 6 annotation, 7 field value at authoring, 8 incremental fill
    pub value: String,
    pub cfg: u8, // 0 classic, 1 xref stream, 2 classic uncompressed, 3 xref stream + object streams
}

const ENTRIES: [&str; 9] = ["title", "author", "subject", "keywords", "creator", "outline-title", "annotation-contents", "field-value", "incremental-fill"];

fn cfg_of(c: u8) -> WriterConfig {
    match c % 4 {
        // object streams: the field and annotation dictionaries live inside an object stream (each read costs seconds, ~1 % of the cases)
        3 => WriterConfig { use_xref_streams: true, use_object_streams: true, pdf_version: "1.5".into(), compress_streams: true, incremental_update: false },
        0 => WriterConfig { use_xref_streams: false, use_object_streams: false, pdf_version: "1.4".into(), compress_streams: true, incremental_update: false },
        1 => WriterConfig { use_xref_streams: true, use_object_streams: false, pdf_version: "1.5".into(), compress_streams: true, incremental_update: false },
        _ => WriterConfig { use_xref_streams: false, use_object_streams: false, pdf_version: "1.7".into(), compress_streams: false, incremental_update: false },
    }
}

fn class_of(v: &str) -> &'static str {
    if v.is_empty() {
        "empty"
    } else if v.contains('\r') {
        "has-CR"
    } else if !v.is_ascii() {
        if v.chars().any(|c| c as u32 > 0xFFFF) {
            "astral"
        } else if v.chars().any(|c| c as u32 > 0xFF) {
            "bmp"
        } else {
            "latin1"
        }
    } else if v.bytes().any(|c| matches!(c, b'(' | b')' | b'\\' | b'\n' | b'\t')) {
        "ascii-delimiters"
    } else if v.bytes().any(|c| c < 0x20 || c == 0x7f) {
        "ascii-control"
    } else {
        "ascii"
    }
}

fn build(c: &Case) -> Result<Vec<u8>, String> {
    let mut doc = Document::new();
    let mut page = Page::a4();
    let v = c.value.clone();
    match c.entry {
        0 => doc.set_title(v),
        1 => doc.set_author(v),
        2 => doc.set_subject(v),
        3 => doc.set_keywords(v),
        4 => doc.set_creator(v),
        5 => {
            let mut t = OutlineTree::new();
            t.add_item(OutlineItem::new(v));
            doc.set_outline(t);
        }
        6 => {
            let rect = Rectangle::new(Point::new(100.0, 700.0), Point::new(120.0, 720.0));
            page.add_annotation(Annotation::new(AnnotationType::Text, rect).with_contents(v));
        }
        _ => {
            let mut fm = FormManager::new();
            let rect = Rectangle::new(Point::new(100.0, 700.0), Point::new(300.0, 720.0));
            let widget = Widget::new(rect);
            let field = if c.entry == 7 { TextField::new("f1").with_value(v) } else { TextField::new("f1") };
            let r = fm.add_text_field(field, widget.clone(), None).map_err(|e| format!("add_text_field: {e}"))?;
            page.add_form_widget_with_ref(widget, r).map_err(|e| format!("add_form_widget_with_ref: {e}"))?;
            doc.add_page(page);
            doc.set_form_manager(fm);
            let base = doc.to_bytes_with_config(cfg_of(c.cfg)).map_err(|e| format!("to_bytes: {e}"))?;
            if c.entry == 8 {
                return IncrementalFormFiller::new(&base).fill("f1", &c.value).map_err(|e| format!("refused: {e}"));
            }
            return Ok(base);
        }
    }
    doc.add_page(page);
    doc.to_bytes_with_config(cfg_of(c.cfg)).map_err(|e| format!("to_bytes: {e}"))
}

/// stored bytes of the text entry as the independent reader sees them
fn stored_ref(rd: &refpdf::Reader, entry: u8) -> Result<Option<Vec<u8>>, String> {
    let e = |x: refpdf::PErr| x.msg;
    let get_str = |o: Option<&Obj>| -> Result<Option<Vec<u8>>, String> {
        match o {
            None => Ok(None),
            Some(v) => match rd.resolve(v).map_err(e)? {
                Obj::Str(s) => Ok(Some(s)),
                Obj::Null => Ok(None),
                other => Err(format!("not a string: {other:?}")),
            },
        }
    };
    match entry {
        0..=4 => {
            let key: &[u8] = [&b"Title"[..], b"Author", b"Subject", b"Keywords", b"Creator"][entry as usize];
            let info = rd.info().map_err(e)?.ok_or("no /Info")?;
            get_str(info.get(key))
        }
        5 => {
            let cat = rd.catalog().map_err(e)?;
            let Obj::Dict(ol) = rd.resolve(cat.get(b"Outlines").ok_or("no /Outlines")?).map_err(e)? else { return Err("/Outlines not a dict".into()) };
            let Obj::Dict(first) = rd.resolve(ol.get(b"First").ok_or("no /First")?).map_err(e)? else { return Err("/First not a dict".into()) };
            get_str(first.get(b"Title"))
        }
        6 => {
            let pages = rd.pages().map_err(e)?;
            let p = pages.first().ok_or("no page")?;
            let Obj::Arr(an) = rd.resolve(p.dict.get(b"Annots").ok_or("no /Annots")?).map_err(e)? else { return Err("/Annots not an array".into()) };
            for a in an {
                if let Obj::Dict(d) = rd.resolve(&a).map_err(e)? {
                    if d.name(b"Subtype") == Some(b"Text") {
                        return get_str(d.get(b"Contents"));
                    }
                }
            }
            Err("no text annotation".into())
        }
        _ => {
            let cat = rd.catalog().map_err(e)?;
            let Obj::Dict(af) = rd.resolve(cat.get(b"AcroForm").ok_or("no /AcroForm")?).map_err(e)? else { return Err("/AcroForm not a dict".into()) };
            let Obj::Arr(fields) = rd.resolve(af.get(b"Fields").ok_or("no /Fields")?).map_err(e)? else { return Err("/Fields not an array".into()) };
            let Obj::Dict(f) = rd.resolve(fields.first().ok_or("empty /Fields")?).map_err(e)? else { return Err("field not a dict".into()) };
            get_str(f.get(b"V"))
        }
    }
}

fn stored_lib(bytes: &[u8], entry: u8) -> Result<Option<String>, String> {
    let mut rd = PdfReader::new(std::io::Cursor::new(bytes.to_vec())).map_err(|e| format!("open: {e}"))?;
    match entry {
        0..=4 => {
            let md = rd.metadata().map_err(|e| format!("metadata: {e}"))?;
            Ok([md.title, md.author, md.subject, md.keywords, md.creator][entry as usize].clone())
        }
        _ => {
            // navigate with the library's own object access and decode with PdfString::to_text
            use oxidize_pdf::parser::objects::PdfObject;
            let cat = rd.catalog().map_err(|e| format!("catalog: {e}"))?.clone();
            let res = |rd: &mut PdfReader<std::io::Cursor<Vec<u8>>>, o: &PdfObject| -> Result<PdfObject, String> { rd.resolve(o).map(|x| x.clone()).map_err(|e| e.to_string()) };
            let target: PdfObject = match entry {
                5 => {
                    let ol = res(&mut rd, cat.get("Outlines").ok_or("no /Outlines")?)?;
                    let first = res(&mut rd, ol.as_dict().ok_or("outlines")?.get("First").ok_or("no /First")?)?;
                    first.as_dict().ok_or("first")?.get("Title").cloned().ok_or("no /Title")?
                }
                6 => {
                    let pages = res(&mut rd, cat.get("Pages").ok_or("no /Pages")?)?;
                    let kids = res(&mut rd, pages.as_dict().ok_or("pages")?.get("Kids").ok_or("kids")?)?;
                    let p0 = res(&mut rd, kids.as_array().ok_or("kids array")?.get(0).ok_or("no kid")?)?;
                    let annots = res(&mut rd, p0.as_dict().ok_or("page")?.get("Annots").ok_or("no /Annots")?)?;
                    let mut found = None;
                    for a in annots.as_array().ok_or("annots")?.0.iter() {
                        let d = res(&mut rd, a)?;
                        if let Some(dd) = d.as_dict() {
                            if dd.get("Subtype").and_then(|s| s.as_name()).map(|n| n.0.as_str()) == Some("Text") {
                                found = dd.get("Contents").cloned();
                            }
                        }
                    }
                    found.ok_or("no text annotation contents")?
                }
                _ => {
                    let af = res(&mut rd, cat.get("AcroForm").ok_or("no /AcroForm")?)?;
                    let fields = res(&mut rd, af.as_dict().ok_or("acroform")?.get("Fields").ok_or("fields")?)?;
                    let f = res(&mut rd, fields.as_array().ok_or("fields array")?.get(0).ok_or("no field")?)?;
                    match f.as_dict().ok_or("field")?.get("V") {
                        Some(v) => v.clone(),
                        None => return Ok(None),
                    }
                }
            };
            match res(&mut rd, &target)? {
                PdfObject::String(s) => Ok(Some(s.to_text())),
                PdfObject::Null => Ok(None),
                other => Err(format!("not a string: {other:?}")),
            }
        }
    }
}

pub fn check(c: &Case) -> Outcome {
    let mut o = Outcome::new();
    let entry = ENTRIES[(c.entry as usize).min(8)];
    let vclass = class_of(&c.value);
    o.label(format!("entry={entry}"));
    o.label(format!("value={vclass}"));
    o.nontrivial(!matches!(vclass, "ascii" | "empty"));
    let class = format!("entry={entry},value={vclass}");
    let bytes = match build(c) {
        Ok(b) => b,
        Err(e) => {
            if e.starts_with("refused") {
                // a documented refusal (e.g. value not encodable for the appearance stream) is value-or-error
                o.label("fill-refused");
            } else {
                o.fail("C10/document-builds", class, e);
            }
            return o;
        }
    };
    crate::engine::isolate::dump("c10.pdf", &bytes);
    let same = |got: &Option<String>| match got {
        Some(s) => *s == c.value,
        None => c.value.is_empty(),
    };
    match stored_lib(&bytes, c.entry) {
        Err(e) => o.fail("C10/library-reads-back", class.clone(), e),
        Ok(got) => {
            if !same(&got) {
                o.fail("C10/library-reads-back", class.clone(), format!("gave {:?}, read {:?}", c.value, got));
            }
        }
    }
    match refpdf::Reader::open(&bytes, None).map_err(|e| format!("at {}: {}", e.at, e.msg)).and_then(|rd| stored_ref(&rd, c.entry)) {
        Err(e) => o.fail("C10/independent-reader-reads-back", class.clone(), e),
        Ok(stored) => {
            let got = stored.as_ref().map(|b| textstring::decode(b));
            if !same(&got) {
                o.fail("C10/independent-reader-reads-back", class, format!("gave {:?}, stored bytes {:?} decode to {:?}", c.value, stored.map(|b| Obj::Str(b)), got));
            }
        }
    }
    o
}

pub fn value() -> impl Strategy<Value = String> {
    prop_oneof![
        3 => "[ -~]{1,24}",
        2 => "[a-z()\\\\\n\t ]{1,16}",
        1 => "[a-z\r\n]{1,8}",
        2 => "[a-zA-Z éèüñçÀßØ]{1,16}",
        1 => "[a-z€“”‘’…–—™]{1,10}",
        1 => "[a-z˘ˇˆ˙˝˛˚˜]{1,8}",
        2 => "[a-z中文日本語한글Ωжя]{1,12}",
        1 => "[a-z\u{1F600}\u{1F4A9}\u{10348}]{1,6}",
        1 => "þÿ[a-z]{0,4}",
        1 => Just(String::new()),
        1 => "[a-z é]{257,300}",
        1 => prop::collection::vec(any::<char>().prop_filter("no NUL", |c| *c != '\0'), 1..12).prop_map(|v| v.into_iter().collect::<String>()),
    ]
}

fn strategy() -> impl Strategy<Value = Case> {
    (0u8..9, value(), prop_oneof![99 => 0u8..3, 1 => Just(3u8)]).prop_map(|(entry, value, cfg)| Case { entry, value, cfg })
}

fn run(ctx: &Ctx) {
    ctx.run_sub("entry-points", ctx.tier.pick(15_000, 150_000), strategy, check);
}

fn replay(ctx: &Ctx, sub: &str, case: &Value) -> Result<Outcome, String> {
    match sub.trim_start_matches("replay:") {
        "entry-points" => ctx.replay_case::<Case, _>(case, check),
        s => Err(format!("unknown sub-check {s}")),
    }
}
