//! C06 — encrypted files interoperate with an independent implementation.
//! Inbound: documents synthesized and encrypted by the reference security handler (R2–R6) must open
//! in the library with either password and yield the plaintext objects. Real qpdf / pypdf fixtures
//! of the repository calibrate the reference first and are then read by the library as well.
//! Outbound (library-encrypted files decrypted by the reference) is part of C05's oracle.
use crate::engine::{Ctx, Outcome, PropertyDef};
use crate::props::util::{canon_lib, canon_ref, strip_length};
use crate::refcrypto::{self, EncSpec};
use crate::refpdf::synth::{dict, stream, zlib, Builder};
use crate::refpdf::{self, Dict, Obj};
use oxidize_pdf::parser::objects::PdfObject;
use oxidize_pdf::parser::PdfReader;
use proptest::prelude::*;
use serde::{Deserialize, Serialize};
use serde_json::Value;

pub fn def() -> PropertyDef {
    PropertyDef {
        id: "C06",
        level: "exploration",
        rule: "sub `generated`: documents from the synthesizer (strings in plain objects, in object streams, in arrays and nested dictionaries; streams with and without Flate; an XMP /Metadata stream; a page with content; /Info) encrypted by the reference implementation with R2/V1, R3/V2 (40–128-bit), R4 (V2 or AESV2 crypt filter, EncryptMetadata true/false), R5 and R6 × object-stream mode × generated user/owner passwords (ASCII for R2–R4, UTF-8 incl. non-ASCII for R5/R6) × permission words; the library must unlock with the user and with the owner password, refuse a wrong one, and return for EVERY object the plaintext value of the model (canonical comparison, streams by decoded data). Sub `fixtures`: every qpdf- and pypdf-encrypted fixture of the repository with its known passwords: the reference must decrypt it to interop_base.pdf's content (calibration: a failure is exit 2, not a violation), then the library must give the same objects as the reference. Non-trivial: the file has ≥ 1 string inside an object stream or ≥ 1 filtered stream; distinct by hash of the case.",
        assumptions: &[
            "refcrypto was written from ISO 32000-1 §7.6 / ISO 32000-2 §7.6.4 and is calibrated on files produced by qpdf 11 and pypdf (fixtures in oxidize-pdf-core/tests/fixtures), so it stands in for 'an independent implementation'",
            "passwords for R2–R4 are ASCII (the PDFDocEncoding question is avoided); R5/R6 passwords are UTF-8 without characters that SASLprep would change",
        ],
        trusted_base: &["refpdf synthesizer + strict reader", "refcrypto (MD5, SHA-2, AES, RC4 from the standards; Algorithms 1–13, 2.A, 2.B)"],
        run,
        replay,
    }
}

#[derive(Clone, Debug, Serialize, Deserialize)]
pub struct Case {
    pub spec: EncSpec,
    pub strings: Vec<Vec<u8>>,
    pub in_objstm: Vec<bool>,
    pub streams: Vec<(bool, Vec<u8>)>,
    pub metadata: bool,
    pub compress_objstm: bool,
    pub wrong_pw: String,
}

struct Built {
    bytes: Vec<u8>,
    model: Vec<(u32, Obj, Option<Vec<u8>>)>, // number, plaintext object, decoded data for streams
    has_objstm_string: bool,
    has_filtered_stream: bool,
}

fn build(c: &Case) -> Built {
    let id0: Vec<u8> = crate::refcrypto::prim::md5(&c.spec.seed.to_le_bytes()).to_vec();
    let built = refcrypto::build(&c.spec, &id0);
    let use_objstm = c.in_objstm.iter().any(|b| *b);
    let mut b = Builder::new(if c.spec.r >= 5 { "2.0" } else if use_objstm || c.spec.r == 4 { "1.6" } else { "1.4" });
    let mut model: Vec<(u32, Obj, Option<Vec<u8>>)> = Vec::new();
    let n_str = c.strings.len() as u32;
    let n_stm = c.streams.len() as u32;
    let first_str = 6u32;
    let first_stm = first_str + n_str;
    let meta_obj = first_stm + n_stm;
    let mut next = meta_obj + if c.metadata { 1 } else { 0 };
    let encrypt_obj = next;
    next += 1;
    b.set_encryption(&built, c.spec.seed, encrypt_obj);
    let mut cat = dict(vec![("Type", Obj::name("Catalog")), ("Pages", Obj::Ref(2, 0))]);
    if c.metadata {
        cat.set(b"Metadata", Obj::Ref(meta_obj, 0));
    }
    let content = b"BT /F1 12 Tf 72 720 Td (INTEROP MARKER) Tj ET".to_vec();
    let plain: Vec<(u32, Obj)> = vec![
        (1, Obj::Dict(cat)),
        (2, Obj::Dict(dict(vec![("Type", Obj::name("Pages")), ("Kids", Obj::Arr(vec![Obj::Ref(3, 0)])), ("Count", Obj::Int(1))]))),
        (
            3,
            Obj::Dict(dict(vec![
                ("Type", Obj::name("Page")),
                ("Parent", Obj::Ref(2, 0)),
                ("MediaBox", Obj::Arr(vec![Obj::Int(0), Obj::Int(0), Obj::Int(612), Obj::Int(792)])),
                ("Contents", Obj::Ref(4, 0)),
                ("Resources", Obj::Dict(dict(vec![("Font", Obj::Dict(dict(vec![("F1", Obj::Dict(dict(vec![("Type", Obj::name("Font")), ("Subtype", Obj::name("Type1")), ("BaseFont", Obj::name("Helvetica"))])))])))]))),
            ])),
        ),
        (5, Obj::Dict(dict(vec![("Title", Obj::str(b"Interop (title)")), ("Author", Obj::str(b"refpdf \\ synth"))]))),
    ];
    for (n, o) in &plain {
        b.add_object(*n, 0, o);
        model.push((*n, o.clone(), None));
    }
    let cs = stream(Dict::new(), content.clone());
    b.add_object(4, 0, &cs);
    model.push((4, cs, Some(content)));
    let mut members = Vec::new();
    let mut has_objstm_string = false;
    for (i, s) in c.strings.iter().enumerate() {
        let num = first_str + i as u32;
        let o = Obj::Dict(dict(vec![("S", Obj::Str(s.clone())), ("A", Obj::Arr(vec![Obj::Str(s.iter().rev().cloned().collect()), Obj::Int(i as i64), Obj::Str(vec![])])), ("N", Obj::Dict(dict(vec![("X", Obj::Str([s.as_slice(), b"-nested"].concat()))])))]));
        if c.in_objstm.get(i).copied().unwrap_or(false) {
            members.push((num, o.clone()));
            has_objstm_string = true;
        } else {
            b.add_object(num, 0, &o);
        }
        model.push((num, o, None));
    }
    let mut has_filtered_stream = false;
    for (i, (flate, data)) in c.streams.iter().enumerate() {
        let num = first_stm + i as u32;
        let o = if *flate {
            has_filtered_stream = true;
            stream(dict(vec![("Filter", Obj::name("FlateDecode")), ("Marker", Obj::str(b"stream dict string"))]), zlib(data))
        } else {
            stream(dict(vec![("Marker", Obj::str(b"stream dict string"))]), data.clone())
        };
        b.add_object(num, 0, &o);
        model.push((num, o, Some(data.clone())));
    }
    if c.metadata {
        let xmp = b"<?xpacket begin='' id='W5M0MpCehiHzreSzNTczkc9d'?><x:xmpmeta xmlns:x='adobe:ns:meta/'><rdf:RDF xmlns:rdf='http://www.w3.org/1999/02/22-rdf-syntax-ns#'/></x:xmpmeta><?xpacket end='w'?>".to_vec();
        let o = stream(dict(vec![("Type", Obj::name("Metadata")), ("Subtype", Obj::name("XML"))]), xmp.clone());
        b.add_object(meta_obj, 0, &o);
        model.push((meta_obj, o, Some(xmp)));
    }
    if !members.is_empty() {
        let stm = next;
        next += 1;
        b.add_objstm(stm, &members, c.compress_objstm);
    }
    b.add_object(encrypt_obj, 0, &Obj::Dict(built.dict.clone()));
    let extra = dict(vec![("Root", Obj::Ref(1, 0)), ("Info", Obj::Ref(5, 0)), ("Encrypt", Obj::Ref(encrypt_obj, 0)), ("ID", Obj::Arr(vec![Obj::Str(id0.clone()), Obj::Str(id0.clone())]))]);
    if members.is_empty() {
        b.finish_classic(&extra);
    } else {
        b.finish_stream(next, &extra, c.compress_objstm);
    }
    Built { bytes: b.out, model, has_objstm_string, has_filtered_stream }
}

fn spec_class(s: &EncSpec) -> String {
    match s.r {
        2 => "R2,RC4-40".into(),
        3 => format!("R3,RC4-{}", if s.key_bits >= 128 { "128".to_string() } else { "<128".to_string() }),
        4 => format!("R4,{}{}", if s.aes { "AESV2" } else { "V2" }, if s.encrypt_metadata { "" } else { ",EncryptMetadata=false" }),
        5 => "R5,AESV3".into(),
        _ => "R6,AESV3".into(),
    }
}

fn lib_canon(o: &PdfObject) -> String {
    strip_length(&canon_lib(o))
}

pub fn check(c: &Case) -> Outcome {
    let mut o = Outcome::new();
    let b = build(c);
    crate::engine::isolate::dump("c06.pdf", &b.bytes);
    let cls = spec_class(&c.spec);
    o.label(cls.clone());
    o.label_if(b.has_objstm_string, "string-in-objstm");
    o.label_if(b.has_filtered_stream, "filtered-stream");
    o.label_if(c.metadata, "metadata-stream");
    o.nontrivial(b.has_objstm_string || b.has_filtered_stream);
    let objstm = if b.has_objstm_string { ",objstm" } else { "" };
    // R2–R4: an empty owner password means "no owner password" — Algorithm 3 then uses the user
    // password, so the owner password effectively IS the user password
    let eff_owner: Vec<u8> = if c.spec.r <= 4 && c.spec.owner_pw.is_empty() { c.spec.user_pw.clone() } else { c.spec.owner_pw.clone() };
    // self-check: the reference reads its own file with both passwords
    for pw in [&c.spec.user_pw, &eff_owner] {
        match refpdf::Reader::open(&b.bytes, Some(pw)) {
            Err(e) => {
                o.fail("HARNESS/reference-reads-own-file", cls.clone(), format!("at {}: {}", e.at, e.msg));
                return o;
            }
            Ok(rd) => {
                for (n, obj, decoded) in &b.model {
                    let got = rd.load(*n, 0);
                    let ok = match (&got, obj) {
                        (Ok(Obj::Stream(s)), Obj::Stream(_)) => rd.stream_data(s).ok().as_ref() == decoded.as_ref(),
                        (Ok(g), want) => g == want,
                        _ => false,
                    };
                    if !ok {
                        o.fail("HARNESS/reference-reads-own-file", cls.clone(), format!("object {n}: {got:?} vs model {obj:?}"));
                        return o;
                    }
                }
            }
        }
    }
    let (user, owner) = (String::from_utf8_lossy(&c.spec.user_pw).into_owned(), String::from_utf8_lossy(&eff_owner).into_owned());
    for (who, pw) in [("user", &user), ("owner", &owner)] {
        let mut rd = match PdfReader::new(std::io::Cursor::new(b.bytes.clone())) {
            Ok(r) => r,
            Err(e) => {
                o.fail("C06/opens", format!("{cls}{objstm}"), format!("{e}"));
                return o;
            }
        };
        if !rd.is_encrypted() {
            o.fail("C06/reports-encrypted", format!("{cls}{objstm}"), "is_encrypted() == false".to_string());
            return o;
        }
        match rd.unlock_with_password(pw) {
            Ok(true) => {}
            other => {
                o.fail("C06/correct-password-unlocks", format!("{who},{cls}"), format!("unlock_with_password({pw:?}) → {other:?}"));
                continue;
            }
        }
        for (n, obj, decoded) in &b.model {
            let want = strip_length(&canon_ref(obj, decoded.as_deref()));
            let got = match rd.get_object(*n, 0) {
                Ok(x) => lib_canon(x),
                Err(e) => format!("ERR {e}"),
            };
            if got != want {
                let what = match obj {
                    Obj::Stream(s) if s.dict.name(b"Type") == Some(b"Metadata") => "metadata-stream",
                    Obj::Stream(_) => "stream",
                    _ if c.in_objstm.get((*n as usize).wrapping_sub(6)).copied().unwrap_or(false) && *n >= 6 && (*n as usize) < 6 + c.strings.len() => "strings-in-objstm",
                    _ => "strings",
                };
                o.fail("C06/objects-equal-plaintext", format!("{what},{cls}"), format!("{who}: object {n}: library {} — plaintext {}", crate::engine::trunc(&got, 400), crate::engine::trunc(&want, 400)));
                break;
            }
        }
        // text and metadata through the high-level API
        if let Ok(md) = rd.metadata() {
            if md.title.as_deref() != Some("Interop (title)") {
                o.fail("C06/metadata-equal-plaintext", cls.clone(), format!("{who}: title {:?}", md.title));
            }
        }
    }
    // wrong password refused
    if c.wrong_pw.as_bytes() != c.spec.user_pw.as_slice() && c.wrong_pw.as_bytes() != eff_owner.as_slice() {
        if let Ok(mut rd) = PdfReader::new(std::io::Cursor::new(b.bytes.clone())) {
            if let Ok(true) = rd.unlock_with_password(&c.wrong_pw) {
                o.fail("C06/wrong-password-refused", cls.clone(), format!("{:?} unlocked (user {user:?}, owner {owner:?})", c.wrong_pw));
            }
        }
    }
    o
}

// ---------------------------------------------------------------- fixtures

const FIXTURE_DIR: &str = "/repo/oxidize-pdf-core/tests/fixtures";

fn fixture_list() -> Vec<(&'static str, &'static str, &'static str)> {
    // file, user password, owner password (from generate_encryption_interop.sh)
    vec![
        ("interop_qpdf_rc4-40_user.pdf", "userpw", "ownerpw"),
        ("interop_qpdf_rc4-128_user.pdf", "userpw", "ownerpw"),
        ("interop_qpdf_aes128_user.pdf", "userpw", "ownerpw"),
        ("interop_qpdf_aes256r5_user.pdf", "userpw", "ownerpw"),
        ("interop_qpdf_aes256r6_user.pdf", "userpw", "ownerpw"),
        ("interop_qpdf_rc4-40_empty.pdf", "", "ownerpw"),
        ("interop_qpdf_rc4-128_empty.pdf", "", "ownerpw"),
        ("interop_qpdf_aes128_empty.pdf", "", "ownerpw"),
        ("interop_qpdf_aes256r5_empty.pdf", "", "ownerpw"),
        ("interop_qpdf_aes256r6_empty.pdf", "", "ownerpw"),
        ("interop_qpdf_aes256r5_unicode.pdf", "contraseña_ñ", "dueño_café"),
        ("interop_qpdf_aes256r6_unicode.pdf", "contraseña_ñ", "dueño_café"),
        ("interop_qpdf_rc4-128_ctm_empty.pdf", "", "ownerpw"),
        ("interop_qpdf_rc4-128_ctm_user.pdf", "userpw", "ownerpw"),
        ("interop_qpdf_aes128_ctm_empty.pdf", "", "ownerpw"),
        ("interop_qpdf_aes128_ctm_user.pdf", "userpw", "ownerpw"),
    ]
}

#[derive(Clone, Debug, Serialize, Deserialize)]
pub struct FixtureCase {
    pub file: String,
    pub user: String,
    pub owner: String,
    pub use_owner: bool,
}

fn page_text_marker(rd: &refpdf::Reader) -> Result<Vec<u8>, String> {
    let pages = rd.pages().map_err(|e| e.msg)?;
    let mut all = Vec::new();
    for p in &pages {
        all.extend(rd.page_content(p).map_err(|e| e.msg)?);
    }
    Ok(all)
}

/// Ok(None) = fixture not present (skipped)
pub fn check_fixture(c: &FixtureCase) -> Outcome {
    let mut o = Outcome::new();
    o.nontrivial(true);
    let path = format!("{FIXTURE_DIR}/{}", c.file);
    let Ok(bytes) = std::fs::read(&path) else {
        o.label("fixture-missing");
        return o;
    };
    let Ok(base) = std::fs::read(format!("{FIXTURE_DIR}/interop_base.pdf")) else {
        o.label("fixture-missing");
        return o;
    };
    let pw = if c.use_owner { &c.owner } else { &c.user };
    o.label(format!("fixture={}", c.file));
    // calibration of the reference
    let base_rd = match refpdf::Reader::open(&base, None) {
        Ok(r) => r,
        Err(e) => {
            o.fail("CALIBRATION/reference-reads-base", "interop_base", format!("at {}: {}", e.at, e.msg));
            return o;
        }
    };
    let rd = match refpdf::Reader::open(&bytes, Some(pw.as_bytes())) {
        Ok(r) => r,
        Err(e) => {
            o.fail("CALIBRATION/reference-decrypts-third-party-file", c.file.clone(), format!("password {pw:?}: at {}: {}", e.at, e.msg));
            return o;
        }
    };
    match (page_text_marker(&rd), page_text_marker(&base_rd)) {
        (Ok(a), Ok(b)) if a == b && !a.is_empty() => {}
        (a, b) => {
            o.fail("CALIBRATION/reference-decrypts-third-party-file", c.file.clone(), format!("content {:?} vs base {:?}", a.map(|v| v.len()), b.map(|v| v.len())));
            return o;
        }
    }
    if refpdf::Reader::open(&bytes, Some(b"not-the-password")).is_ok() {
        o.fail("CALIBRATION/reference-refuses-wrong-password", c.file.clone(), "opened with a wrong password".to_string());
        return o;
    }
    // library vs reference, object by object
    let mut lrd = match PdfReader::new(std::io::Cursor::new(bytes.clone())) {
        Ok(r) => r,
        Err(e) => {
            o.fail("C06/opens", format!("fixture={}", c.file), format!("{e}"));
            return o;
        }
    };
    match lrd.unlock_with_password(pw) {
        Ok(true) => {}
        other => {
            o.fail("C06/correct-password-unlocks", format!("fixture={},{}", c.file, if c.use_owner { "owner" } else { "user" }), format!("{other:?}"));
            return o;
        }
    }
    for n in rd.object_numbers() {
        let g = rd.gen_of(n);
        let Ok(obj) = rd.load(n, g) else { continue };
        if let Obj::Stream(s) = &obj {
            if matches!(s.dict.name(b"Type"), Some(b"XRef") | Some(b"ObjStm")) {
                continue;
            }
        }
        if Some(n) == rd.encrypt_ref {
            continue;
        }
        let decoded = match &obj {
            Obj::Stream(s) => rd.stream_data(s).ok(),
            _ => None,
        };
        let want = strip_length(&canon_ref(&obj, decoded.as_deref()));
        let got = match lrd.get_object(n, g) {
            Ok(x) => lib_canon(x),
            Err(e) => format!("ERR {e}"),
        };
        if got != want {
            o.fail("C06/objects-equal-plaintext", format!("fixture={}", c.file), format!("object {n}: library {} — reference {}", crate::engine::trunc(&got, 300), crate::engine::trunc(&want, 300)));
            break;
        }
    }
    o
}

fn ascii_pw() -> impl Strategy<Value = Vec<u8>> {
    prop_oneof![3 => "[A-Za-z0-9]{1,12}", 1 => Just(String::new()), 1 => "[ -~]{1,20}", 1 => "[a-z]{30,40}"].prop_map(|s| s.into_bytes())
}

fn utf8_pw() -> impl Strategy<Value = Vec<u8>> {
    prop_oneof![3 => "[A-Za-z0-9]{1,12}", 1 => Just(String::new()), 2 => "[a-zñéüçß]{1,12}", 1 => "[a-z0-9]{100,126}"].prop_map(|s| s.into_bytes())
}

fn spec() -> impl Strategy<Value = EncSpec> {
    (prop_oneof![2 => Just(2u8), 3 => Just(3u8), 4 => Just(4u8), 2 => Just(5u8), 3 => Just(6u8)], any::<bool>(), prop::sample::select(vec![40u16, 48, 56, 64, 80, 96, 104, 128]), ascii_pw(), ascii_pw(), utf8_pw(), utf8_pw(), any::<i32>(), any::<bool>(), any::<u64>())
        .prop_map(|(r, aes, key_bits, ua, oa, uu, ou, p, em, seed)| {
            let (user_pw, owner_pw) = if r >= 5 { (uu, ou) } else { (ua, oa) };
            // reserved permission bits as a conforming writer sets them (bits 1-2 zero, 7-8 and 13-32 one)
            let p = (p | 0xFFFFF0C0u32 as i32) & !3;
            EncSpec { r, aes, key_bits: if r == 2 { 40 } else if r == 3 { key_bits } else { 128 }, user_pw, owner_pw, p, encrypt_metadata: if r >= 4 { em } else { true }, seed }
        })
}

fn strategy() -> impl Strategy<Value = Case> {
    (
        spec(),
        prop::collection::vec(prop_oneof![3 => "[ -~]{0,24}".prop_map(|s| s.into_bytes()), 1 => prop::collection::vec(any::<u8>(), 0..40), 1 => Just(vec![b'(', b')', b'\\', 13, 10])], 1..6),
        prop::collection::vec(prop::bool::weighted(0.4), 6),
        prop::collection::vec((any::<bool>(), prop::collection::vec(any::<u8>(), 0..200)), 0..4),
        any::<bool>(),
        any::<bool>(),
        "[a-z]{1,8}",
    )
        .prop_map(|(spec, strings, in_objstm, streams, metadata, compress_objstm, wrong_pw)| Case { spec, strings, in_objstm, streams, metadata, compress_objstm, wrong_pw })
}

fn run(ctx: &Ctx) {
    if let Err(e) = refcrypto::prim::self_test() {
        eprintln!("[C06] refcrypto self-test failed: {e}");
        std::process::exit(2);
    }
    // fixtures: complete enumeration (16 files × {user, owner})
    let mut seen = std::collections::BTreeSet::new();
    let mut calibration_failed = false;
    for (file, user, owner) in fixture_list() {
        for use_owner in [false, true] {
            let c = FixtureCase { file: file.into(), user: user.into(), owner: owner.into(), use_owner };
            let out = ctx.eval(&check_fixture, &c);
            if out.fails.iter().any(|f| f.clause.starts_with("CALIBRATION/")) {
                calibration_failed = true;
                eprintln!("[C06] calibration failure: {:?}", out.fails);
            }
            let key = crate::engine::hash64(&serde_json::to_vec(&c).unwrap());
            let unknown = ctx.record("fixtures", key, &out, || serde_json::to_value(&c).unwrap());
            for f in unknown {
                if !f.clause.starts_with("CALIBRATION/") && seen.insert(f.signature()) {
                    ctx.violation("fixtures", &f, serde_json::to_value(&c).unwrap(), &out.fails);
                }
            }
        }
    }
    if calibration_failed {
        eprintln!("[C06] the reference implementation failed its calibration on third-party files: harness problem (exit 2)");
        std::process::exit(2);
    }
    ctx.set_shrink_budget(400);
    ctx.run_sub("generated", ctx.tier.pick(2_500, 30_000), strategy, check);
}

fn replay(ctx: &Ctx, sub: &str, case: &Value) -> Result<Outcome, String> {
    match sub.trim_start_matches("replay:") {
        "generated" => ctx.replay_case::<Case, _>(case, check),
        "fixtures" => ctx.replay_case::<FixtureCase, _>(case, check_fixture),
        s => Err(format!("unknown sub-check {s}")),
    }
}
