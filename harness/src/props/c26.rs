//! C26 — CMaps map every code to the Unicode they define.
//!
//! sub `cmaps`    generated well-formed ToUnicode CMap programs → `CMap::parse`, `map`, `to_unicode`,
//!                `is_valid_code` against the reference interpreter (`reftab_cmap`).
//! sub `builders` generated code→Unicode maps → every public ToUnicode generator of the library
//!                (`ToUnicodeCMapBuilder`, `CidMapping`, `Type0Font`, `FontEmbedder`); the emitted program
//!                must be strictly valid for the reference interpreter, mean exactly the input map, and
//!                parse back through `CMap::parse` to exactly the input map.
//! sub `document` generated CMaps as the /ToUnicode stream of a font in a synthesized PDF; the public
//!                text extraction (the `extraction_cmap` path) must return the defined text.
//! sub `robust`   arbitrary text, CMap-alphabet soup and token-level mutations of valid CMaps into
//!                `CMap::parse` + lookups: value or error, never a panic.
use crate::engine::{self, pick_idx, Ctx, Outcome, PropertyDef};
use crate::reftab_cmap as rc;
use oxidize_pdf::text::cmap::{CMap, CMapEntry, ToUnicodeCMapBuilder};
use proptest::prelude::*;
use serde::{Deserialize, Serialize};
use serde_json::Value;
use std::collections::{BTreeMap, BTreeSet};

pub fn def() -> PropertyDef {
    PropertyDef {
        id: "C26",
        level: "exploration",
        rule: "sub `cmaps`: a case is a ToUnicode CMap program built by construction (code space from templates [1-byte, 2-byte, Shift-JIS, EUC, 3- and 4-byte] or 1–4 random prefix-free per-byte ranges of 1–4 bytes; ≤ 14 bfchar / bfrange-offset / bfrange-array entries with sources inside the code space, destinations of 1–4 UTF-16 units incl. surrogate pairs, spans single / to-the-upper-bound (…FF) / from-the-lower-bound / full / short; labelled classes: overlapping definitions, source range crossing a byte boundary, destination low byte overflowing) rendered with a generated layout (LF/CRLF/CR, one entry per line / one block per line / whole program on one line, tight or spaced tokens, hex case, white space inside hex strings, comments incl. delimiter-bearing ones, two header styles, block sizes) and probed at every 1-byte code, every range boundary ±1, every code of short ranges, code-space corners and neighbours, the same numeric value at other code lengths, and generated extra codes. Non-trivial: the program has ≥ 1 bfrange or a destination of ≥ 2 UTF-16 units AND at least one probe hits a definition. sub `builders`: a case is a generated injective code→string map (0–230 entries, so the 100-entries-per-block rule is exercised) for one of four public generators; non-trivial: ≥ 2 entries. sub `document`: a CMap (1-byte codes on a simple font, 2-byte codes on a Type0/Identity-H font, or the mixed 1-/2-byte Shift-JIS code space on a Type0/90ms-RKSJ-H font; bfchar/bfrange entries whose destinations are 1–4 UTF-16 units of letters, ideographs and emoji that extraction passes through unchanged; same layout generator, the two layout regions with a listed tokenizer defect left to sub `cmaps`) as plain or Flate /ToUnicode stream of a synthesized one-page PDF that shows 1–29 defined codes in 1–3 Tj operators; the text returned by PdfDocument::extract_text, white space removed, must be the concatenation of the defined values; non-trivial: ≥ 2 codes shown. sub `fmt12` (anchor fonts/cmap_utils.rs): well-formed TrueType cmap format-12 subtables (0–7 ascending disjoint groups, glyph ids ≤ 0xFFFF, optional code-point filter, leading bytes before the subtable) against glyph = startGlyphID + (c − startCharCode), plus truncations (value or error); non-trivial: ≥ 2 groups. sub `robust`: arbitrary bytes / CMap-alphabet soup / token-level mutations; non-trivial: the input is valid UTF-8 and contains at least one '<'. Distinct by hash of the case.",
        assumptions: &[
            "reference interpreter written from ISO 32000-1 §9.7.5, §9.7.6.2, §9.10.3, Adobe TN 5014 and the PostScript lexical rules (comments end at CR, LF or FF; CR, LF, CRLF are all line ends)",
            "code space membership is per byte (TN 5014; ISO 32000-2 §9.7.6.2): same length and each byte within the corresponding bounds",
            "bfrange offset form increments the last byte; where the low byte would pass 255 the specification calls the result undefined — carry-propagating and last-byte-only results are both accepted (class low-byte-overflow)",
            "overlapping definitions: any of the defined values is accepted (later-wins is TN 5014 advice, not ISO 32000 text)",
            "bfrange whose bounds differ in more than the last byte (class crosses-byte-boundary): validity predicate — unmapped, or integer-linear value (carry or last-byte-only)",
            "to_unicode is compared only for destinations that are valid UTF-16BE",
            "at most 100 entries per begin…/end… block (TN 5014 §7) is part of strict validity for emitted programs",
            "builders domain: codes of exactly the declared code length, non-empty destination strings of ≤ 4 UTF-16 units, Unicode scalar values only, injective glyph assignment",
        ],
        trusted_base: &["harness reftab_cmap (tokenizer + interpreter, ≈ 450 lines) with a start-up self test on the specification's examples", "refpdf synthesizer for the document sub-check"],
        run,
        replay,
    }
}

// ---------------------------------------------------------------------------------------------
// helpers
// ---------------------------------------------------------------------------------------------

pub fn hx(b: &[u8]) -> String {
    b.iter().map(|x| format!("{x:02X}")).collect()
}
pub fn unhx(s: &str) -> Vec<u8> {
    let d: Vec<u8> = s.bytes().filter_map(|c| (c as char).to_digit(16).map(|v| v as u8)).collect();
    d.chunks(2).filter(|p| p.len() == 2).map(|p| p[0] << 4 | p[1]).collect()
}
/// bytes ↔ a String whose chars are the bytes (keeps replay files readable and byte-exact)
pub fn l1(b: &[u8]) -> String {
    b.iter().map(|&x| x as char).collect()
}
pub fn unl1(s: &str) -> Vec<u8> {
    s.chars().map(|c| c as u32 as u8).collect()
}
fn scale(x: u8, lo: u8, hi: u8) -> u8 {
    // monotone map of 0..=255 onto lo..=hi
    let w = hi as u32 - lo as u32 + 1;
    (lo as u32 + (x as u32 * w) / 256) as u8
}

/// file + message up to the first quoted / case-specific part, digits collapsed
fn stable_panic_class(msg: &str, loc: &str) -> String {
    let cut = msg.find(|c| matches!(c, ';' | '`' | '\'' | '"')).unwrap_or(msg.len());
    engine::panic_class(msg[..cut].trim_end(), loc)
}

fn lib_catch<T>(o: &mut Outcome, what: &str, f: impl FnOnce() -> T) -> Option<T> {
    match engine::catch(f) {
        Ok(v) => Some(v),
        Err((msg, loc)) => {
            o.fail("C26/no-panic", stable_panic_class(&msg, &loc), format!("{what}: panic: {msg} at {loc}"));
            None
        }
    }
}

// ---------------------------------------------------------------------------------------------
// sub `cmaps`
// ---------------------------------------------------------------------------------------------

#[derive(Clone, Debug, Serialize, Deserialize, PartialEq)]
pub enum Entry {
    Char { src: String, dst: String },
    Range { lo: String, hi: String, dst: String },
    Arr { lo: String, hi: String, dsts: Vec<String> },
}

#[derive(Clone, Debug, Serialize, Deserialize)]
pub struct Case {
    /// the CMap program, one char per byte
    pub text: String,
    pub codespace: Vec<(String, String)>,
    pub entries: Vec<Entry>,
    /// generator intents (classes)
    pub tags: Vec<String>,
    /// extra probe codes (hex)
    pub extra: Vec<String>,
}

#[derive(Clone, Debug)]
struct Layout {
    eol: u8,       // 0 LF 1 CRLF 2 CR
    join: u8,      // 0 entry per line, 1 block per line, 2 everything on one line
    tight: bool,   // no white space where delimiters separate
    hexcase: u8,   // 0 upper 1 lower 2 mixed
    inner_ws: bool, // white space inside hex strings
    comments: bool,
    header: u8,    // 0 full, 1 minimal, 2 dup-begin dictionary style
    block: u8,     // max entries per block
    nonutf8: bool,
    choices: Vec<u8>,
}

struct Renderer<'a> {
    l: &'a Layout,
    k: usize,
}

const COMMENTS: [&str; 10] = ["", " ", " generated", " <0041> <0042>", " endbfchar", " (", " <<", " 100 beginbfchar", " ] >", " /x"];

impl Renderer<'_> {
    fn next(&mut self) -> u8 {
        let v = if self.l.choices.is_empty() { 0 } else { self.l.choices[self.k % self.l.choices.len()] };
        self.k += 1;
        v
    }
    fn hex(&mut self, b: &[u8]) -> String {
        let mut s = String::from("<");
        for (i, x) in b.iter().enumerate() {
            let c = self.next();
            let up = match self.l.hexcase {
                0 => true,
                1 => false,
                _ => c & 1 == 0,
            };
            if self.l.inner_ws && i > 0 && c & 6 != 0 {
                // PostScript ignores any white space inside a hex string
                s.push_str(if c & 8 != 0 && self.l.join == 0 { self.eol() } else { " " });
            }
            if up {
                s.push_str(&format!("{x:02X}"));
            } else {
                s.push_str(&format!("{x:02x}"));
            }
        }
        s.push('>');
        s
    }
    fn eol(&self) -> &'static str {
        match self.l.eol {
            0 => "\n",
            1 => "\r\n",
            _ => "\r",
        }
    }
    fn join_tokens(&mut self, toks: &[String]) -> String {
        let mut s = String::new();
        for (i, t) in toks.iter().enumerate() {
            if i > 0 {
                let prev = toks[i - 1].as_bytes();
                let selfdelim = matches!(prev[prev.len() - 1], b'>' | b']' | b')') || matches!(t.as_bytes()[0], b'<' | b'[' | b'(' | b'/');
                if self.l.tight && selfdelim {
                    // nothing
                } else {
                    match self.next() % 8 {
                        5 => s.push_str("  "),
                        6 => s.push('\t'),
                        7 if !self.l.tight => s.push_str(" \t "),
                        _ => s.push(' '),
                    }
                }
            }
            s.push_str(t);
        }
        s
    }
}

fn render(codespace: &[(Vec<u8>, Vec<u8>)], entries: &[Entry], l: &Layout) -> Vec<u8> {
    let mut r = Renderer { l, k: 0 };
    // logical lines: (tokens, block-id) — lines of one block may be joined
    let mut lines: Vec<(Vec<String>, u32)> = Vec::new();
    let mut bid = 0u32;
    let reg = if l.nonutf8 { "(Adob\u{e9})" } else { "(Adobe)" };
    match l.header {
        0 => {
            for t in [
                vec!["/CIDInit", "/ProcSet", "findresource", "begin"],
                vec!["12", "dict", "begin"],
                vec!["begincmap"],
                vec!["/CIDSystemInfo", "<<", "/Registry", reg, "/Ordering", "(UCS)", "/Supplement", "0", ">>", "def"],
                vec!["/CMapName", "/Adobe-Identity-UCS", "def"],
                vec!["/CMapType", "2", "def"],
            ] {
                bid += 1;
                lines.push((t.into_iter().map(String::from).collect(), bid));
            }
        }
        1 => {
            bid += 1;
            lines.push((vec!["begincmap".into()], bid));
        }
        _ => {
            for t in [
                vec!["/CIDInit", "/ProcSet", "findresource", "begin", "12", "dict", "begin", "begincmap"],
                vec!["/CIDSystemInfo", "3", "dict", "dup", "begin"],
                vec!["/Registry", reg, "def", "/Ordering", "(UCS)", "def", "/Supplement", "0", "def"],
                vec!["end", "def"],
                vec!["/CMapName", "/Gen-UCS2-1", "def", "/CMapVersion", "1.000", "def", "/CMapType", "2", "def", "/WMode", "0", "def"],
            ] {
                bid += 1;
                lines.push((t.into_iter().map(String::from).collect(), bid));
            }
        }
    }
    // code space block(s)
    bid += 1;
    lines.push((vec![codespace.len().to_string(), "begincodespacerange".into()], bid));
    for (lo, hi) in codespace {
        let a = r.hex(lo);
        let b = r.hex(hi);
        lines.push((vec![a, b], bid));
    }
    lines.push((vec!["endcodespacerange".into()], bid));
    // mapping blocks: consecutive entries of one kind, at most l.block per block
    let maxb = l.block.max(1) as usize;
    let mut i = 0;
    while i < entries.len() {
        let is_char = matches!(entries[i], Entry::Char { .. });
        let mut j = i;
        while j < entries.len() && j - i < maxb && matches!(entries[j], Entry::Char { .. }) == is_char {
            j += 1;
        }
        bid += 1;
        let (b, e) = if is_char { ("beginbfchar", "endbfchar") } else { ("beginbfrange", "endbfrange") };
        lines.push((vec![(j - i).to_string(), b.into()], bid));
        for en in &entries[i..j] {
            let toks = match en {
                Entry::Char { src, dst } => vec![r.hex(&unhx(src)), r.hex(&unhx(dst))],
                Entry::Range { lo, hi, dst } => vec![r.hex(&unhx(lo)), r.hex(&unhx(hi)), r.hex(&unhx(dst))],
                Entry::Arr { lo, hi, dsts } => {
                    let mut v = vec![r.hex(&unhx(lo)), r.hex(&unhx(hi)), "[".to_string()];
                    for d in dsts {
                        v.push(r.hex(&unhx(d)));
                    }
                    v.push("]".into());
                    v
                }
            };
            lines.push((toks, bid));
        }
        lines.push((vec![e.into()], bid));
        i = j;
    }
    bid += 1;
    lines.push((vec!["endcmap".into()], bid));
    if l.header != 1 {
        bid += 1;
        lines.push((vec!["CMapName".into(), "currentdict".into(), "/CMap".into(), "defineresource".into(), "pop".into()], bid));
        bid += 1;
        lines.push((vec!["end".into()], bid));
        bid += 1;
        lines.push((vec!["end".into()], bid));
    }
    // physical lines
    let mut phys: Vec<Vec<String>> = Vec::new();
    match l.join {
        0 => {
            for (t, _) in lines {
                phys.push(t);
            }
        }
        1 => {
            let mut last = 0;
            for (t, b) in lines {
                if b == last && !phys.is_empty() {
                    phys.last_mut().unwrap().extend(t);
                } else {
                    phys.push(t);
                }
                last = b;
            }
        }
        _ => {
            let mut all = Vec::new();
            for (t, _) in lines {
                all.extend(t);
            }
            phys.push(all);
        }
    }
    let mut out = String::new();
    if l.comments {
        out.push_str("%!PS-Adobe-3.0 Resource-CMap");
        out.push_str(r.eol());
        out.push_str("%%BeginResource: CMap (gen)");
        if l.nonutf8 {
            out.push_str(" \u{a9} 1999");
        }
        out.push_str(r.eol());
    }
    let n = phys.len();
    for (idx, t) in phys.into_iter().enumerate() {
        let line = r.join_tokens(&t);
        out.push_str(&line);
        if l.comments {
            let c = r.next();
            if c % 3 == 1 {
                // trailing comment
                if c & 8 != 0 {
                    out.push(' ');
                }
                out.push('%');
                out.push_str(COMMENTS[(c as usize / 16) % COMMENTS.len()]);
            }
            if c % 5 == 2 {
                out.push_str(r.eol());
                out.push('%');
                out.push_str(COMMENTS[(c as usize / 8) % COMMENTS.len()]);
            }
        }
        let c = r.next();
        if idx + 1 < n || c & 1 == 0 || l.comments {
            out.push_str(r.eol());
        }
        if c % 11 == 7 && idx + 1 < n {
            out.push_str(r.eol()); // blank line
        }
    }
    unl1(&out)
}

#[derive(Clone, Debug)]
struct EntryRaw {
    cs: u16,
    kind: u8,
    prefix: [u8; 3],
    a: u8,
    span: u8,
    span_mode: u8,
    dsts: Vec<Vec<char>>,
    special: u8,
}

fn char_strategy() -> impl Strategy<Value = char> {
    prop_oneof![
        6 => (0x20u32..0x7F).prop_map(|c| char::from_u32(c).unwrap()),
        3 => (0xA0u32..0x250).prop_map(|c| char::from_u32(c).unwrap()),
        2 => (0x370u32..0x500).prop_map(|c| char::from_u32(c).unwrap()),
        3 => (0x3040u32..0x3100).prop_map(|c| char::from_u32(c).unwrap()),
        3 => (0x4E00u32..0xA000).prop_map(|c| char::from_u32(c).unwrap()),
        1 => (0xFB00u32..0xFB07).prop_map(|c| char::from_u32(c).unwrap()),
        1 => (0xFF00u32..0xFFF0).prop_map(|c| char::from_u32(c).unwrap()),
        1 => prop::sample::select(vec!['\u{0}', '\u{1}', '\u{9}', '\u{FF}', '\u{100}', '\u{D7FF}', '\u{E000}', '\u{FFFD}', '\u{FFFF}', '\u{2028}', '\u{200B}', '\u{301}']),
        3 => (0x1F300u32..0x1F700).prop_map(|c| char::from_u32(c).unwrap()),
        1 => (0x20000u32..0x2A6E0).prop_map(|c| char::from_u32(c).unwrap()),
        1 => prop::sample::select(vec!['\u{10000}', '\u{103FF}', '\u{10400}', '\u{1F600}', '\u{2003E}', '\u{10FFFF}', '\u{FFFFF}', '\u{100000}']),
    ]
}

/// 1–4 UTF-16 units
fn dst_strategy() -> impl Strategy<Value = Vec<char>> {
    prop_oneof![
        5 => prop::collection::vec(char_strategy(), 1..=1),
        3 => prop::collection::vec(char_strategy(), 2..=4),
    ]
    .prop_map(|mut v| {
        while v.iter().map(|c| c.len_utf16()).sum::<usize>() > 4 {
            v.pop();
        }
        v
    })
}

fn entry_raw() -> impl Strategy<Value = EntryRaw> {
    (any::<u16>(), 0u8..10, any::<[u8; 3]>(), any::<u8>(), any::<u8>(), 0u8..8, prop::collection::vec(dst_strategy(), 1..5), 0u8..24).prop_map(|(cs, kind, prefix, a, span, span_mode, dsts, special)| EntryRaw { cs, kind, prefix, a, span, span_mode, dsts, special })
}

fn layout_strategy() -> impl Strategy<Value = Layout> {
    (
        prop_oneof![5 => Just(0u8), 3 => Just(1u8), 2 => Just(2u8)],
        prop_oneof![5 => Just(0u8), 3 => Just(1u8), 2 => Just(2u8)],
        any::<bool>(),
        0u8..3,
        prop::bool::weighted(0.15),
        prop::bool::weighted(0.4),
        0u8..3,
        prop_oneof![3 => Just(100u8), 1 => 1u8..4],
        prop::bool::weighted(0.04),
        prop::collection::vec(any::<u8>(), 1..24),
    )
        .prop_map(|(eol, join, tight, hexcase, inner_ws, comments, header, block, nonutf8, choices)| {
            // comments need physical lines
            let comments = comments && join != 2;
            Layout { eol, join, tight, hexcase, inner_ws, comments: comments || (nonutf8 && join != 2 && header == 1), header, block, nonutf8, choices }
        })
}

#[derive(Clone, Debug)]
struct CsRaw {
    len: u8,
    a: u8,
    b: u8,
    more: [(u8, u8); 3],
}

fn codespace_strategy() -> impl Strategy<Value = Vec<(Vec<u8>, Vec<u8>)>> {
    let tpl = |v: Vec<(&[u8], &[u8])>| v.into_iter().map(|(a, b)| (a.to_vec(), b.to_vec())).collect::<Vec<_>>();
    let random = prop::collection::vec((1u8..=4, any::<u8>(), any::<u8>(), any::<[(u8, u8); 3]>()).prop_map(|(len, a, b, more)| CsRaw { len, a, b, more }), 1..=4).prop_map(|raws| {
        let k = raws.len();
        let mut out = Vec::new();
        for (j, r) in raws.iter().enumerate() {
            let slot_lo = (j * 256 / k) as u8;
            let slot_hi = ((j + 1) * 256 / k - 1) as u8;
            let lo0 = scale(r.a, slot_lo, slot_hi);
            let hi0 = scale(r.b, lo0, slot_hi);
            let mut lo = vec![lo0];
            let mut hi = vec![hi0];
            for q in 1..r.len as usize {
                let (x, y) = r.more[q - 1];
                // favour the full 00..FF byte range for trailing bytes half of the time
                let (l, h) = if x & 1 == 0 { (0, 255) } else { let l = scale(x, 0, 255); (l, scale(y, l, 255)) };
                lo.push(l);
                hi.push(h);
            }
            out.push((lo, hi));
        }
        out
    });
    prop_oneof![
        3 => Just(tpl(vec![(&[0x00], &[0xFF])])),
        4 => Just(tpl(vec![(&[0x00, 0x00], &[0xFF, 0xFF])])),
        2 => Just(tpl(vec![(&[0x00], &[0x80]), (&[0x81, 0x40], &[0x9F, 0xFC]), (&[0xA0], &[0xDF]), (&[0xE0, 0x40], &[0xFC, 0xFC])])),
        1 => Just(tpl(vec![(&[0x00], &[0x80]), (&[0x8E, 0xA0], &[0x8E, 0xDF]), (&[0xA1, 0xA1], &[0xFE, 0xFE]), (&[0x8F, 0xA1, 0xA1], &[0x8F, 0xFE, 0xFE])])),
        1 => Just(tpl(vec![(&[0x00, 0x00, 0x00], &[0xFF, 0xFF, 0xFF])])),
        1 => Just(tpl(vec![(&[0x00, 0x00, 0x00, 0x00], &[0xFF, 0xFF, 0xFF, 0xFF])])),
        5 => random,
    ]
}

fn build_entries(cs: &[(Vec<u8>, Vec<u8>)], raws: &[EntryRaw], overlap: bool, tags: &mut BTreeSet<String>) -> Vec<Entry> {
    let mut out: Vec<Entry> = Vec::new();
    let mut taken: Vec<(usize, u64, u64)> = Vec::new();
    let mut prev: Option<(usize, Vec<u8>, u8)> = None;
    for (idx, r) in raws.iter().enumerate() {
        let mut ci = pick_idx(r.cs, cs.len());
        let (lo, hi) = &cs[ci];
        let mut n = lo.len();
        let mut prefix: Vec<u8> = (0..n - 1).map(|k| scale(r.prefix[k], lo[k], hi[k])).collect();
        let (mut bl, mut bh) = (lo[n - 1], hi[n - 1]);
        let mut a0 = scale(r.a, bl, bh);
        if overlap && idx % 2 == 1 {
            if let Some((pci, pp, pa)) = &prev {
                ci = *pci;
                n = cs[ci].0.len();
                prefix = pp.clone();
                bl = cs[ci].0[n - 1];
                bh = cs[ci].1[n - 1];
                a0 = *pa;
            }
        }
        prev = Some((ci, prefix.clone(), a0));
        let (s_lo, s_hi): (u8, u8) = match r.span_mode {
            0 => (a0, a0),
            1 => (a0, bh),
            2 => (bl, a0),
            3 => (bl, bh),
            _ => (a0, a0 + scale(r.span, 0, (bh - a0).min(15))),
        };
        let mk = |last: u8| {
            let mut v = prefix.clone();
            v.push(last);
            v
        };
        let main_dst = rc::to_utf16be(&r.dsts[0].iter().collect::<String>());
        let entry = match r.kind {
            0..=3 => Entry::Char { src: hx(&mk(a0)), dst: hx(&main_dst) },
            4..=6 => {
                // offset form
                let crossing = r.special == 1 && n >= 2;
                let (mut lo_b, mut hi_b) = (mk(s_lo), mk(s_hi));
                if crossing {
                    let start = mk(a0.max(0xE0).max(bl).min(bh));
                    let lv = rc::be_val(&start);
                    let hv = (lv + 0x20 + r.span as u64).min((1u64 << (8 * n)) - 1);
                    let end = rc::be_bytes(hv, n);
                    if start[..n - 1] != end[..n - 1] {
                        lo_b = start;
                        hi_b = end;
                    }
                }
                let span = rc::be_val(&hi_b) - rc::be_val(&lo_b);
                let mut d = main_dst.clone();
                let last = d.len() - 1;
                if crossing && rc::be_val(&lo_b[..n - 1]) != rc::be_val(&hi_b[..n - 1]) {
                    tags.insert("crosses-byte-boundary".into());
                    d[last] = d[last].min(0x40);
                } else if r.special == 0 && span >= 1 && span <= 255 {
                    // destination low byte overflows somewhere inside the range
                    let min_start = 256 - span as u32; // smallest low byte that overflows at the last code
                    d[last] = (min_start + (r.span as u32 * (256 - min_start)) / 256).min(255) as u8;
                    tags.insert("low-byte-overflow".into());
                } else if span <= 255 {
                    d[last] = d[last].min((255 - span) as u8);
                }
                Entry::Range { lo: hx(&lo_b), hi: hx(&hi_b), dst: hx(&d) }
            }
            _ => {
                let crossing = r.special == 1 && n >= 2;
                let (mut lo_b, mut hi_b) = (mk(s_lo), mk(s_hi.min(s_lo.saturating_add(19))));
                if crossing {
                    let start = mk(a0.max(0xF8).max(bl).min(bh));
                    let lv = rc::be_val(&start);
                    let hv = (lv + 9 + (r.span as u64 & 7)).min((1u64 << (8 * n)) - 1);
                    let end = rc::be_bytes(hv, n);
                    if start[..n - 1] != end[..n - 1] {
                        lo_b = start;
                        hi_b = end;
                    }
                }
                if rc::be_val(&lo_b[..n - 1]) != rc::be_val(&hi_b[..n - 1]) {
                    tags.insert("crosses-byte-boundary".into());
                }
                let cnt = (rc::be_val(&hi_b) - rc::be_val(&lo_b) + 1) as usize;
                let mut dsts = Vec::new();
                for q in 0..cnt {
                    let mut d = rc::to_utf16be(&r.dsts[q % r.dsts.len()].iter().collect::<String>());
                    let last = d.len() - 1;
                    d[last] = d[last].wrapping_add((q / r.dsts.len() * 7) as u8);
                    dsts.push(hx(&d));
                }
                Entry::Arr { lo: hx(&lo_b), hi: hx(&hi_b), dsts }
            }
        };
        let (elo, ehi) = match &entry {
            Entry::Char { src, .. } => (unhx(src), unhx(src)),
            Entry::Range { lo, hi, .. } | Entry::Arr { lo, hi, .. } => (unhx(lo), unhx(hi)),
        };
        let iv = (n, rc::be_val(&elo), rc::be_val(&ehi));
        let clash = taken.iter().any(|t| t.0 == iv.0 && t.1 <= iv.2 && iv.1 <= t.2);
        if clash {
            if !overlap {
                continue;
            }
            tags.insert("overlap".into());
        }
        taken.push(iv);
        out.push(entry);
    }
    out
}

pub fn strategy() -> impl Strategy<Value = Case> {
    (codespace_strategy(), prop::collection::vec(entry_raw(), 0..15), layout_strategy(), prop::bool::weighted(0.12), prop::collection::vec((1u8..=4, any::<u32>()), 0..6))
        .prop_map(|(cs, raws, layout, overlap, extra)| {
            let mut tags = BTreeSet::new();
            let entries = build_entries(&cs, &raws, overlap, &mut tags);
            let text = render(&cs, &entries, &layout);
            tags.insert(format!("eol={}", ["LF", "CRLF", "CR"][layout.eol as usize]));
            tags.insert(format!("join={}", ["entry-per-line", "block-per-line", "one-line"][layout.join as usize]));
            if layout.comments {
                tags.insert("comments".into());
            }
            if layout.tight {
                tags.insert("tight".into());
            }
            if layout.inner_ws {
                tags.insert("hex-inner-ws".into());
            }
            if layout.nonutf8 && text.iter().any(|&b| b >= 0x80) {
                tags.insert("non-utf8-byte".into());
            }
            tags.insert(format!("header={}", layout.header));
            Case {
                text: l1(&text),
                codespace: cs.iter().map(|(a, b)| (hx(a), hx(b))).collect(),
                entries,
                tags: tags.into_iter().collect(),
                extra: extra.iter().map(|(n, v)| hx(&rc::be_bytes(*v as u64, *n as usize))).collect(),
            }
        })
        .boxed()
}

fn neighbours(code: &[u8]) -> Vec<Vec<u8>> {
    let n = code.len();
    let v = rc::be_val(code);
    let max = if n >= 8 { u64::MAX } else { (1u64 << (8 * n)) - 1 };
    let mut out = vec![code.to_vec()];
    if v > 0 {
        out.push(rc::be_bytes(v - 1, n));
    }
    if v < max {
        out.push(rc::be_bytes(v + 1, n));
    }
    out
}

fn probes(c: &Case) -> BTreeSet<Vec<u8>> {
    let mut p: BTreeSet<Vec<u8>> = BTreeSet::new();
    for b in 0..=255u8 {
        p.insert(vec![b]);
    }
    let push_all_lengths = |p: &mut BTreeSet<Vec<u8>>, code: &[u8]| {
        let v = rc::be_val(code);
        for n in 1..=4usize {
            if n == 4 || v < (1u64 << (8 * n)) {
                p.insert(rc::be_bytes(v, n));
            }
        }
    };
    for e in &c.entries {
        let (lo, hi) = match e {
            Entry::Char { src, .. } => (unhx(src), unhx(src)),
            Entry::Range { lo, hi, .. } | Entry::Arr { lo, hi, .. } => (unhx(lo), unhx(hi)),
        };
        let n = lo.len();
        if n == 0 || n > 4 || hi.len() != n {
            continue;
        }
        for x in neighbours(&lo).into_iter().chain(neighbours(&hi)) {
            p.insert(x);
        }
        let (l, h) = (rc::be_val(&lo), rc::be_val(&hi));
        if h >= l {
            p.insert(rc::be_bytes(l + (h - l) / 2, n));
            if h - l <= 64 {
                for v in l..=h {
                    p.insert(rc::be_bytes(v, n));
                }
            } else {
                // byte-carry points inside long ranges
                let mut v = (l | 0xFF).saturating_sub(1);
                let mut cnt = 0;
                while v < h && cnt < 6 {
                    for q in v..=(v + 3).min(h) {
                        if q >= l {
                            p.insert(rc::be_bytes(q, n));
                        }
                    }
                    v += 0x100;
                    cnt += 1;
                }
            }
        }
        push_all_lengths(&mut p, &lo);
        push_all_lengths(&mut p, &hi);
        // where a walk that wraps inside the last byte (no carry) would land
        for base in [&lo, &hi] {
            for last in [0x00u8, 0x01, 0xFE, 0xFF] {
                let mut x = base.to_vec();
                x[n - 1] = last;
                p.insert(x);
            }
        }
    }
    for (lo, hi) in &c.codespace {
        let (lo, hi) = (unhx(lo), unhx(hi));
        let n = lo.len();
        if n == 0 || n > 4 || hi.len() != n {
            continue;
        }
        // corners of the rectangle and their per-byte neighbours
        for mask in 0..(1u32 << n) {
            let corner: Vec<u8> = (0..n).map(|k| if mask >> k & 1 == 1 { hi[k] } else { lo[k] }).collect();
            for k in 0..n {
                for d in [-1i32, 0, 1] {
                    let b = corner[k] as i32 + d;
                    if (0..=255).contains(&b) {
                        let mut x = corner.clone();
                        x[k] = b as u8;
                        p.insert(x);
                    }
                }
            }
            push_all_lengths(&mut p, &corner);
        }
        // lexicographically between the bounds, but a trailing byte outside its bounds
        if n >= 2 && lo[0] < hi[0] {
            for k in 1..n {
                if lo[k] > 0 {
                    let mut x = lo.clone();
                    x[0] = lo[0] + 1;
                    x[k] = lo[k] - 1;
                    p.insert(x);
                }
                if hi[k] < 255 {
                    let mut x = hi.clone();
                    x[0] = hi[0] - 1;
                    x[k] = hi[k] + 1;
                    p.insert(x);
                }
            }
        }
    }
    for e in &c.extra {
        let b = unhx(e);
        if !b.is_empty() && b.len() <= 4 {
            p.insert(b);
        }
    }
    p
}

fn to_def(e: &Entry) -> rc::Def {
    match e {
        Entry::Char { src, dst } => rc::Def::Char { src: unhx(src), dst: unhx(dst) },
        Entry::Range { lo, hi, dst } => rc::Def::Range { lo: unhx(lo), hi: unhx(hi), dst: unhx(dst) },
        Entry::Arr { lo, hi, dsts } => rc::Def::RangeArr { lo: unhx(lo), hi: unhx(hi), dsts: dsts.iter().map(|d| unhx(d)).collect() },
    }
}

/// Layout regions in which a listed defect makes the parse meaningless (one class per region).
fn layout_region(c: &Case) -> Option<&'static str> {
    let has = |t: &str| c.tags.iter().any(|x| x == t);
    if has("non-utf8-byte") {
        Some("layout=byte>=0x80 in comment or string")
    } else if has("eol=CR") && has("comments") {
        Some("layout=comment ended by CR")
    } else {
        None
    }
}

fn form_class(prog: &rc::Program, cands: &[rc::Cand]) -> String {
    if cands.is_empty() {
        return "undefined-code".into();
    }
    let mut s = match &prog.defs[cands[0].def_index] {
        rc::Def::Char { .. } => "form=bfchar".to_string(),
        rc::Def::Range { .. } => "form=bfrange-offset".to_string(),
        rc::Def::RangeArr { .. } => "form=bfrange-array".to_string(),
    };
    if cands.iter().any(|c| c.crossing) {
        s.push_str(",crosses-byte-boundary");
    }
    if cands.iter().any(|c| c.low_byte_overflow) {
        s.push_str(",low-byte-overflow");
    }
    if cands.len() > 1 {
        s.push_str(",overlap");
    }
    s
}

/// Compare a parsed library CMap with the reference program on a probe set.
/// `strict_cs`: also compare is_valid_code with per-byte code space membership.
fn compare_lookups(o: &mut Outcome, lib: &CMap, prog: &rc::Program, probes: &BTreeSet<Vec<u8>>, region: Option<&str>, clause_prefix: &str) -> usize {
    let mut hits = 0usize;
    let mut reported: BTreeSet<String> = BTreeSet::new();
    let mut hit_labels: BTreeSet<String> = BTreeSet::new();
    for code in probes {
        let cands = prog.candidates(code);
        let in_cs = prog.in_codespace(code);
        let Some(got) = lib_catch(o, "CMap::map", || lib.map(code)) else { continue };
        let class = || region.map(|r| r.to_string()).unwrap_or_else(|| form_class(prog, &cands));
        if cands.is_empty() {
            if let Some(v) = &got {
                let sig = format!("{clause_prefix}/undefined-code-unmapped|{}", class());
                if reported.insert(sig) {
                    o.fail(&format!("{clause_prefix}/undefined-code-unmapped"), class(), format!("code <{}> (in code space: {in_cs}) has no definition but map() returned <{}>", hx(code), hx(v)));
                }
            }
        } else {
            hits += 1;
            let none_ok = !in_cs || cands.iter().any(|c| c.crossing);
            let allowed: Vec<&Vec<u8>> = cands.iter().flat_map(|c| c.values.iter()).collect();
            hit_labels.insert(format!("hit:{}", form_class(prog, &cands)));
            let ok = match &got {
                None => none_ok,
                Some(v) => allowed.iter().any(|a| *a == v),
            };
            if !ok {
                let sig = format!("{clause_prefix}/map-equals-reference|{}", class());
                if reported.insert(sig) {
                    o.fail(
                        &format!("{clause_prefix}/map-equals-reference"),
                        class(),
                        format!("code <{}>: reference admits {:?}{}, map() returned {:?}", hx(code), allowed.iter().map(|a| hx(a)).collect::<Vec<_>>(), if none_ok { " or unmapped" } else { "" }, got.as_ref().map(|v| hx(v))),
                    );
                }
            }
        }
        if let Some(v) = &got {
            if let Some(exp) = rc::utf16be(v) {
                let units = v.len() / 2;
                let tu = lib_catch(o, "CMap::to_unicode", || lib.to_unicode(v));
                if let Some(tu) = tu {
                    if tu.as_deref() != Some(exp.as_str()) {
                        let cl = region.map(|r| r.to_string()).unwrap_or_else(|| format!("units={units}{}", if exp.chars().any(|c| c as u32 > 0xFFFF) { ",surrogate-pair" } else { "" }));
                        if reported.insert(format!("tu|{cl}")) {
                            o.fail(&format!("{clause_prefix}/to-unicode-is-utf16be"), cl, format!("destination <{}>: expected {:?}, to_unicode returned {:?}", hx(v), exp, tu));
                        }
                    }
                }
            }
        }
    }
    for l in hit_labels {
        o.label(l);
    }
    hits
}

/// per-case (deduplicated) labels of the entries; (labels, any multi-unit destination, any bfrange)
fn entry_labels(entries: &[Entry]) -> (BTreeSet<String>, bool, bool) {
    let mut l = BTreeSet::new();
    let mut multi = false;
    let mut has_range = false;
    let pair = |d: &str| rc::utf16be(&unhx(d)).map(|s| s.chars().any(|c| c as u32 > 0xFFFF)).unwrap_or(false);
    for e in entries {
        match e {
            Entry::Char { src, dst } => {
                l.insert("entry=bfchar".to_string());
                l.insert(format!("code-bytes={}", src.len() / 2));
                l.insert(format!("dst-units={}", dst.len() / 4));
                multi |= dst.len() > 4;
                if pair(dst) {
                    l.insert("dst-surrogate-pair".into());
                }
            }
            Entry::Range { lo, hi, dst } => {
                has_range = true;
                l.insert("entry=bfrange-offset".to_string());
                l.insert(format!("code-bytes={}", lo.len() / 2));
                l.insert(format!("dst-units={}", dst.len() / 4));
                multi |= dst.len() > 4;
                if hi.ends_with("FF") {
                    l.insert("range-ends-at-FF".into());
                }
                if lo == hi {
                    l.insert("range-single-code".into());
                }
                if pair(dst) {
                    l.insert("dst-surrogate-pair".into());
                }
            }
            Entry::Arr { lo, hi, dsts } => {
                has_range = true;
                l.insert("entry=bfrange-array".to_string());
                l.insert(format!("code-bytes={}", lo.len() / 2));
                multi |= dsts.iter().any(|d| d.len() > 4);
                if dsts.iter().any(|d| pair(d)) {
                    l.insert("dst-surrogate-pair".into());
                }
                if hi.ends_with("FF") {
                    l.insert("range-ends-at-FF".into());
                }
            }
        }
    }
    (l, multi, has_range)
}

pub fn check(c: &Case) -> Outcome {
    let mut o = Outcome::new();
    let bytes = unl1(&c.text);
    for t in &c.tags {
        o.label(t.clone());
    }
    // reference
    let prog = match rc::interpret(&bytes) {
        Ok(p) => p,
        Err(e) => {
            o.fail("C26/reference-self-check", "interpret-error", format!("reference interpreter rejected a generated program: {e}"));
            return o;
        }
    };
    let want_defs: Vec<rc::Def> = c.entries.iter().map(to_def).collect();
    let want_cs: Vec<rc::CodeRange> = c.codespace.iter().map(|(a, b)| rc::CodeRange { lo: unhx(a), hi: unhx(b) }).collect();
    if prog.defs != want_defs || prog.codespace != want_cs {
        o.fail("C26/reference-self-check", "meaning-differs-from-construction", format!("constructed {} defs / {} ranges, reference read {} / {}", want_defs.len(), want_cs.len(), prog.defs.len(), prog.codespace.len()));
        return o;
    }
    let special = c.tags.iter().any(|t| t == "crosses-byte-boundary" || t == "low-byte-overflow");
    if !special && !prog.issues.is_empty() {
        o.fail("C26/reference-self-check", "unexpected-validity-issue", format!("{:?}", prog.issues));
        return o;
    }
    let region = layout_region(c);
    // library
    let Some(parsed) = lib_catch(&mut o, "CMap::parse", || CMap::parse(&bytes)) else { return o };
    let lib = match parsed {
        Ok(m) => m,
        Err(e) => {
            o.fail("C26/parse-accepts-wellformed", region.unwrap_or("plain").to_string(), format!("CMap::parse returned Err({e}) on a well-formed program"));
            return o;
        }
    };
    let pr = probes(c);
    let hits = compare_lookups(&mut o, &lib, &prog, &pr, region, "C26");
    // code space membership
    let mut cs_reported = BTreeSet::new();
    for code in &pr {
        let exp = prog.in_codespace(code);
        let Some(got) = lib_catch(&mut o, "CMap::is_valid_code", || lib.is_valid_code(code)) else { continue };
        if got != exp {
            let cl = if let Some(r) = region {
                r.to_string()
            } else if exp {
                "inside-rejected".to_string()
            } else if prog.codespace.iter().any(|r| r.lo.len() == code.len() && code.as_slice() >= r.lo.as_slice() && code.as_slice() <= r.hi.as_slice()) {
                "outside-accepted: a trailing byte is outside its bounds".to_string()
            } else {
                "outside-accepted: other".to_string()
            };
            if cs_reported.insert(cl.clone()) {
                o.fail("C26/codespace-membership", cl, format!("code <{}>: per-byte membership is {exp}, is_valid_code returned {got}; code space {:?}", hx(code), c.codespace));
            }
        }
    }
    if let Some(r) = region {
        // Inside a layout region one defect of the tokenizer makes the whole parse meaningless:
        // report the first disagreement once under the region's class, count the rest as excluded.
        let lookups: Vec<_> = o.fails.iter().filter(|f| f.clause != "C26/no-panic").cloned().collect();
        if let Some(first) = lookups.first() {
            o.fails.retain(|f| f.clause == "C26/no-panic");
            o.fail("C26/program-read-as-written", r, format!("[{}] {}", first.clause, first.detail));
            for cl in ["C26/map-equals-reference", "C26/undefined-code-unmapped", "C26/to-unicode-is-utf16be", "C26/codespace-membership"] {
                o.excluded(cl);
            }
        }
    }
    let (labels, multi, has_range) = entry_labels(&c.entries);
    for l in labels {
        o.label(l);
    }
    o.label(format!("codespace-ranges={}", c.codespace.len()));
    let lens: BTreeSet<usize> = c.codespace.iter().map(|r| r.0.len() / 2).collect();
    o.label_if(lens.len() > 1, "codespace-mixed-width");
    o.nontrivial((has_range || multi) && hits > 0);
    o
}

// ---------------------------------------------------------------------------------------------
// sub `builders`
// ---------------------------------------------------------------------------------------------

#[derive(Clone, Debug, Serialize, Deserialize)]
pub struct BCase {
    /// 0 ToUnicodeCMapBuilder, 1 CidMapping::generate_tounicode_cmap, 2 Type0Font::generate_to_unicode_cmap, 3 FontEmbedder::create_to_unicode_cmap
    pub target: u8,
    pub code_len: u8,
    /// (code hex, destination string); codes distinct
    pub map: Vec<(String, String)>,
    /// target 0: entries added through add_single_byte_mapping (index into `map`); target 1: entries given through cid_to_unicode (single scalar) instead of cid_to_unicode_str
    pub alt_api: Vec<bool>,
    /// target 1: shadowed single-scalar entries for CIDs that also have a string (string must win); target 2: CIDs mapped but not used (must not appear)
    pub decoys: Vec<(String, String)>,
}

fn target_name(t: u8) -> &'static str {
    match t {
        0 => "ToUnicodeCMapBuilder",
        1 => "CidMapping",
        2 => "Type0Font",
        _ => "FontEmbedder",
    }
}

fn generate_program(c: &BCase) -> Result<Vec<u8>, String> {
    match c.target {
        0 => {
            let mut b = ToUnicodeCMapBuilder::new(c.code_len as usize);
            for (i, (code, s)) in c.map.iter().enumerate() {
                let code = unhx(code);
                let single = c.alt_api.get(i).copied().unwrap_or(false) && code[..code.len() - 1].iter().all(|&x| x == 0) && s.chars().count() == 1;
                if single {
                    b.add_single_byte_mapping(code[code.len() - 1], s.chars().next().unwrap());
                } else {
                    b.add_mapping(code, s);
                }
            }
            Ok(b.build())
        }
        1 => {
            let mut m = oxidize_pdf::fonts::CidMapping::new();
            for (i, (code, s)) in c.map.iter().enumerate() {
                let cid = rc::be_val(&unhx(code)) as u16;
                if c.alt_api.get(i).copied().unwrap_or(false) && s.chars().count() == 1 {
                    m.cid_to_unicode.insert(cid, s.chars().next().unwrap() as u32);
                } else {
                    m.cid_to_unicode_str.insert(cid, s.clone());
                }
                m.max_cid = m.max_cid.max(cid);
            }
            for (code, s) in &c.decoys {
                let cid = rc::be_val(&unhx(code)) as u16;
                if m.cid_to_unicode_str.contains_key(&cid) {
                    if let Some(ch) = s.chars().next() {
                        m.cid_to_unicode.insert(cid, ch as u32);
                    }
                }
            }
            Ok(m.generate_tounicode_cmap())
        }
        2 => {
            let mut f = oxidize_pdf::fonts::Type0Font::new(oxidize_pdf::fonts::Font::new("Gen"));
            f.cid_to_unicode.clear();
            f.unicode_to_cid.clear();
            f.used_cids.clear();
            for (code, s) in &c.map {
                let cid = rc::be_val(&unhx(code)) as u16;
                let ch = s.chars().next().ok_or("empty")?;
                f.cid_to_unicode.insert(cid, ch);
                f.used_cids.insert(cid);
            }
            for (code, s) in &c.decoys {
                let cid = rc::be_val(&unhx(code)) as u16;
                if !f.cid_to_unicode.contains_key(&cid) {
                    if let Some(ch) = s.chars().next() {
                        f.cid_to_unicode.insert(cid, ch);
                    }
                }
            }
            Ok(f.generate_to_unicode_cmap())
        }
        _ => {
            let mut font = oxidize_pdf::fonts::Font::new("Gen");
            let mut text = String::new();
            for (code, s) in &c.map {
                let gid = rc::be_val(&unhx(code)) as u16;
                let ch = s.chars().next().ok_or("empty")?;
                font.glyph_mapping.add_mapping(ch, gid);
                text.push(ch);
            }
            let mut e = oxidize_pdf::fonts::FontEmbedder::new(&font, oxidize_pdf::fonts::EmbeddingOptions::default());
            e.add_used_chars(&text);
            Ok(e.create_to_unicode_cmap())
        }
    }
}

fn bclass(c: &BCase, code: Option<&[u8]>, s: Option<&str>) -> String {
    let mut cl = format!("target={}", target_name(c.target));
    if let Some(s) = s {
        if s.chars().any(|ch| ch as u32 > 0xFFFF) {
            cl.push_str(",non-BMP destination");
        } else if s.chars().count() > 1 {
            cl.push_str(",multi-char destination");
        }
    }
    let _ = code;
    cl
}

pub fn check_builder(c: &BCase) -> Outcome {
    let mut o = Outcome::new();
    o.label(format!("target={}", target_name(c.target)));
    o.label(format!("code-len={}", c.code_len));
    o.label(match c.map.len() {
        0 => "entries=0",
        1..=100 => "entries=1..100",
        _ => "entries>100",
    });
    o.nontrivial(c.map.len() >= 2);
    let any_astral = c.map.iter().any(|(_, s)| s.chars().any(|ch| ch as u32 > 0xFFFF));
    o.label_if(any_astral, "has-non-BMP");
    o.label_if(c.map.iter().any(|(_, s)| s.chars().count() > 1), "has-multi-char");
    let Some(gen) = lib_catch(&mut o, "generator", || generate_program(c)) else { return o };
    let text = match gen {
        Ok(t) => t,
        Err(e) => {
            o.fail("C26/reference-self-check", "builder-case", e);
            return o;
        }
    };
    let expected: BTreeMap<Vec<u8>, Vec<u8>> = c.map.iter().map(|(k, s)| (unhx(k), rc::to_utf16be(s))).collect();
    // (1) emitted program, read by the reference interpreter
    let first_bad = |pred: &dyn Fn(&str) -> bool| c.map.iter().find(|(_, s)| pred(s)).map(|(_, s)| s.clone());
    let astral_s = first_bad(&|s: &str| s.chars().any(|ch| ch as u32 > 0xFFFF));
    let region_class = |c: &BCase| -> String {
        // coarse, stable classes: which generator, and whether the map leaves the BMP / exceeds one block
        let mut cl = format!("target={}", target_name(c.target));
        if any_astral {
            cl.push_str(",non-BMP destination");
        } else if c.map.len() > 100 {
            cl.push_str(",>100 entries");
        }
        cl
    };
    let mut ref_ok = false;
    match rc::interpret(&text) {
        Err(e) => {
            o.fail("C26/emitted-program-valid", region_class(c), format!("reference interpreter cannot read the emitted program: {e}; e.g. destination {:?}", astral_s));
            o.excluded("C26/emitted-program-means-input-map");
            o.excluded("C26/roundtrip-map-equals-input");
            return o;
        }
        Ok(prog) => {
            if !prog.issues.is_empty() {
                o.fail("C26/emitted-program-valid", region_class(c), format!("{} issue(s), first: {}", prog.issues.len(), prog.issues[0]));
                // the meaning of an invalid program is not defined: the deeper clauses are not evaluated on this case
                o.excluded("C26/emitted-program-means-input-map");
                o.excluded("C26/roundtrip-map-equals-input");
                return o;
            }
            let mut got: BTreeMap<Vec<u8>, Vec<u8>> = BTreeMap::new();
            let mut dup = false;
            let mut nonchar = false;
            for d in &prog.defs {
                match d {
                    rc::Def::Char { src, dst } => dup |= got.insert(src.clone(), dst.clone()).is_some(),
                    rc::Def::Range { lo, hi, .. } | rc::Def::RangeArr { lo, hi, .. } => {
                        nonchar = true;
                        if lo.len() == hi.len() && lo.len() <= 4 && rc::be_val(hi) >= rc::be_val(lo) && rc::be_val(hi) - rc::be_val(lo) < 70000 {
                            for v in rc::be_val(lo)..=rc::be_val(hi) {
                                let code = rc::be_bytes(v, lo.len());
                                let cands = prog.candidates(&code);
                                if let Some(cd) = cands.iter().find(|cd| std::ptr::eq(&prog.defs[cd.def_index], d)) {
                                    dup |= got.insert(code, cd.values[0].clone()).is_some();
                                }
                            }
                        }
                    }
                }
            }
            let _ = nonchar;
            if dup {
                o.fail("C26/emitted-program-valid", region_class(c), "a code is defined twice in the emitted program");
            }
            if got != expected {
                let diff = expected.iter().find(|(k, v)| got.get(*k) != Some(v)).map(|(k, v)| format!("code <{}> should be <{}>, program defines {:?}", hx(k), hx(v), got.get(k).map(|x| hx(x)))).or_else(|| got.iter().find(|(k, _)| !expected.contains_key(*k)).map(|(k, v)| format!("extra code <{}> → <{}>", hx(k), hx(v)))).unwrap_or_default();
                o.fail("C26/emitted-program-means-input-map", region_class(c), diff);
            } else {
                ref_ok = prog.issues.is_empty();
            }
            // code space must cover every code
            if expected.keys().any(|k| !prog.in_codespace(k)) {
                o.fail("C26/emitted-program-valid", format!("target={},code outside declared code space", target_name(c.target)), "a source code lies outside the emitted codespacerange");
            }
        }
    }
    let _ = ref_ok;
    // (2) round trip through the library's parser
    let Some(parsed) = lib_catch(&mut o, "CMap::parse", || CMap::parse(&text)) else { return o };
    let lib = match parsed {
        Ok(m) => m,
        Err(e) => {
            o.fail("C26/roundtrip-parse", region_class(c), format!("CMap::parse(build()) → Err({e})"));
            return o;
        }
    };
    let mut pr: BTreeSet<Vec<u8>> = BTreeSet::new();
    for k in expected.keys() {
        for x in neighbours(k) {
            pr.insert(x);
        }
    }
    if c.code_len == 1 {
        for b in 0..=255u8 {
            pr.insert(vec![b]);
        }
    }
    let mut reported = BTreeSet::new();
    for code in &pr {
        let Some(got) = lib_catch(&mut o, "CMap::map", || lib.map(code)) else { continue };
        let exp = expected.get(code);
        if got.as_ref() != exp {
            let s = c.map.iter().find(|(k, _)| unhx(k) == *code).map(|(_, s)| s.as_str());
            let cl = region_class(c);
            let _ = bclass(c, Some(code), s);
            if reported.insert(cl.clone()) {
                o.fail("C26/roundtrip-map-equals-input", cl, format!("code <{}>: input map {:?}, parse(build()).map → {:?}", hx(code), exp.map(|v| hx(v)), got.as_ref().map(|v| hx(v))));
            }
        } else if let (Some(v), Some((_, s))) = (got.as_ref(), c.map.iter().find(|(k, _)| unhx(k) == *code)) {
            let Some(tu) = lib_catch(&mut o, "CMap::to_unicode", || lib.to_unicode(v)) else { continue };
            if tu.as_deref() != Some(s.as_str()) && reported.insert("tu".into()) {
                o.fail("C26/roundtrip-to-unicode", region_class(c), format!("code <{}>: expected {:?}, got {:?}", hx(code), s, tu));
            }
        }
    }
    // every parsed definition must belong to the input map ("exactly")
    for m in &lib.mappings {
        let extra = match m {
            CMapEntry::Single { src, dst } => expected.get(src) != Some(dst),
            CMapEntry::Range { src_start, src_end, .. } => !(expected.contains_key(src_start) && expected.contains_key(src_end)),
        };
        if extra && reported.insert("extra".into()) {
            o.fail("C26/roundtrip-map-equals-input", region_class(c), format!("parsed CMap holds a definition that is not in the input map: {m:?}"));
        }
    }
    o
}

fn bmp_char() -> impl Strategy<Value = char> {
    // by construction, not by rejection (the thorough tier ran into proptest's reject limit): a non-BMP draw is folded into the CJK block
    char_strategy().prop_map(|c| if (c as u32) < 0x10000 && c != '\0' { c } else { char::from_u32(0x4E00 + (c as u32) % 0x5000).unwrap_or('一') })
}

pub fn builder_strategy(astral_percent: u32) -> impl Strategy<Value = BCase> {
    // destination strings: per case either BMP only or with non-BMP characters (steered)
    let ch = || (bmp_char(), char_strategy().prop_map(|c| if c == '\0' { '\u{1}' } else { c }));
    let s1 = ch().prop_map(|(b, a)| (b.to_string(), a.to_string()));
    let sn = prop::collection::vec(ch(), 1..=4).prop_map(|v| {
        let cut = |mut v: Vec<char>| {
            while v.iter().map(|c| c.len_utf16()).sum::<usize>() > 4 {
                v.pop();
            }
            v.into_iter().collect::<String>()
        };
        (cut(v.iter().map(|x| x.0).collect()), cut(v.iter().map(|x| x.1).collect()))
    });
    let size = prop_oneof![1 => Just(0usize), 10 => 1usize..12, 3 => 12usize..100, 2 => 100usize..231];
    (0u8..4, 1u8..=4, size, any::<u32>(), prop_oneof![3 => Just(1u32), 2 => 2u32..40, 1 => 250u32..260], prop::collection::vec((s1, sn, any::<bool>(), any::<bool>()), 231), prop::collection::vec((any::<u16>(), bmp_char()), 0..6), prop::bool::weighted(astral_percent as f64 / 100.0))
        .prop_map(|(target, code_len, n, start, step, strs, decoys, astral)| {
            let code_len = if target == 0 { code_len } else { 2 };
            let space: u64 = 1u64 << (8 * code_len as u32);
            let mut map = Vec::new();
            let mut alt = Vec::new();
            let mut seen = BTreeSet::new();
            let mut seen_ch = BTreeSet::new();
            let mut v = start as u64 % space;
            // start near a byte-carry boundary so consecutive codes cross it
            if step == 1 && code_len >= 2 {
                v = (v & !0xFF) | 0xF0;
            }
            for (s1, sn, multi, alt_api) in strs.into_iter().take(n) {
                let code = v % space;
                v = (v + step as u64) % space;
                if !seen.insert(code) {
                    continue;
                }
                let single_only = target >= 2;
                let (s1, sn) = if astral { (s1.1, sn.1) } else { (s1.0, sn.0) };
                let s = if single_only || !multi { s1 } else { sn };
                if target == 3 {
                    // glyph assignment must be injective in both directions
                    let chh = s.chars().next().unwrap();
                    if !seen_ch.insert(chh) {
                        continue;
                    }
                }
                map.push((hx(&rc::be_bytes(code, code_len as usize)), s));
                alt.push(alt_api);
            }
            let decoys = if map.is_empty() {
                Vec::new()
            } else {
                decoys
                    .into_iter()
                    .map(|(sel, ch): (u16, char)| {
                        let k = rc::be_val(&unhx(&map[pick_idx(sel, map.len())].0));
                        // target 1: a CID that also has a string (the string must win); target 2: a neighbouring CID that is mapped but not used
                        let code = if target == 1 { k } else { (k + 1) & 0xFFFF };
                        (hx(&rc::be_bytes(code, 2)), ch.to_string())
                    })
                    .collect()
            };
            BCase { target, code_len, map, alt_api: alt, decoys }
        })
        .boxed()
}


// ---------------------------------------------------------------------------------------------
// sub `document` — the CMap as /ToUnicode of a font in a synthesized PDF, read through the public
// text extraction (text::extraction → extraction_cmap::decode_text_with_font → CMap::map/to_unicode)
// ---------------------------------------------------------------------------------------------

#[derive(Clone, Debug, Serialize, Deserialize)]
pub struct DCase {
    /// the CMap program, one char per byte
    pub text: String,
    pub code_len: u8,
    pub entries: Vec<Entry>,
    /// codes shown on the page (hex), all defined
    pub shown: Vec<String>,
    /// the codes are split into this many text-showing operators
    pub pieces: u8,
    pub compress: bool,
    pub tags: Vec<String>,
}

/// Blocks of characters that text extraction passes through unchanged (no white space, controls,
/// combining marks, ligatures or compatibility forms), as (first, count).
const SAFE_BLOCKS: [(u32, u32); 8] = [(0x41, 26), (0x61, 26), (0x30, 10), (0x3B1, 17), (0x4E00, 20000), (0x3041, 80), (0x1F600, 80), (0x20000, 4000)];

fn safe_char(block: u8, off: u16) -> (char, u32) {
    let (first, count) = SAFE_BLOCKS[pick_idx((block as u16) << 8, SAFE_BLOCKS.len())];
    let k = (off as u32 * count) >> 16;
    (char::from_u32(first + k).unwrap(), count - 1 - k)
}

#[derive(Clone, Debug)]
struct DocEntryRaw {
    kind: u8,
    start: u16,
    span: u8,
    chars: Vec<(u8, u16)>,
}

pub fn document_strategy() -> impl Strategy<Value = DCase> {
    let er = (0u8..10, any::<u16>(), 0u8..24, prop::collection::vec((any::<u8>(), any::<u16>()), 1..=4)).prop_map(|(kind, start, span, chars)| DocEntryRaw { kind, start, span, chars });
    (prop_oneof![2 => Just(1u8), 3 => Just(2u8), 2 => Just(0u8)], prop::collection::vec(er, 1..10), layout_strategy(), prop::collection::vec(any::<u16>(), 1..30), 1u8..4, any::<bool>())
        .prop_map(|(code_len, raws, mut layout, picks, pieces, compress)| {
            // the two layout regions with a listed tokenizer defect are covered by sub `cmaps`
            layout.nonutf8 = false;
            if layout.eol == 2 {
                layout.comments = false;
            }
            // code_len 0 = the mixed-width Shift-JIS code space <00><80> <8140><9FFC> <A0><DF> <E040><FCFC>
            let mut entries = Vec::new();
            let mut taken: Vec<(usize, u64, u64)> = Vec::new();
            for r in &raws {
                let (n, lo, room) = if code_len == 0 {
                    let (b0, b1) = ((r.start >> 8) as u8, r.start as u8);
                    if r.span & 1 == 0 {
                        let (l, h) = if b0 & 1 == 0 { (0x00, 0x80) } else { (0xA0, 0xDF) };
                        let c = scale(b1, l, h);
                        (1usize, c as u64, (h - c) as u32)
                    } else {
                        let (l, h) = if b0 & 1 == 0 { (0x81, 0x9F) } else { (0xE0, 0xFC) };
                        let c0 = scale(b0, l, h);
                        let c1 = scale(b1, 0x40, 0xFC);
                        (2usize, (c0 as u64) << 8 | c1 as u64, (0xFC - c1) as u32)
                    }
                } else {
                    let n = code_len as usize;
                    let lo = (r.start as u64) & ((1u64 << (8 * n)) - 1);
                    // stay inside one last-byte row (the legal bfrange form)
                    (n, lo, (0xFF - (lo & 0xFF)) as u32)
                };
                // destination: 1–4 units of safe characters; the last one has `after` successors in its block
                let mut chars: Vec<char> = Vec::new();
                let mut after = 0u32;
                for (b, o) in &r.chars {
                    let (ch, aft) = safe_char(*b, *o);
                    if chars.iter().map(|c| c.len_utf16()).sum::<usize>() + ch.len_utf16() > 4 {
                        break;
                    }
                    chars.push(ch);
                    after = aft;
                }
                let last = *chars.last().unwrap();
                let low_room = 0xFF - (rc::to_utf16be(&last.to_string()).last().copied().unwrap() as u32);
                let entry = match r.kind {
                    0..=3 => Entry::Char { src: hx(&rc::be_bytes(lo, n)), dst: hx(&rc::to_utf16be(&chars.iter().collect::<String>())) },
                    4..=6 => {
                        let span = (r.span as u32 >> 1).min(room).min(after).min(low_room);
                        Entry::Range { lo: hx(&rc::be_bytes(lo, n)), hi: hx(&rc::be_bytes(lo + span as u64, n)), dst: hx(&rc::to_utf16be(&chars.iter().collect::<String>())) }
                    }
                    _ => {
                        let span = (r.span as u32 >> 1).min(room).min(11);
                        let mut dsts = Vec::new();
                        for q in 0..=span {
                            // rotate the characters and move the last one forward inside its block
                            let mut cs = chars.clone();
                            let l = cs.len();
                            cs.rotate_left(q as usize % l);
                            let step = q.min(after).min(low_room);
                            let mut v = rc::to_utf16be(&cs[..l - 1].iter().collect::<String>());
                            let moved = char::from_u32(last as u32 + step).unwrap();
                            if l > 1 && q as usize % l != 0 {
                                // `last` is not at the end after rotation: keep the rotated order, no arithmetic
                                v = rc::to_utf16be(&cs.iter().collect::<String>());
                            } else {
                                v.extend(rc::to_utf16be(&moved.to_string()));
                            }
                            dsts.push(hx(&v));
                        }
                        Entry::Arr { lo: hx(&rc::be_bytes(lo, n)), hi: hx(&rc::be_bytes(lo + span as u64, n)), dsts }
                    }
                };
                let (a, b) = match &entry {
                    Entry::Char { src, .. } => (rc::be_val(&unhx(src)), rc::be_val(&unhx(src))),
                    Entry::Range { lo, hi, .. } | Entry::Arr { lo, hi, .. } => (rc::be_val(&unhx(lo)), rc::be_val(&unhx(hi))),
                };
                if taken.iter().any(|t| t.0 == n && t.1 <= b && a <= t.2) {
                    continue;
                }
                taken.push((n, a, b));
                entries.push(entry);
            }
            let cs: Vec<(Vec<u8>, Vec<u8>)> = if code_len == 0 {
                vec![(vec![0x00], vec![0x80]), (vec![0x81, 0x40], vec![0x9F, 0xFC]), (vec![0xA0], vec![0xDF]), (vec![0xE0, 0x40], vec![0xFC, 0xFC])]
            } else {
                vec![(vec![0u8; code_len as usize], vec![0xFFu8; code_len as usize])]
            };
            let text = render(&cs, &entries, &layout);
            // defined codes, in order
            let mut defined: Vec<(usize, u64)> = Vec::new();
            for (n, a, b) in &taken {
                for v in *a..=*b {
                    defined.push((*n, v));
                }
            }
            let shown: Vec<String> = picks
                .iter()
                .map(|p| {
                    let (n, v) = defined[pick_idx(*p, defined.len())];
                    hx(&rc::be_bytes(v, n))
                })
                .collect();
            let mut tags = vec![format!("eol={}", ["LF", "CRLF", "CR"][layout.eol as usize]), format!("join={}", ["entry-per-line", "block-per-line", "one-line"][layout.join as usize])];
            if layout.comments {
                tags.push("comments".into());
            }
            DCase { text: l1(&text), code_len, entries, shown, pieces, compress, tags }
        })
        .boxed()
}

fn build_pdf(c: &DCase) -> Vec<u8> {
    use crate::refpdf::synth::{self, Builder};
    use crate::refpdf::Obj;
    let name = |s: &str| Obj::Name(s.as_bytes().to_vec());
    let mut b = Builder::new("1.7");
    b.add_object(1, 0, &Obj::Dict(synth::dict(vec![("Type", name("Catalog")), ("Pages", Obj::Ref(2, 0))])));
    b.add_object(2, 0, &Obj::Dict(synth::dict(vec![("Type", name("Pages")), ("Kids", Obj::Arr(vec![Obj::Ref(3, 0)])), ("Count", Obj::Int(1))])));
    let res = synth::dict(vec![("Font", Obj::Dict(synth::dict(vec![("F1", Obj::Ref(5, 0))])))]);
    b.add_object(
        3,
        0,
        &Obj::Dict(synth::dict(vec![("Type", name("Page")), ("Parent", Obj::Ref(2, 0)), ("MediaBox", synth::arr_nums(&[0.0, 0.0, 612.0, 792.0])), ("Resources", Obj::Dict(res)), ("Contents", Obj::Ref(4, 0))])),
    );
    // content: the codes in `pieces` text-showing operators on one line
    let mut content = String::from("BT\n/F1 12 Tf\n72 700 Td\n");
    let per = c.shown.len().div_ceil(c.pieces.max(1) as usize).max(1);
    for chunk in c.shown.chunks(per) {
        content.push('<');
        for code in chunk {
            content.push_str(code);
        }
        content.push_str("> Tj\n");
    }
    content.push_str("ET\n");
    b.add_object(4, 0, &synth::stream(synth::dict(vec![]), content.into_bytes()));
    if c.code_len == 1 {
        b.add_object(5, 0, &Obj::Dict(synth::dict(vec![("Type", name("Font")), ("Subtype", name("Type1")), ("BaseFont", name("Helvetica")), ("ToUnicode", Obj::Ref(6, 0))])));
    } else {
        b.add_object(
            5,
            0,
            &Obj::Dict(synth::dict(vec![("Type", name("Font")), ("Subtype", name("Type0")), ("BaseFont", name("Gen")), ("Encoding", name(if c.code_len == 0 { "90ms-RKSJ-H" } else { "Identity-H" })), ("DescendantFonts", Obj::Arr(vec![Obj::Ref(7, 0)])), ("ToUnicode", Obj::Ref(6, 0))])),
        );
        let ordering: &[u8] = if c.code_len == 0 { b"Japan1" } else { b"Identity" };
        let info = synth::dict(vec![("Registry", Obj::Str(b"Adobe".to_vec())), ("Ordering", Obj::Str(ordering.to_vec())), ("Supplement", Obj::Int(0))]);
        b.add_object(7, 0, &Obj::Dict(synth::dict(vec![("Type", name("Font")), ("Subtype", name("CIDFontType2")), ("BaseFont", name("Gen")), ("CIDSystemInfo", Obj::Dict(info)), ("DW", Obj::Int(1000))])));
    }
    let cmap = unl1(&c.text);
    if c.compress {
        b.add_object(6, 0, &synth::stream(synth::dict(vec![("Filter", name("FlateDecode"))]), synth::zlib(&cmap)));
    } else {
        b.add_object(6, 0, &synth::stream(synth::dict(vec![]), cmap));
    }
    b.finish_classic(&synth::dict(vec![("Root", Obj::Ref(1, 0))]));
    b.out.clone()
}

pub fn check_document(c: &DCase) -> Outcome {
    let mut o = Outcome::new();
    for t in &c.tags {
        o.label(format!("doc:{t}"));
    }
    o.label(format!("doc:code-bytes={}", c.code_len));
    o.label(if c.compress { "doc:tounicode-flate" } else { "doc:tounicode-plain" });
    let (labels, _, _) = entry_labels(&c.entries);
    for l in labels {
        o.label(format!("doc:{l}"));
    }
    o.nontrivial(c.shown.len() >= 2);
    let prog = match rc::interpret(&unl1(&c.text)) {
        Ok(p) if p.issues.is_empty() && p.defs == c.entries.iter().map(to_def).collect::<Vec<_>>() => p,
        other => {
            o.fail("C26/reference-self-check", "document-case", format!("{:?}", other.map(|p| p.issues)));
            return o;
        }
    };
    let mut expected = String::new();
    for code in &c.shown {
        let cands = prog.candidates(&unhx(code));
        let v = match cands.as_slice() {
            [one] if one.values.len() == 1 => rc::utf16be(&one.values[0]),
            _ => None,
        };
        let Some(v) = v else {
            o.fail("C26/reference-self-check", "document-case", format!("shown code {code} is not uniquely defined"));
            return o;
        };
        expected.push_str(&v);
    }
    let pdf = build_pdf(c);
    let class = match c.code_len {
        1 => "simple font, 1-byte codes",
        2 => "Type0 Identity-H font, 2-byte codes",
        _ => "Type0 90ms-RKSJ-H font, mixed 1- and 2-byte codes",
    };
    let got = lib_catch(&mut o, "text extraction", || -> Result<String, String> {
        let reader = oxidize_pdf::parser::PdfReader::new(std::io::Cursor::new(pdf.clone())).map_err(|e| format!("open: {e}"))?;
        let doc = reader.into_document();
        let pages = doc.extract_text().map_err(|e| format!("extract_text: {e}"))?;
        Ok(pages.into_iter().map(|p| p.text).collect::<Vec<_>>().join(""))
    });
    let Some(got) = got else { return o };
    match got {
        Err(e) => o.fail("C26/document-extracts", class, e),
        Ok(t) => {
            let t: String = t.chars().filter(|ch| !ch.is_whitespace()).collect();
            if t != expected {
                o.fail("C26/document-text-equals-defined", class, format!("codes {:?}: the CMap defines {expected:?}, extraction returned {t:?}", c.shown));
            }
        }
    }
    o
}


// ---------------------------------------------------------------------------------------------
// sub `fmt12` — fonts/cmap_utils.rs: the shared TrueType cmap format 12 reader (anchor file of
// the property; code point → glyph rather than code → Unicode). Well-formed subtables only,
// plus truncations of them (value or error).
// ---------------------------------------------------------------------------------------------

#[derive(Clone, Debug, Serialize, Deserialize)]
pub struct FCase {
    /// bytes before the subtable (the reader is given an offset into the whole cmap table)
    pub lead: u8,
    /// groups (startCharCode, endCharCode, startGlyphID), ascending and disjoint
    pub groups: Vec<(u32, u32, u32)>,
    /// code points of the optional filter
    pub filter: Option<Vec<u32>>,
    /// cut the table to this many bytes after the lead (None = whole)
    pub cut: Option<u16>,
}

pub fn check_fmt12(c: &FCase) -> Outcome {
    let mut o = Outcome::new();
    let mut t = vec![0xA5u8; c.lead as usize];
    let len = 16 + 12 * c.groups.len() as u32;
    t.extend_from_slice(&12u16.to_be_bytes());
    t.extend_from_slice(&0u16.to_be_bytes());
    t.extend_from_slice(&len.to_be_bytes());
    t.extend_from_slice(&0u32.to_be_bytes());
    t.extend_from_slice(&(c.groups.len() as u32).to_be_bytes());
    for (a, b, g) in &c.groups {
        t.extend_from_slice(&a.to_be_bytes());
        t.extend_from_slice(&b.to_be_bytes());
        t.extend_from_slice(&g.to_be_bytes());
    }
    let whole = c.cut.map(|k| k as usize >= t.len() - c.lead as usize).unwrap_or(true);
    if let Some(k) = c.cut {
        t.truncate(c.lead as usize + k as usize);
    }
    o.label(if whole { "fmt12:whole" } else { "fmt12:truncated" });
    o.label(if c.filter.is_some() { "fmt12:filtered" } else { "fmt12:unfiltered" });
    o.label(format!("fmt12:groups={}", c.groups.len().min(5)));
    o.nontrivial(c.groups.len() >= 2);
    let filter: Option<std::collections::HashSet<u32>> = c.filter.as_ref().map(|f| f.iter().copied().collect());
    let Some(res) = lib_catch(&mut o, "parse_cmap_format_12_filtered", || oxidize_pdf::fonts::cmap_utils::parse_cmap_format_12_filtered(&t, c.lead as usize, filter.as_ref())) else { return o };
    if !whole {
        // value or error; a value must still be a sub-map of the table's meaning
        if let Ok(m) = res {
            for (cp, gid) in &m {
                let exp = c.groups.iter().find(|(a, b, _)| a <= cp && cp <= b).map(|(a, _, g)| g + (cp - a));
                if exp != Some(*gid as u32) {
                    o.fail("C26/fmt12-equals-reference", "truncated", format!("code point {cp:#x} → glyph {gid}, table says {exp:?}"));
                    break;
                }
            }
        }
        return o;
    }
    let m = match res {
        Ok(m) => m,
        Err(e) => {
            o.fail("C26/fmt12-equals-reference", "whole-table-rejected", format!("{e}"));
            return o;
        }
    };
    // reference: OpenType cmap format 12 — glyph = startGlyphID + (c − startCharCode); glyph 0 means missing
    let mut exp: BTreeMap<u32, u16> = BTreeMap::new();
    for (a, b, g) in &c.groups {
        for cp in *a..=*b {
            let gid = g + (cp - a);
            if gid == 0 || gid > 0xFFFF {
                continue;
            }
            if filter.as_ref().map(|f| f.contains(&cp)).unwrap_or(true) {
                exp.insert(cp, gid as u16);
            }
        }
    }
    let got: BTreeMap<u32, u16> = m.into_iter().collect();
    if got != exp {
        let d = exp.iter().find(|(k, v)| got.get(*k) != Some(v)).map(|(k, v)| format!("code point {k:#x}: expected glyph {v}, got {:?}", got.get(k))).or_else(|| got.iter().find(|(k, _)| !exp.contains_key(*k)).map(|(k, v)| format!("extra code point {k:#x} → {v}"))).unwrap_or_default();
        o.fail("C26/fmt12-equals-reference", if c.filter.is_some() { "filtered" } else { "unfiltered" }, d);
    }
    o
}

pub fn fmt12_strategy() -> impl Strategy<Value = FCase> {
    let group = (prop_oneof![3 => 1u32..40, 1 => 40u32..3000, 1 => 0x8000u32..0x20000], prop_oneof![4 => 0u32..6, 2 => 6u32..300], prop_oneof![5 => 0u32..2000, 1 => 0xFF00u32..0xFFFF, 1 => Just(0u32)]);
    (0u8..40, prop::collection::vec(group, 0..8), prop::option::weighted(0.4, prop::collection::vec((any::<u16>(), 0u32..4), 0..12)), prop::option::weighted(0.2, 0u16..120))
        .prop_map(|(lead, gs, filt, cut)| {
            let mut groups = Vec::new();
            let mut next = 0u32;
            for (gap, span, gid) in gs {
                let a = next + gap;
                let b = a + span;
                if b > 0x10FFFF {
                    break;
                }
                // glyph ids stay inside the 16-bit glyph space of a font (numGlyphs ≤ 65535)
                let gid = gid.min(0xFFFF - span.min(0xFFFF));
                groups.push((a, b, gid));
                next = b + 1;
            }
            let filter = filt.map(|f| {
                if groups.is_empty() {
                    return Vec::new();
                }
                f.into_iter()
                    .map(|(sel, d)| {
                        let g = groups[pick_idx(sel, groups.len())];
                        // inside, at the edges, or just past the group
                        (g.0 + d.min(g.1 - g.0 + 1)).min(0x10FFFF)
                    })
                    .collect()
            });
            FCase { lead, groups, filter, cut }
        })
        .boxed()
}

// ---------------------------------------------------------------------------------------------
// sub `robust`
// ---------------------------------------------------------------------------------------------

#[derive(Clone, Debug, Serialize, Deserialize)]
pub struct RCase {
    /// input, one char per byte
    pub text: String,
    pub origin: String,
}

pub fn check_robust(c: &RCase) -> Outcome {
    let mut o = Outcome::new();
    let bytes = unl1(&c.text);
    o.label(format!("origin={}", c.origin));
    let utf8 = std::str::from_utf8(&bytes).is_ok();
    o.label(if utf8 { "utf8" } else { "not-utf8" });
    o.nontrivial(utf8 && bytes.contains(&b'<'));
    let non_ascii_in_hex = {
        // a '<' … '>' stretch holding a byte ≥ 0x80
        let mut inside = false;
        let mut found = false;
        for &b in &bytes {
            match b {
                b'<' => inside = true,
                b'>' => inside = false,
                x if x >= 0x80 && inside => found = true,
                _ => {}
            }
        }
        found
    };
    o.label_if(utf8 && non_ascii_in_hex, "non-ascii-inside-hex-string");
    let Some(parsed) = lib_catch(&mut o, "CMap::parse", || CMap::parse(&bytes)) else { return o };
    let lib = match parsed {
        Ok(m) => {
            o.label("parse=Ok");
            m
        }
        Err(_) => {
            o.label("parse=Err");
            return o;
        }
    };
    o.label_if(!lib.mappings.is_empty(), "parsed-with-mappings");
    let mut pr: BTreeSet<Vec<u8>> = BTreeSet::new();
    for b in (0..=255u8).step_by(5) {
        pr.insert(vec![b]);
        pr.insert(vec![0, b]);
    }
    let mut long_src = false;
    for m in lib.mappings.iter().take(40) {
        let (a, b) = match m {
            CMapEntry::Single { src, .. } => (src.clone(), src.clone()),
            CMapEntry::Range { src_start, src_end, .. } => (src_start.clone(), src_end.clone()),
        };
        for x in [a, b] {
            if x.is_empty() {
                pr.insert(x);
                continue;
            }
            if x.len() > 4 {
                long_src = true;
            }
            if x.len() <= 8 {
                for y in neighbours(&x) {
                    pr.insert(y);
                }
            } else {
                let mut y = x.clone();
                pr.insert(x);
                let l = y.len() - 1;
                y[l] = y[l].wrapping_add(1);
                pr.insert(y);
            }
        }
    }
    o.label_if(long_src, "source-code-longer-than-4-bytes");
    for r in lib.codespace_ranges.iter().take(8) {
        pr.insert(r.start.clone());
        pr.insert(r.end.clone());
    }
    for code in &pr {
        if let Some(Some(v)) = lib_catch(&mut o, "CMap::map", || lib.map(code)) {
            lib_catch(&mut o, "CMap::to_unicode", || lib.to_unicode(&v));
        }
        lib_catch(&mut o, "CMap::is_valid_code", || lib.is_valid_code(code));
    }
    // at most one failure per signature
    let mut seen = BTreeSet::new();
    o.fails.retain(|f| seen.insert(f.signature()));
    o
}

fn soup_piece() -> impl Strategy<Value = String> {
    prop_oneof![
        6 => prop::sample::select(vec!["<", ">", "[", "]", "/", "%", "(", ")", "<<", ">>", " ", "\n", "\r", "\t", "{", "}", "\\", "-", "~"]).prop_map(String::from),
        6 => "[0-9a-fA-F]{1,9}",
        3 => prop::sample::select(vec!["begincodespacerange", "endcodespacerange", "beginbfchar", "endbfchar", "beginbfrange", "endbfrange", "usecmap", "begincmap", "endcmap", "def", "/CMapName", "/WMode", "/Identity-H", "/Adobe-Japan1-UCS2", "begincidrange", "endcidrange", "beginnotdefrange"]).prop_map(String::from),
        2 => prop::sample::select(vec!["Æ", "é", "中", "\u{1F600}", "\u{80}", "\u{7FF}", "o", "x", "g", "\u{0}"]).prop_map(String::from),
        2 => "<[0-9a-fA-F]{0,20}>",
        1 => "<[0-9a-f ]{0,6}[Æé中o/][0-9a-f/Æ]{0,6}>",
        1 => "-?[0-9]{1,22}",
    ]
}

#[derive(Clone, Debug)]
enum Mutation {
    DeleteTok(u16),
    DupTok(u16),
    SwapTok(u16),
    ReplaceTok(u16, String),
    InsertTok(u16, String),
    Truncate(u16),
    InsertChar(u16, char),
    LongHex(u16, u8),
}

fn mutation() -> impl Strategy<Value = Mutation> {
    prop_oneof![
        3 => any::<u16>().prop_map(Mutation::DeleteTok),
        2 => any::<u16>().prop_map(Mutation::DupTok),
        2 => any::<u16>().prop_map(Mutation::SwapTok),
        3 => (any::<u16>(), soup_piece()).prop_map(|(i, s)| Mutation::ReplaceTok(i, s)),
        3 => (any::<u16>(), soup_piece()).prop_map(|(i, s)| Mutation::InsertTok(i, s)),
        2 => any::<u16>().prop_map(Mutation::Truncate),
        3 => (any::<u16>(), prop::sample::select(vec!['Æ', 'é', '中', '\u{1F600}', '<', '>', '[', ']', '%', '(', '\u{80}'])).prop_map(|(i, c)| Mutation::InsertChar(i, c)),
        1 => (any::<u16>(), 5u8..40).prop_map(|(i, n)| Mutation::LongHex(i, n)),
    ]
}

/// split a rendered program into lexical pieces (tokens and the white space / comments between them)
fn pieces(text: &[u8]) -> Vec<Vec<u8>> {
    let mut out: Vec<Vec<u8>> = Vec::new();
    let mut cur: Vec<u8> = Vec::new();
    let mut in_hex = false;
    for &b in text {
        if in_hex {
            cur.push(b);
            if b == b'>' {
                in_hex = false;
                out.push(std::mem::take(&mut cur));
            }
            continue;
        }
        match b {
            b'<' => {
                if !cur.is_empty() {
                    out.push(std::mem::take(&mut cur));
                }
                cur.push(b);
                in_hex = true;
            }
            b' ' | b'\n' | b'\r' | b'\t' | b'[' | b']' => {
                if !cur.is_empty() {
                    out.push(std::mem::take(&mut cur));
                }
                out.push(vec![b]);
            }
            _ => cur.push(b),
        }
    }
    if !cur.is_empty() {
        out.push(cur);
    }
    out
}

fn apply_mutations(text: &[u8], muts: &[Mutation]) -> Vec<u8> {
    let mut p = pieces(text);
    for m in muts {
        if p.is_empty() {
            break;
        }
        match m {
            Mutation::DeleteTok(i) => {
                let k = pick_idx(*i, p.len());
                p.remove(k);
            }
            Mutation::DupTok(i) => {
                let k = pick_idx(*i, p.len());
                let t = p[k].clone();
                p.insert(k, t);
            }
            Mutation::SwapTok(i) => {
                if p.len() >= 2 {
                    let k = pick_idx(*i, p.len() - 1);
                    p.swap(k, k + 1);
                }
            }
            Mutation::ReplaceTok(i, s) => {
                let k = pick_idx(*i, p.len());
                p[k] = s.as_bytes().to_vec();
            }
            Mutation::InsertTok(i, s) => {
                let k = pick_idx(*i, p.len());
                p.insert(k, s.as_bytes().to_vec());
            }
            Mutation::Truncate(i) => {
                let k = pick_idx(*i, p.len());
                p.truncate(k + 1);
            }
            Mutation::InsertChar(i, ch) => {
                let k = pick_idx(*i, p.len());
                let pos = pick_idx(i.rotate_left(5), p[k].len() + 1);
                let mut b = [0u8; 4];
                let enc = ch.encode_utf8(&mut b).as_bytes().to_vec();
                let tail = p[k].split_off(pos);
                p[k].extend(enc);
                p[k].extend(tail);
            }
            Mutation::LongHex(i, n) => {
                // the nearest hex string at or after the position becomes n bytes long
                let k = pick_idx(*i, p.len());
                if let Some(q) = (k..p.len()).chain(0..k).find(|&q| p[q].first() == Some(&b'<') && p[q].len() > 2) {
                    let mut s = b"<".to_vec();
                    for j in 0..*n {
                        s.extend(format!("{:02X}", j.wrapping_mul(37)).into_bytes());
                    }
                    s.push(b'>');
                    p[q] = s;
                }
            }
        }
    }
    p.concat()
}

/// seed corpus of the coverage-guided campaign (tools/fuzz.sh c26_cmap): generated CMap programs, intact and mutated
pub fn dump_corpus(dir: &std::path::Path, n: u32, seed: u64) -> std::io::Result<usize> {
    crate::engine::dump_strategy(dir, n, seed, "C26", robust_strategy(1), |c: &RCase| Some(unl1(&c.text)))
}

pub fn robust_strategy(non_ascii_hex_weight: u32) -> impl Strategy<Value = RCase> {
    let w = non_ascii_hex_weight;
    prop_oneof![
        2 => prop::collection::vec(any::<u8>(), 0..120).prop_map(|b| RCase { text: l1(&b), origin: "arbitrary-bytes".into() }),
        2 => "\\PC{0,60}".prop_map(|s| RCase { text: l1(s.as_bytes()), origin: "arbitrary-unicode".into() }),
        6 => prop::collection::vec(soup_piece(), 0..40).prop_map(|v| RCase { text: l1(v.concat().as_bytes()), origin: "alphabet-soup".into() }),
        10 => (strategy(), prop::collection::vec(mutation(), 1..5)).prop_map(|(c, m)| RCase { text: l1(&apply_mutations(&unl1(&c.text), &m)), origin: "token-mutation".into() }),
        w => (strategy(), any::<u16>(), prop::sample::select(vec!["Æ", "é", "中", "\u{1F600}"]), any::<bool>()).prop_map(|(c, i, ch, pad)| {
            // a multi-byte character inside a hex string, at an odd or even digit offset
            let mut p = pieces(&unl1(&c.text));
            let k = pick_idx(i, p.len());
            if let Some(q) = (k..p.len()).chain(0..k).find(|&q| p[q].first() == Some(&b'<') && p[q].len() > 2) {
                let pos = 1 + pick_idx(i.rotate_left(7), p[q].len() - 1);
                let tail = p[q].split_off(pos);
                p[q].extend(ch.as_bytes());
                if pad {
                    p[q].push(b'0');
                }
                p[q].extend(tail);
            }
            RCase { text: l1(&p.concat()), origin: "non-ascii-in-hex".into() }
        }),
    ]
    .boxed()
}

// ---------------------------------------------------------------------------------------------

fn run(ctx: &Ctx) {
    if let Err(e) = rc::self_test() {
        eprintln!("[C26] reference interpreter self test failed: {e}");
        ctx.note(format!("reftab_cmap self test failed: {e}"));
        std::process::exit(2);
    }
    ctx.run_sub("cmaps", ctx.tier.pick(30_000, 400_000), strategy, check);
    ctx.run_sub("builders", ctx.tier.pick(10_000, 120_000), || builder_strategy(12), check_builder);
    ctx.run_sub("document", ctx.tier.pick(1_500, 30_000), document_strategy, check_document);
    ctx.run_sub("fmt12", ctx.tier.pick(1_500, 30_000), fmt12_strategy, check_fmt12);
    // behind the listed parse_hex panic only ~5 % of the inputs are aimed at it
    let aimed = if ctx.known_sig("C26/no-panic|src/text/cmap.rs: end byte index N is not a char boundary") { 1 } else { 3 };
    ctx.run_sub("robust", ctx.tier.pick(20_000, 500_000), move || robust_strategy(aimed), check_robust);
}

fn replay(ctx: &Ctx, sub: &str, case: &Value) -> Result<Outcome, String> {
    match sub.trim_start_matches("replay:") {
        "cmaps" => ctx.replay_case::<Case, _>(case, check),
        "builders" => ctx.replay_case::<BCase, _>(case, check_builder),
        "robust" => ctx.replay_case::<RCase, _>(case, check_robust),
        "document" => ctx.replay_case::<DCase, _>(case, check_document),
        "fmt12" => ctx.replay_case::<FCase, _>(case, check_fmt12),
        s => Err(format!("unknown sub-check {s}")),
    }
}
