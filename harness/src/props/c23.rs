//! C23 — cryptographic building blocks match their reference definitions.
//!
//! Differential against `refcrypto` (harness-side, written from RFC 1321 / FIPS 180-4 / FIPS-197 /
//! ISO 32000-1 §7.6 / ISO 32000-2 §7.6.4) of every public building block in
//! `oxidize_pdf::encryption::{Rc4, Aes, StandardSecurityHandler, Permissions,
//! compute_hash_r6_algorithm_2b}` and of the public unlock path `parser::EncryptionHandler`.
use crate::engine::{self, Ctx, Outcome, PropertyDef, Tier};
use crate::refcrypto::{self as rc, prim};
use crate::refpdf;
use oxidize_pdf::encryption::{
    compute_hash_r6_algorithm_2b, Aes, AesKey, EncryptionKey, OwnerPassword, PermissionFlags, Permissions, Rc4, Rc4Key, SecurityHandlerRevision,
    StandardSecurityHandler, UserPassword,
};
use oxidize_pdf::objects::ObjectId;
use oxidize_pdf::parser::{EncryptionHandler, PdfDictionary, PdfName, PdfObject, PdfString};
use proptest::prelude::*;
use serde::{Deserialize, Serialize};
use serde_json::{json, Value};

pub fn def() -> PropertyDef {
    PropertyDef {
        id: "C23",
        level: "exploration",
        rule: "proptest sub-checks. rc4: key (5/16/32/1–256/>256/0 bytes) × data (0, 1–15, 16k, 16k±1, ≤64 KiB) × split point; aes: constructor 128/256 × key (right length + invalid lengths) × IV (16 + invalid) × data of the same length classes × arbitrary ciphertext × tampered ciphertext × raw plaintext ending in a block of one repeated byte 0–20 (every PKCS#7 pad length); keys: revision 2–4 × key length (5 for R2, 5–16 for R3/R4) × user/owner/wrong passwords (0–127 bytes UTF-8: empty, ASCII <32, =32, >32, non-ASCII, containing 0x28) × permission word (any u32) × file id (none/0/16/32 bytes) × object id (incl. >24-bit numbers) × data; hash2b: password ≤127 bytes × 8-byte salt × udata (0/48/127 bytes); r5, r6: passwords × file key × four salts × P × EncryptMetadata × 48- or 127-byte /U,/O, both directions (library-made entries verified by the reference with the library's own salts, reference-made entries verified by the library); unlock, unlock6: reference-built /Encrypt dictionaries R2–R6 (RC4 40–128, V2, AESV2, AESV3, EncryptMetadata both ways) opened through parser::EncryptionHandler with user, owner and wrong passwords; perms: any u32 × setter sequence; contract: invalid handler key_length / file-key length / entry lengths / >127-byte passwords / odd 2.B argument lengths. Non-trivial: rc4/aes — valid key (and IV) and ≥1 data byte; keys/unlock/r5/r6 — at least one non-empty password; hash2b, contract — always; perms — word ≠ 0xFFFFF0C0. Distinct by hash of the case.",
        assumptions: &[
            "passwords are compared at byte level: the UTF-8 bytes of the API's String are what Algorithms 2/3 pad (R2–R4) and what Algorithms 2.A/8/9 hash (R5/R6); PDFDocEncoding conversion (R2–R4) and SASLprep (R6) are not asserted — generated non-ASCII characters are SASLprep/NFKC-invariant",
            "passwords are 0–127 bytes (the property's quantifier); longer ones are only used for the no-panic contract",
            "an empty owner password is read either literally or as 'no owner password → use the user password' (Algorithm 3 step a); both /O values are accepted",
            "bytes 16–31 of /U for R3/R4 are arbitrary (Algorithm 5 step f); only the first 16 are compared and validators must ignore the rest",
            "the 4 trailing bytes of the /Perms plaintext are arbitrary (Algorithm 10)",
            "for ciphertext whose PKCS#7 padding is invalid the library may return an error or a prefix of the raw CBC plaintext",
            "R2 is generated with 40-bit keys only; R3/R4 with 40–128-bit keys in multiples of 8 (the struct's fields are public and the library itself builds handlers from /Length)",
        ],
        trusted_base: &[
            "refcrypto::prim (MD5, SHA-256/384/512, AES, CBC, PKCS#7, RC4 from the specifications; published vectors at start-up; hashes cross-checked against Python hashlib/OpenSSL in the thorough tier)",
            "refcrypto Algorithms 1, 2, 2.A, 2.B, 3–13 (transcription of ISO 32000-1/-2)",
        ],
        run,
        replay,
    }
}

// ------------------------------------------------------------------------------------------------
// shared pieces

/// Compact description of a byte string (keeps case JSON small for 64 KiB inputs; shrinks to zeros / length 0).
#[derive(Clone, Debug, Serialize, Deserialize, PartialEq)]
pub struct Data {
    pub len: u32,
    /// 0 zeros, 1 constant byte (seed & 0xFF), 2 pseudo-random (splitmix64 of seed)
    pub mode: u8,
    pub seed: u64,
}

fn splitmix(state: &mut u64) -> u64 {
    *state = state.wrapping_add(0x9E3779B97F4A7C15);
    let mut z = *state;
    z = (z ^ (z >> 30)).wrapping_mul(0xBF58476D1CE4E5B9);
    z = (z ^ (z >> 27)).wrapping_mul(0x94D049BB133111EB);
    z ^ (z >> 31)
}

impl Data {
    pub fn bytes(&self) -> Vec<u8> {
        let n = self.len as usize;
        match self.mode {
            0 => vec![0u8; n],
            1 => vec![self.seed as u8; n],
            _ => {
                let mut s = self.seed;
                let mut v = Vec::with_capacity(n + 8);
                while v.len() < n {
                    v.extend_from_slice(&splitmix(&mut s).to_le_bytes());
                }
                v.truncate(n);
                v
            }
        }
    }
}

fn len_class(n: usize) -> &'static str {
    match n {
        0 => "len=0",
        1..=15 => "len=1..15",
        _ if n % 16 == 0 && n > 2048 => "len=16k,big",
        _ if n % 16 == 0 => "len=16k",
        _ if n % 16 == 1 || n % 16 == 15 => "len=16k±1",
        _ if n > 2048 => "len=big",
        _ => "len=other",
    }
}

fn len_strategy() -> impl Strategy<Value = u32> {
    prop_oneof![
        2 => Just(0u32),
        4 => 1u32..16,
        4 => (1u32..64).prop_map(|k| 16 * k),
        3 => (1u32..64, any::<bool>()).prop_map(|(k, b)| if b { 16 * k + 1 } else { 16 * k - 1 }),
        3 => 1u32..2048,
        1 => prop_oneof![2048u32..=65536, (128u32..=4096).prop_map(|k| 16 * k), Just(65536u32), Just(65535u32)],
    ]
}

fn data_strategy() -> impl Strategy<Value = Data> {
    (len_strategy(), prop_oneof![1 => Just(0u8), 1 => Just(1u8), 6 => Just(2u8)], any::<u64>()).prop_map(|(len, mode, seed)| Data { len, mode, seed })
}

fn small_data_strategy() -> impl Strategy<Value = Data> {
    (prop_oneof![1 => Just(0u32), 3 => 1u32..16, 2 => (1u32..8).prop_map(|k| 16 * k), 3 => 1u32..300], prop_oneof![1 => Just(0u8), 6 => Just(2u8)], any::<u64>())
        .prop_map(|(len, mode, seed)| Data { len, mode, seed })
}

/// Characters whose UTF-8 form is unchanged by SASLprep (NFKC-stable, not mapped, not prohibited).
const NON_ASCII: &[char] = &['é', 'ü', 'ß', 'ñ', 'Ж', 'λ', '中', '日', '€', '😀', 'ø', 'Ω'];

fn fit_bytes(chars: Vec<char>, max: usize) -> String {
    let mut s = String::new();
    for c in chars {
        if s.len() + c.len_utf8() > max {
            break;
        }
        s.push(c);
    }
    s
}

fn ascii_char() -> impl Strategy<Value = char> {
    // '(' (0x28, the first byte of the standard padding string) is kept out of the bulk classes and gets its own class
    prop_oneof![10 => (0x20u8..0x7f).prop_map(|b| if b == 0x28 { 'x' } else { b as char }), 1 => Just('\\'), 1 => Just(')')]
}

/// Passwords of 0–127 bytes in the classes of the property's quantifier.
fn password_strategy() -> impl Strategy<Value = String> {
    let mixed = prop_oneof![3 => ascii_char(), 2 => prop::sample::select(NON_ASCII)];
    // only ASCII before byte 32, so that the 32-byte truncation of Algorithm 2 falls on a character boundary
    let mixed_tail = (prop::collection::vec(ascii_char(), 32..=40), prop::collection::vec(mixed.clone(), 1..40)).prop_map(|(mut a, b)| {
        a.extend(b);
        fit_bytes(a, 127)
    });
    prop_oneof![
        1 => Just(String::new()),
        5 => prop::collection::vec(ascii_char(), 1..32).prop_map(|v| fit_bytes(v, 127)),
        1 => prop::collection::vec(ascii_char(), 32..=32).prop_map(|v| fit_bytes(v, 127)),
        3 => prop::collection::vec(ascii_char(), 33..=127).prop_map(|v| fit_bytes(v, 127)),
        1 => prop::collection::vec(ascii_char(), 127..=127).prop_map(|v| fit_bytes(v, 127)),
        4 => prop::collection::vec(mixed.clone(), 1..12).prop_map(|v| fit_bytes(v, 31)),
        2 => mixed_tail,
        1 => prop::collection::vec(mixed, 24..127).prop_map(|v| fit_bytes(v, 127)),
        // contains '(' somewhere
        1 => (prop::collection::vec(ascii_char(), 0..50), any::<u16>()).prop_map(|(mut v, at)| {
            let i = engine::pick_idx(at, v.len() + 1);
            v.insert(i, '(');
            fit_bytes(v, 127)
        }),
    ]
}

fn pw_class(p: &str) -> &'static str {
    if p.is_empty() {
        "empty"
    } else if !p.is_ascii() {
        if p.len() > 32 {
            "non-ascii,>32"
        } else {
            "non-ascii,<=32"
        }
    } else if p.len() < 32 {
        "ascii,<32"
    } else if p.len() == 32 {
        "ascii,=32"
    } else {
        "ascii,>32"
    }
}

fn perm_strategy() -> impl Strategy<Value = u32> {
    prop_oneof![
        4 => any::<u32>(),
        2 => prop::sample::select(vec![0xFFFF_F0C0u32, 0xFFFF_FFFC, 0, u32::MAX, 0x8000_0000, 0x7FFF_FFFF, 0xFFFF_F0C4, 0xFFFF_FEFC, 1, 0xFFFF_FFFF - 3904]),
        2 => (0u32..0x1000).prop_map(|b| 0xFFFF_F0C0 | (b & 0x0F3C)),
    ]
}

fn id_strategy() -> impl Strategy<Value = Option<Vec<u8>>> {
    prop_oneof![
        1 => Just(None),
        1 => Just(Some(Vec::new())),
        4 => prop::collection::vec(any::<u8>(), 16..=16).prop_map(Some),
        2 => prop::collection::vec(any::<u8>(), 32..=32).prop_map(Some),
    ]
}

fn id_class(id: &Option<Vec<u8>>) -> String {
    match id {
        None => "id=none".into(),
        Some(v) => format!("id={}B", v.len()),
    }
}

fn hex(b: &[u8]) -> String {
    let mut s = String::with_capacity(b.len() * 2);
    for x in b.iter().take(80) {
        s.push_str(&format!("{x:02x}"));
    }
    if b.len() > 80 {
        s.push_str(&format!("…({} bytes)", b.len()));
    }
    s
}

fn first_diff(a: &[u8], b: &[u8]) -> String {
    if a.len() != b.len() {
        return format!("lengths {} vs {}", a.len(), b.len());
    }
    match a.iter().zip(b).position(|(x, y)| x != y) {
        Some(i) => format!("first difference at byte {i} of {}: {:02x} vs {:02x}", a.len(), a[i], b[i]),
        None => "equal".into(),
    }
}

/// Run a library call; a panic becomes a `C23/no-panic` failure with a coarse, caller-chosen class.
fn guard<T>(o: &mut Outcome, api: &str, f: impl FnOnce() -> T) -> Option<T> {
    match engine::catch(f) {
        Ok(v) => Some(v),
        Err((msg, loc)) => {
            o.fail("C23/no-panic", api, format!("panic in {api}: {msg} at {loc}"));
            None
        }
    }
}

/// Like `guard`, with a coarse class (the signature) and the API name only in the detail.
fn cguard<T>(o: &mut Outcome, class: &str, api: &str, f: impl FnOnce() -> T) -> Option<T> {
    match engine::catch(f) {
        Ok(v) => Some(v),
        Err((msg, loc)) => {
            o.fail("C23/no-panic", class, format!("panic in {api}: {msg} at {loc}"));
            None
        }
    }
}

fn revision(rev: u8) -> SecurityHandlerRevision {
    match rev {
        2 => SecurityHandlerRevision::R2,
        3 => SecurityHandlerRevision::R3,
        4 => SecurityHandlerRevision::R4,
        5 => SecurityHandlerRevision::R5,
        _ => SecurityHandlerRevision::R6,
    }
}

fn handler(rev: u8, key_len: usize) -> StandardSecurityHandler {
    // identical to the constructors rc4_40bit/rc4_128bit/aes_128_r4/aes_256_r5/aes_256_r6 for the standard pairs
    StandardSecurityHandler { revision: revision(rev), key_length: key_len }
}

// ------------------------------------------------------------------------------------------------
// sub-check rc4

#[derive(Clone, Debug, Serialize, Deserialize)]
pub struct Rc4Case {
    pub key: Vec<u8>,
    pub data: Data,
    pub split: u32,
}

fn rc4_key_strategy() -> impl Strategy<Value = Vec<u8>> {
    prop_oneof![
        6 => prop::collection::vec(any::<u8>(), 5..=5),
        6 => prop::collection::vec(any::<u8>(), 16..=16),
        3 => prop::collection::vec(any::<u8>(), 32..=32),
        4 => prop::collection::vec(any::<u8>(), 1..=40),
        2 => prop::collection::vec(any::<u8>(), 41..=256),
        1 => prop::collection::vec(any::<u8>(), 257..=300),
        1 => Just(Vec::new()),
    ]
}

fn rc4_strategy() -> impl Strategy<Value = Rc4Case> {
    (rc4_key_strategy(), data_strategy(), any::<u32>()).prop_map(|(key, data, split)| Rc4Case { key, data, split })
}

pub fn check_rc4(c: &Rc4Case) -> Outcome {
    let mut o = Outcome::new();
    let data = c.data.bytes();
    let kl = c.key.len();
    o.label(format!(
        "rc4:key={}",
        match kl {
            0 => "0(invalid)".to_string(),
            5 | 16 | 32 => kl.to_string(),
            1..=256 => "other-valid".to_string(),
            _ => ">256".to_string(),
        }
    ));
    o.label(format!("rc4:{}", len_class(data.len())));
    if kl == 0 {
        // error contract: a value or an error, never a panic (the constructor is infallible by signature)
        o.label("rc4:contract-empty-key");
        guard(&mut o, "Rc4::new,key-len=0", || {
            let mut r = Rc4::new(&Rc4Key::new(Vec::new()));
            r.process(&data)
        });
        return o;
    }
    o.nontrivial(!data.is_empty() && kl <= 256);
    let Some(got) = guard(&mut o, "Rc4::process", || Rc4::new(&Rc4Key::from_slice(&c.key)).process(&data)) else { return o };
    if kl <= 256 {
        let exp = prim::rc4(&c.key, &data);
        if got != exp {
            o.fail("C23/rc4-equals-reference", format!("key-len={}", if matches!(kl, 5 | 16 | 32) { kl.to_string() } else { "other".into() }), first_diff(&got, &exp));
        }
    }
    // inverse law
    let back = Rc4::new(&Rc4Key::new(c.key.clone())).process(&got);
    if back != data {
        o.fail("C23/rc4-inverse", "process(process(x))", first_diff(&back, &data));
    }
    // streaming: two calls on one cipher state continue the keystream
    let split = if data.is_empty() { 0 } else { c.split as usize % (data.len() + 1) };
    let mut r = Rc4::new(&Rc4Key::from_slice(&c.key));
    let mut two = r.process(&data[..split]);
    two.extend(r.process(&data[split..]));
    if two != got {
        o.fail("C23/rc4-streaming", "split-process", format!("split at {split}: {}", first_diff(&two, &got)));
    }
    let mut inplace = data.clone();
    let mut r = Rc4::new(&Rc4Key::from_slice(&c.key));
    r.process_in_place(&mut inplace[..split]);
    r.process_in_place(&mut inplace[split..]);
    if inplace != got {
        o.fail("C23/rc4-streaming", "process_in_place", first_diff(&inplace, &got));
    }
    o
}

// ------------------------------------------------------------------------------------------------
// sub-check aes

#[derive(Clone, Debug, Serialize, Deserialize)]
pub struct AesCase {
    /// which constructor: 128 or 256
    pub bits: u16,
    pub key: Vec<u8>,
    pub iv: Vec<u8>,
    pub data: Data,
    /// arbitrary "ciphertext" for the decrypt-differential (length rounded as generated)
    pub ct: Data,
    /// how to damage the padding of a valid ciphertext: 0 none, else XOR into last plaintext-affecting byte
    pub tamper: u8,
    /// raw plaintext whose last block is this byte repeated (0..=20): every PKCS#7 pad length, valid and invalid
    pub pad_edge: u8,
}

fn aes_strategy() -> impl Strategy<Value = AesCase> {
    let key = |n: usize| {
        prop_oneof![
            12 => prop::collection::vec(any::<u8>(), n..=n),
            1 => prop::sample::select(vec![0usize, 5, 15, 17, 24, 31, 33, 48 - n, 64]).prop_flat_map(|l| prop::collection::vec(any::<u8>(), l..=l)),
        ]
    };
    let iv = prop_oneof![
        14 => prop::collection::vec(any::<u8>(), 16..=16),
        1 => Just(vec![0u8; 16]),
        1 => prop::sample::select(vec![0usize, 8, 15, 17, 32]).prop_flat_map(|l| prop::collection::vec(any::<u8>(), l..=l)),
    ];
    let ct = (prop_oneof![4 => (0u32..12).prop_map(|k| 16 * k), 1 => 0u32..200], any::<u64>()).prop_map(|(len, seed)| Data { len, mode: 2, seed });
    (any::<bool>(), key(16), key(32), iv, data_strategy(), ct, prop_oneof![2 => Just(0u8), 1 => 1u8..=255], 0u8..=20)
        .prop_map(|(b, k16, k32, iv, data, ct, tamper, pad_edge)| if b { AesCase { bits: 128, key: k16, iv, data, ct, tamper, pad_edge } } else { AesCase { bits: 256, key: k32, iv, data, ct, tamper, pad_edge } })
}

pub fn check_aes(c: &AesCase) -> Outcome {
    let mut o = Outcome::new();
    let data = c.data.bytes();
    let want = if c.bits == 128 { 16 } else { 32 };
    let cls = format!("AES-{}", c.bits);
    o.label(format!("aes:{cls}"));
    o.label(format!("aes:{}", len_class(data.len())));
    let key_valid = c.key.len() == want;
    let iv_valid = c.iv.len() == 16;
    o.label_if(!key_valid, "aes:contract-invalid-key-length");
    o.label_if(!iv_valid, "aes:contract-invalid-iv-length");
    let Some(k) = guard(&mut o, "AesKey::new", || if c.bits == 128 { AesKey::new_128(c.key.clone()) } else { AesKey::new_256(c.key.clone()) }) else { return o };
    let k = match (k, key_valid) {
        (Ok(k), true) => k,
        (Err(_), false) => return o, // value or error: error is the documented outcome
        (Err(e), true) => {
            o.fail("C23/aes-key-accepted", cls, format!("{}-byte key rejected: {e}", c.key.len()));
            return o;
        }
        (Ok(_), false) => {
            o.fail("C23/aes-key-length-checked", cls, format!("{}-byte key accepted by the {}-bit constructor", c.key.len(), c.bits));
            return o;
        }
    };
    let aes = Aes::new(k);
    if !iv_valid {
        for (name, r) in [
            ("encrypt_cbc", guard(&mut o, "Aes::encrypt_cbc,bad-iv", || aes.encrypt_cbc(&data, &c.iv).is_ok())),
            ("decrypt_cbc", guard(&mut o, "Aes::decrypt_cbc,bad-iv", || aes.decrypt_cbc(&data, &c.iv).is_ok())),
            ("encrypt_cbc_raw", guard(&mut o, "Aes::encrypt_cbc_raw,bad-iv", || aes.encrypt_cbc_raw(&data, &c.iv).is_ok())),
            ("decrypt_cbc_raw", guard(&mut o, "Aes::decrypt_cbc_raw,bad-iv", || aes.decrypt_cbc_raw(&data, &c.iv).is_ok())),
        ] {
            if r == Some(true) {
                o.fail("C23/aes-iv-length-checked", name, format!("{}-byte IV accepted", c.iv.len()));
            }
        }
        return o;
    }
    o.nontrivial(!data.is_empty());
    let mut iv = [0u8; 16];
    iv.copy_from_slice(&c.iv);
    // --- CBC + PKCS#7 encrypt equals the reference
    let exp = prim::cbc_encrypt(&c.key, &iv, &data).expect("reference accepts 16/32-byte keys");
    let got = guard(&mut o, "Aes::encrypt_cbc", || aes.encrypt_cbc(&data, &iv));
    match &got {
        Some(Ok(g)) => {
            if *g != exp {
                o.fail("C23/aes-cbc-encrypt-equals-reference", format!("{cls},{}", len_class(data.len())), first_diff(g, &exp));
            }
        }
        Some(Err(e)) => o.fail("C23/aes-cbc-encrypt-equals-reference", format!("{cls},error"), format!("encrypt_cbc failed on {} bytes: {e}", data.len())),
        None => {}
    }
    // --- inverse law on the library's own output and on the reference ciphertext
    for (what, ct) in [("own", got.and_then(|r| r.ok())), ("reference", Some(exp.clone()))] {
        let Some(ct) = ct else { continue };
        match guard(&mut o, "Aes::decrypt_cbc", || aes.decrypt_cbc(&ct, &iv)) {
            Some(Ok(p)) => {
                if p != data {
                    o.fail("C23/aes-cbc-inverse", format!("{cls},{what}-ciphertext"), first_diff(&p, &data));
                }
            }
            Some(Err(e)) => o.fail("C23/aes-cbc-inverse", format!("{cls},{what}-ciphertext,error"), format!("decrypt_cbc failed on {} bytes: {e}", ct.len())),
            None => {}
        }
    }
    // --- decrypt differential on arbitrary / tampered ciphertext
    let mut cts: Vec<(&str, Vec<u8>)> = vec![("arbitrary", c.ct.bytes())];
    if c.tamper != 0 && exp.len() >= 16 {
        let mut t = exp.clone();
        // flipping a byte of the second-to-last block (or the IV's role for 1 block: last block itself) damages the padding bytes
        let i = if t.len() >= 32 { t.len() - 17 } else { t.len() - 1 };
        t[i] ^= c.tamper;
        cts.push(("tampered", t));
    }
    {
        // a raw plaintext ending in a block of one repeated byte: pad lengths 1..16 are valid (16 strips the whole block), 0 and 17.. are not
        let mut raw = data[..(data.len() / 16 * 16).min(64)].to_vec();
        raw.extend(std::iter::repeat(c.pad_edge).take(16));
        cts.push(("pad-edge", prim::cbc_encrypt_nopad(&c.key, &iv, &raw).unwrap()));
    }
    for (what, ct) in cts {
        let r = guard(&mut o, "Aes::decrypt_cbc", || aes.decrypt_cbc(&ct, &iv));
        let Some(r) = r else { continue };
        let refp = prim::cbc_decrypt(&c.key, &iv, &ct);
        o.label(format!("aes:decrypt-{what}:{}", if refp.is_some() { "valid-padding" } else { "invalid" }));
        match (refp, r) {
            (Some(p), Ok(g)) => {
                if p != g {
                    o.fail("C23/aes-cbc-decrypt-equals-reference", format!("{cls},{what}"), first_diff(&g, &p));
                }
            }
            (Some(p), Err(e)) => o.fail("C23/aes-cbc-decrypt-equals-reference", format!("{cls},{what},error"), format!("valid padding ({} plaintext bytes) rejected: {e}", p.len())),
            (None, Err(_)) => {}
            (None, Ok(g)) => {
                // lenient unpadding is tolerated, inventing bytes is not
                let raw = prim::cbc_decrypt_nopad(&c.key, &iv, &ct);
                let ok = raw.map(|raw| raw.starts_with(&g)).unwrap_or(false);
                if !ok {
                    o.fail("C23/aes-cbc-decrypt-equals-reference", format!("{cls},{what},invalid-padding-value"), format!("returned {} bytes that are not a prefix of the raw plaintext", g.len()));
                }
            }
        }
    }
    // --- raw CBC (no padding) and ECB
    let aligned = data.len() % 16 == 0;
    let r = guard(&mut o, "Aes::encrypt_cbc_raw", || aes.encrypt_cbc_raw(&data, &iv));
    match (r, aligned) {
        (Some(Ok(g)), true) => {
            let e = prim::cbc_encrypt_nopad(&c.key, &iv, &data).unwrap();
            if g != e {
                o.fail("C23/aes-cbc-raw-equals-reference", format!("{cls},encrypt"), first_diff(&g, &e));
            }
            match guard(&mut o, "Aes::decrypt_cbc_raw", || aes.decrypt_cbc_raw(&e, &iv)) {
                Some(Ok(p)) if p == data => {}
                Some(other) => o.fail("C23/aes-cbc-raw-equals-reference", format!("{cls},decrypt"), format!("{:?}", other.map(|p| first_diff(&p, &data)))),
                None => {}
            }
        }
        (Some(Err(e)), true) => o.fail("C23/aes-cbc-raw-equals-reference", format!("{cls},encrypt,error"), format!("{e}")),
        (Some(Ok(g)), false) => o.fail("C23/aes-raw-length-checked", format!("{cls},cbc_raw"), format!("{} input bytes (not a multiple of 16) gave {} output bytes", data.len(), g.len())),
        _ => {}
    }
    let r = guard(&mut o, "Aes::encrypt_ecb", || aes.encrypt_ecb(&data));
    match (r, aligned) {
        (Some(Ok(g)), true) => {
            let mut e = Vec::with_capacity(data.len());
            for b in data.chunks(16) {
                let mut blk = [0u8; 16];
                blk.copy_from_slice(b);
                e.extend_from_slice(&prim::ecb_encrypt_block(&c.key, &blk).unwrap());
            }
            if g != e {
                o.fail("C23/aes-ecb-equals-reference", format!("{cls},encrypt"), first_diff(&g, &e));
            }
            match guard(&mut o, "Aes::decrypt_ecb", || aes.decrypt_ecb(&e)) {
                Some(Ok(p)) if p == data => {}
                Some(other) => o.fail("C23/aes-ecb-equals-reference", format!("{cls},decrypt"), format!("{:?}", other.map(|p| first_diff(&p, &data)))),
                None => {}
            }
        }
        (Some(Err(e)), true) => o.fail("C23/aes-ecb-equals-reference", format!("{cls},encrypt,error"), format!("{e}")),
        (Some(Ok(g)), false) => o.fail("C23/aes-raw-length-checked", format!("{cls},ecb"), format!("{} input bytes gave {} output bytes", data.len(), g.len())),
        _ => {}
    }
    o
}

// ------------------------------------------------------------------------------------------------
// sub-check keys (revisions 2–4: Algorithms 1–7)

#[derive(Clone, Debug, Serialize, Deserialize)]
pub struct KeyCase {
    pub rev: u8,
    pub key_len: usize,
    pub user: String,
    pub owner: String,
    pub wrong: String,
    pub p: u32,
    pub id: Option<Vec<u8>>,
    pub obj: (u32, u16),
    pub data: Data,
    /// arbitrary bytes 16..32 of a reference-made /U (R3/R4)
    pub u_tail: Vec<u8>,
    pub iv: Vec<u8>,
}

fn obj_strategy() -> impl Strategy<Value = (u32, u16)> {
    (prop_oneof![4 => 1u32..1000, 1 => any::<u32>(), 1 => prop::sample::select(vec![0u32, 255, 256, 65535, 65536, 0x00FF_FFFF, 0x0100_0000, u32::MAX])], prop_oneof![6 => Just(0u16), 1 => any::<u16>(), 1 => Just(65535u16)])
}

fn keys_strategy() -> impl Strategy<Value = KeyCase> {
    let rev_len = prop_oneof![
        3 => Just((2u8, 5usize)),
        4 => Just((3u8, 16usize)),
        4 => Just((4u8, 16usize)),
        1 => (5usize..=16).prop_map(|l| (3u8, l)),
        1 => (5usize..=16).prop_map(|l| (4u8, l)),
    ];
    (
        rev_len,
        password_strategy(),
        password_strategy(),
        password_strategy(),
        perm_strategy(),
        id_strategy(),
        obj_strategy(),
        small_data_strategy(),
        prop::collection::vec(any::<u8>(), 16..=16),
        prop::collection::vec(any::<u8>(), 16..=16),
    )
        .prop_map(|((rev, key_len), user, owner, wrong, p, id, obj, data, u_tail, iv)| KeyCase { rev, key_len, user, owner, wrong, p, id, obj, data, u_tail, iv })
}

fn ref_user_ok(pw: &[u8], o_entry: &[u8], u_entry: &[u8], p: u32, id: &[u8], r: i64, key_len: usize) -> bool {
    let key = rc::alg2_key(pw, o_entry, p as i32, id, r, key_len, true);
    let exp = rc::alg45_u(&key, id, r);
    if r == 2 {
        u_entry.len() >= 32 && exp[..32] == u_entry[..32]
    } else {
        u_entry.len() >= 16 && exp[..16] == u_entry[..16]
    }
}

/// Algorithm 7: authenticate the owner password; returns the recovered padded user password.
fn ref_owner_ok(owner_pw: &[u8], o_entry: &[u8], u_entry: &[u8], p: u32, id: &[u8], r: i64, key_len: usize) -> bool {
    let ok = rc::alg3_owner_key(owner_pw, r, key_len);
    let mut x = o_entry[..32].to_vec();
    if r == 2 {
        x = prim::rc4(&ok, &x);
    } else {
        for i in (0..=19u8).rev() {
            let ki: Vec<u8> = ok.iter().map(|b| b ^ i).collect();
            x = prim::rc4(&ki, &x);
        }
    }
    ref_user_ok(&x, o_entry, u_entry, p, id, r, key_len)
}

/// class of the user password as Algorithm 7 has to recover it from /O (its first 32 bytes, padded)
fn user_pad_class(user: &str) -> &'static str {
    let b = user.as_bytes();
    let head = &b[..b.len().min(32)];
    if b.is_empty() {
        "user=empty"
    } else if head.contains(&0x28) {
        "user-contains-0x28"
    } else if std::str::from_utf8(head).is_err() {
        "user>=32,utf8-split"
    } else {
        "user=plain"
    }
}

pub fn check_keys(c: &KeyCase) -> Outcome {
    let mut o = Outcome::new();
    let r = c.rev as i64;
    let rc_ = format!("R{}", c.rev);
    let h = handler(c.rev, c.key_len);
    let id: Vec<u8> = c.id.clone().unwrap_or_default();
    let id_opt: Option<&[u8]> = c.id.as_deref();
    let data = c.data.bytes();
    o.nontrivial(!c.user.is_empty() || !c.owner.is_empty());
    o.label(format!("keys:{rc_}"));
    o.label(format!("keys:key-len={}", if matches!(c.key_len, 5 | 16) { c.key_len.to_string() } else { "6..15".into() }));
    o.label(format!("keys:user={}", pw_class(&c.user)));
    o.label(format!("keys:owner={}", pw_class(&c.owner)));
    o.label(format!("keys:{}", id_class(&c.id)));
    o.label(format!("keys:alg7:{}", user_pad_class(&c.user)));
    let up = UserPassword(c.user.clone());
    let op = OwnerPassword(c.owner.clone());
    let perms = Permissions::from_bits(c.p);

    // ---- Algorithm 3: /O
    let o_literal = {
        // empty owner password read literally
        let k = rc::alg3_owner_key(c.owner.as_bytes(), r, c.key_len);
        let mut x = prim::rc4(&k, &rc::pad_password(c.user.as_bytes()));
        if r >= 3 {
            for i in 1..=19u8 {
                let ki: Vec<u8> = k.iter().map(|b| b ^ i).collect();
                x = prim::rc4(&ki, &x);
            }
        }
        x
    };
    let o_spec = rc::alg3_o(c.owner.as_bytes(), c.user.as_bytes(), r, c.key_len);
    let o_ref = match guard(&mut o, "compute_owner_hash", || h.compute_owner_hash(&op, &up)) {
        Some(got) => {
            if got != o_spec && got != o_literal {
                o.fail("C23/alg3-owner-entry", rc_.clone(), format!("/O differs from Algorithm 3: {} (got {}, expected {})", first_diff(&got, &o_spec), hex(&got), hex(&o_spec)));
                o_spec.clone()
            } else {
                got
            }
        }
        None => o_spec.clone(),
    };
    // the owner password that opens o_ref (for the empty-owner reading that substitutes the user password)
    let eff_owner: &[u8] = if c.owner.is_empty() && o_ref == o_spec && o_spec != o_literal { c.user.as_bytes() } else { c.owner.as_bytes() };

    // ---- Algorithm 2: file key
    let key_ref = rc::alg2_key(c.user.as_bytes(), &o_ref, c.p as i32, &id, r, c.key_len, true);
    match guard(&mut o, "compute_encryption_key", || h.compute_encryption_key(&up, &o_ref, perms, id_opt)) {
        Some(Ok(k)) => {
            if k.key != key_ref {
                o.fail("C23/alg2-file-key", rc_.clone(), format!("file key {} expected {}", hex(&k.key), hex(&key_ref)));
            }
        }
        Some(Err(e)) => o.fail("C23/alg2-file-key", format!("{rc_},error"), format!("{e}")),
        None => {}
    }

    // ---- Algorithms 4/5: /U
    let u_ref = rc::alg45_u(&key_ref, &id, r);
    match guard(&mut o, "compute_user_hash", || h.compute_user_hash(&up, &o_ref, perms, id_opt)) {
        Some(Ok(u)) => {
            let n = if r == 2 { 32 } else { 16 };
            if u.len() != 32 || u[..n] != u_ref[..n] {
                o.fail("C23/alg45-user-entry", rc_.clone(), format!("/U {} expected (first {n} bytes) {}", hex(&u), hex(&u_ref[..n])));
            }
        }
        Some(Err(e)) => o.fail("C23/alg45-user-entry", format!("{rc_},error"), format!("{e}")),
        None => {}
    }

    // ---- Algorithm 6: user verifier, on a reference-made /U whose arbitrary tail is random
    let mut u_file = u_ref.clone();
    if r >= 3 {
        u_file[16..32].copy_from_slice(&c.u_tail);
    }
    for (what, pw) in [("correct", &c.user), ("wrong", &c.wrong)] {
        let exp = ref_user_ok(pw.as_bytes(), &o_ref, &u_file, c.p, &id, r, c.key_len);
        match guard(&mut o, "validate_user_password", || h.validate_user_password(&UserPassword(pw.clone()), &u_file, &o_ref, perms, id_opt)) {
            Some(Ok(g)) => {
                if g != exp {
                    o.fail("C23/alg6-user-verifier", format!("{rc_},{what}-password"), format!("validate_user_password({pw:?}) = {g}, Algorithm 6 says {exp}"));
                }
            }
            Some(Err(e)) => o.fail("C23/alg6-user-verifier", format!("{rc_},error"), format!("{e}")),
            None => {}
        }
    }

    // ---- Algorithm 7: owner verifier
    let mut owner_cases: Vec<(&str, Vec<u8>, String)> = vec![("wrong", c.wrong.as_bytes().to_vec(), c.wrong.clone())];
    if let Ok(s) = std::str::from_utf8(eff_owner) {
        owner_cases.insert(0, ("correct", eff_owner.to_vec(), s.to_string()));
    }
    for (what, pwb, pws) in owner_cases {
        let exp = ref_owner_ok(&pwb, &o_ref, &u_file, c.p, &id, r, c.key_len);
        if what == "correct" && !exp {
            // would be a reference bug: Algorithm 7 must accept what Algorithm 3 produced
            o.fail("C23/harness-self-check", "alg7-rejects-alg3", "reference Algorithm 7 rejected the owner password that made /O");
            continue;
        }
        match guard(&mut o, "validate_owner_password", || h.validate_owner_password(&OwnerPassword(pws.clone()), &o_ref, &UserPassword(String::new()), perms, id_opt, Some(&u_file))) {
            Some(Ok(g)) => {
                if g != exp {
                    o.fail("C23/alg7-owner-verifier", format!("{}-password,{}", if exp { "valid" } else { "invalid" }, user_pad_class(&c.user)), format!("validate_owner_password({pws:?}) = {g}, Algorithm 7 says {exp} (user password {:?})", c.user));
                }
            }
            Some(Err(e)) => o.fail("C23/alg7-owner-verifier", format!("{rc_},error"), format!("{e}")),
            None => {}
        }
    }

    // ---- Algorithm 1: object key + string/stream ciphers
    let oid = ObjectId::new(c.obj.0, c.obj.1);
    let fk = EncryptionKey::new(key_ref.clone());
    let rh = rc::Handler { v: if c.rev == 2 { 1 } else if c.rev == 3 { 2 } else { 4 }, r, key: key_ref.clone(), strf: rc::Method::Rc4, stmf: rc::Method::Rc4, encrypt_metadata: true, p: c.p as i32, who: rc::Who::User };
    let ok_ref = rh.object_key(c.obj.0, c.obj.1, rc::Method::Rc4);
    if let Some(k) = guard(&mut o, "compute_object_key", || h.compute_object_key(&fk, &oid)) {
        if k != ok_ref {
            o.fail("C23/alg1-object-key", rc_.clone(), format!("object {} {}: {} expected {}", c.obj.0, c.obj.1, hex(&k), hex(&ok_ref)));
        }
    }
    o.label_if(c.obj.0 > 0x00FF_FFFF, "keys:objnum>24bit");
    if c.rev <= 3 {
        let exp = prim::rc4(&ok_ref, &data);
        for (api, got) in [
            ("encrypt_string", guard(&mut o, "encrypt_string", || h.encrypt_string(&data, &fk, &oid))),
            ("encrypt_stream", guard(&mut o, "encrypt_stream", || h.encrypt_stream(&data, &fk, &oid))),
            ("decrypt_string", guard(&mut o, "decrypt_string", || h.decrypt_string(&data, &fk, &oid))),
            ("decrypt_stream", guard(&mut o, "decrypt_stream", || h.decrypt_stream(&data, &fk, &oid))),
        ] {
            if let Some(g) = got {
                if g != exp {
                    o.fail("C23/object-rc4-equals-reference", format!("{rc_},{api}"), first_diff(&g, &exp));
                }
            }
        }
    } else if c.key_len == 16 {
        // R4 handler = AESV2: IV is random inside the library → verify-style in both directions
        let rh4 = rc::Handler { strf: rc::Method::AesV2, stmf: rc::Method::AesV2, ..rh.clone() };
        for (api, got) in [("encrypt_string", guard(&mut o, "encrypt_string", || h.encrypt_string(&data, &fk, &oid))), ("encrypt_stream", guard(&mut o, "encrypt_stream", || h.encrypt_stream(&data, &fk, &oid)))] {
            let Some(g) = got else { continue };
            match rh4.decrypt_string(c.obj.0, c.obj.1, &g) {
                Ok(p) if p == data && g.len() == 16 + (data.len() / 16 + 1) * 16 => {}
                other => o.fail("C23/object-aes-decrypts-under-reference", format!("{rc_},{api}"), format!("{} plaintext bytes → {} ciphertext bytes; reference decrypt: {:?}", data.len(), g.len(), other.map(|p| first_diff(&p, &data)))),
            }
        }
        let mut iv = [0u8; 16];
        iv.copy_from_slice(&c.iv);
        let ct = rh4.encrypt_string(c.obj.0, c.obj.1, &data, &iv);
        for (api, got) in [("decrypt_string", guard(&mut o, "decrypt_string", || h.decrypt_string(&ct, &fk, &oid))), ("decrypt_stream", guard(&mut o, "decrypt_stream", || h.decrypt_stream(&ct, &fk, &oid)))] {
            let Some(g) = got else { continue };
            if g != data {
                o.fail("C23/object-aes-decrypts-reference", format!("{rc_},{api}"), first_diff(&g, &data));
            }
        }
    }
    o
}

// ------------------------------------------------------------------------------------------------
// sub-check hash2b (ISO 32000-2 Algorithm 2.B byte-for-byte)

#[derive(Clone, Debug, Serialize, Deserialize)]
pub struct HashCase {
    pub pw: Vec<u8>,
    pub salt: Vec<u8>,
    pub udata: Vec<u8>,
}

fn hash_strategy() -> impl Strategy<Value = HashCase> {
    let pw = prop_oneof![
        1 => Just(Vec::new()),
        4 => prop::collection::vec(any::<u8>(), 1..16),
        3 => prop::collection::vec(any::<u8>(), 16..=127),
        1 => prop::collection::vec(any::<u8>(), 127..=127),
        3 => password_strategy().prop_map(|s| s.into_bytes()),
    ];
    let udata = prop_oneof![
        4 => Just(Vec::new()),
        5 => prop::collection::vec(any::<u8>(), 48..=48),
        1 => prop::collection::vec(any::<u8>(), 48..=48).prop_map(|mut v| { v.resize(127, 0); v }),
    ];
    (pw, prop::collection::vec(any::<u8>(), 8..=8), udata).prop_map(|(pw, salt, udata)| HashCase { pw, salt, udata })
}

pub fn check_hash2b(c: &HashCase) -> Outcome {
    let mut o = Outcome::new();
    o.nontrivial(true);
    o.label(format!("2b:udata={}", c.udata.len()));
    o.label(format!("2b:pw={}", match c.pw.len() { 0 => "0", 1..=15 => "1..15", 16..=126 => "16..126", _ => "127" }));
    // the algorithm's input is the 48-byte /U (a 127-byte zero-padded Acrobat-style string is narrowed to its defined prefix)
    let ud = &c.udata[..c.udata.len().min(48)];
    let exp = rc::alg2b(&c.pw, &c.salt, ud);
    match guard(&mut o, "compute_hash_r6_algorithm_2b", || compute_hash_r6_algorithm_2b(&c.pw, &c.salt, &c.udata)) {
        Some(Ok(g)) => {
            if g != exp {
                o.fail("C23/alg2b-equals-reference", format!("udata={}", c.udata.len()), format!("got {} expected {}", hex(&g), hex(&exp)));
            }
        }
        Some(Err(e)) => o.fail("C23/alg2b-equals-reference", "error", format!("{e}")),
        None => {}
    }
    o
}

// ------------------------------------------------------------------------------------------------
// sub-check r56 (Algorithms 2.A, 8–13 for revisions 5 and 6)

#[derive(Clone, Debug, Serialize, Deserialize)]
pub struct R56Case {
    pub rev: u8,
    pub user: String,
    pub owner: String,
    pub wrong: String,
    pub file_key: Vec<u8>,
    /// user validation salt, user key salt, owner validation salt, owner key salt (4 × 8 bytes)
    pub salts: Vec<u8>,
    pub p: u32,
    pub p_other: u32,
    pub encrypt_metadata: bool,
    pub tail: Vec<u8>,
    /// present /U and /O as 127-byte zero-padded strings (as Acrobat writes them)
    pub pad127: bool,
    pub obj: (u32, u16),
    pub data: Data,
    pub iv: Vec<u8>,
}

fn r56_strategy(rev: u8) -> impl Strategy<Value = R56Case> {
    (
        (password_strategy(), password_strategy(), password_strategy()),
        prop_oneof![8 => prop::collection::vec(any::<u8>(), 32..=32), 1 => Just(vec![0u8; 32])],
        prop::collection::vec(any::<u8>(), 32..=32),
        (perm_strategy(), perm_strategy()),
        any::<bool>(),
        prop::collection::vec(any::<u8>(), 4..=4),
        prop::bool::weighted(0.25),
        obj_strategy(),
        small_data_strategy(),
        prop::collection::vec(any::<u8>(), 16..=16),
    )
        .prop_map(move |((user, owner, wrong), file_key, salts, (p, p_other), encrypt_metadata, tail, pad127, obj, data, iv)| R56Case {
            rev,
            user,
            owner,
            wrong,
            file_key,
            salts,
            p,
            p_other,
            encrypt_metadata,
            tail,
            pad127,
            obj,
            data,
            iv,
        })
}

fn arr8(b: &[u8]) -> [u8; 8] {
    let mut a = [0u8; 8];
    a.copy_from_slice(&b[..8]);
    a
}

pub fn check_r56(c: &R56Case) -> Outcome {
    let mut o = Outcome::new();
    let r = c.rev as i64;
    let rc_ = format!("R{}", c.rev);
    let h = handler(c.rev, 32);
    o.nontrivial(!c.user.is_empty() || !c.owner.is_empty());
    o.label(format!("r56:{rc_}"));
    o.label(format!("r56:user={}", pw_class(&c.user)));
    o.label(format!("r56:owner={}", pw_class(&c.owner)));
    o.label(format!("r56:EncryptMetadata={}", c.encrypt_metadata));
    o.label_if(c.pad127, "r56:U/O-127-bytes");
    let up = UserPassword(c.user.clone());
    let op = OwnerPassword(c.owner.clone());
    let wu = UserPassword(c.wrong.clone());
    let wo = OwnerPassword(c.wrong.clone());
    let mut fk = [0u8; 32];
    fk.copy_from_slice(&c.file_key);
    let fkey = EncryptionKey::new(c.file_key.clone());
    let perms = Permissions::from_bits(c.p);
    macro_rules! lib {
        ($api:expr, $clause:expr, $e:expr) => {
            match guard(&mut o, $api, || $e) {
                Some(Ok(v)) => Some(v),
                Some(Err(e)) => {
                    o.fail($clause, format!("{rc_},{},error", $api), format!("{e}"));
                    None
                }
                None => None,
            }
        };
    }

    // ================= direction A: the library produces, the reference verifies (salts are random inside the library)
    let u_lib = if c.rev == 5 { lib!("compute_r5_user_hash", "C23/alg8-user-entry", h.compute_r5_user_hash(&up)) } else { lib!("compute_r6_user_hash", "C23/alg8-user-entry", h.compute_r6_user_hash(&up)) };
    if let Some(u_lib) = u_lib.filter(|u| {
        if u.len() != 48 {
            o.fail("C23/alg8-user-entry", format!("{rc_},length"), format!("/U has {} bytes", u.len()));
        }
        u.len() == 48
    }) {
        let ue_lib = if c.rev == 5 { lib!("compute_r5_ue_entry", "C23/alg8-ue-entry", h.compute_r5_ue_entry(&up, &u_lib, &fkey)) } else { lib!("compute_r6_ue_entry", "C23/alg8-ue-entry", h.compute_r6_ue_entry(&up, &u_lib, &fkey)) };
        let (u_exp, ue_exp) = rc::alg8_u_ue(r, c.user.as_bytes(), &fk, &arr8(&u_lib[32..40]), &arr8(&u_lib[40..48]));
        if u_lib != u_exp {
            o.fail("C23/alg8-user-entry", rc_.clone(), format!("with the library's own salts: {}", first_diff(&u_lib, &u_exp)));
        }
        if let Some(ue) = &ue_lib {
            if *ue != ue_exp {
                o.fail("C23/alg8-ue-entry", rc_.clone(), format!("/UE {} expected {}", hex(ue), hex(&ue_exp)));
            }
        }
        let o_lib = if c.rev == 5 { lib!("compute_r5_owner_hash", "C23/alg9-owner-entry", h.compute_r5_owner_hash(&op, &u_lib)) } else { lib!("compute_r6_owner_hash", "C23/alg9-owner-entry", h.compute_r6_owner_hash(&op, &u_lib)) };
        if let Some(o_lib) = o_lib.filter(|x| {
            if x.len() != 48 {
                o.fail("C23/alg9-owner-entry", format!("{rc_},length"), format!("/O has {} bytes", x.len()));
            }
            x.len() == 48
        }) {
            let oe_lib = if c.rev == 5 { lib!("compute_r5_oe_entry", "C23/alg9-oe-entry", h.compute_r5_oe_entry(&op, &o_lib, &u_lib, &c.file_key)) } else { lib!("compute_r6_oe_entry", "C23/alg9-oe-entry", h.compute_r6_oe_entry(&op, &o_lib, &u_lib, &c.file_key)) };
            let (o_exp, oe_exp) = rc::alg9_o_oe(r, c.owner.as_bytes(), &fk, &arr8(&o_lib[32..40]), &arr8(&o_lib[40..48]), &u_lib);
            if o_lib != o_exp {
                o.fail("C23/alg9-owner-entry", rc_.clone(), format!("with the library's own salts: {}", first_diff(&o_lib, &o_exp)));
            }
            if let Some(oe) = &oe_lib {
                if *oe != oe_exp {
                    o.fail("C23/alg9-oe-entry", rc_.clone(), format!("/OE {} expected {}", hex(oe), hex(&oe_exp)));
                }
            }
        }
    }
    if let Some(pe) = lib!("compute_perms_entry", "C23/alg10-perms-entry", h.compute_perms_entry(perms, &fkey, c.encrypt_metadata)) {
        let ok = pe.len() == 16 && {
            let mut b = [0u8; 16];
            b.copy_from_slice(&pe);
            let d = prim::ecb_decrypt_block(&fk, &b).unwrap();
            d[..4] == c.p.to_le_bytes() && d[4..8] == [0xFF; 4] && d[8] == if c.encrypt_metadata { b'T' } else { b'F' } && &d[9..12] == b"adb"
        };
        if !ok {
            o.fail("C23/alg10-perms-entry", rc_.clone(), format!("/Perms {} does not decrypt to P‖FFFFFFFF‖T/F‖adb‖xxxx", hex(&pe)));
        }
    }

    // ================= direction B: the reference produces, the library verifies and recovers the key
    let s = &c.salts;
    let (u, ue) = rc::alg8_u_ue(r, c.user.as_bytes(), &fk, &arr8(&s[0..8]), &arr8(&s[8..16]));
    let (oo, oe) = rc::alg9_o_oe(r, c.owner.as_bytes(), &fk, &arr8(&s[16..24]), &arr8(&s[24..32]), &u);
    let mut tail = [0u8; 4];
    tail.copy_from_slice(&c.tail);
    let perms_entry = rc::alg10_perms(c.p as i32, c.encrypt_metadata, &fk, tail);
    let (mut u_file, mut o_file) = (u.clone(), oo.clone());
    if c.pad127 {
        u_file.resize(127, 0);
        o_file.resize(127, 0);
    }
    let padc = if c.pad127 { ",127-byte-entry" } else { "" };
    // what the reference says about the wrong password (it may coincide with a right one)
    let wrong_is_user = rc::hash_r56(r, c.wrong.as_bytes(), &u[32..40], &[])[..] == u[..32];
    let wrong_is_owner = rc::hash_r56(r, c.wrong.as_bytes(), &oo[32..40], &u[..48])[..] == oo[..32];
    let vu = |pw: &UserPassword| if c.rev == 5 { h.validate_r5_user_password(pw, &u_file) } else { h.validate_r6_user_password(pw, &u_file) };
    let vo = |pw: &OwnerPassword| if c.rev == 5 { h.validate_r5_owner_password(pw, &o_file, &u_file) } else { h.validate_r6_owner_password(pw, &o_file, &u_file) };
    for (what, exp, got) in [
        ("correct-user", true, lib!("validate_user_password(r5/r6)", "C23/alg11-user-verifier", vu(&up))),
        ("wrong-user", wrong_is_user, lib!("validate_user_password(r5/r6)", "C23/alg11-user-verifier", vu(&wu))),
    ] {
        if let Some(g) = got {
            if g != exp {
                o.fail("C23/alg11-user-verifier", format!("{rc_},{what}{padc}"), format!("library says {g}, Algorithm 11 says {exp}"));
            }
        }
    }
    for (what, exp, got) in [
        ("correct-owner", true, lib!("validate_owner_password(r5/r6)", "C23/alg12-owner-verifier", vo(&op))),
        ("wrong-owner", wrong_is_owner, lib!("validate_owner_password(r5/r6)", "C23/alg12-owner-verifier", vo(&wo))),
    ] {
        if let Some(g) = got {
            if g != exp {
                o.fail("C23/alg12-owner-verifier", format!("{rc_},{what}{padc}"), format!("library says {g}, Algorithm 12 says {exp}"));
            }
        }
    }
    // Algorithm 2.A: recover the file key
    let ku = if c.rev == 5 { lib!("recover_r5_encryption_key", "C23/alg2a-file-key", h.recover_r5_encryption_key(&up, &u_file, &ue)) } else { lib!("recover_r6_encryption_key", "C23/alg2a-file-key", h.recover_r6_encryption_key(&up, &u_file, &ue)) };
    if let Some(k) = ku {
        if k.key != c.file_key {
            o.fail("C23/alg2a-file-key", format!("{rc_},user{padc}"), format!("recovered {} expected {}", hex(&k.key), hex(&c.file_key)));
        }
    }
    let ko = if c.rev == 5 { lib!("recover_r5_owner_encryption_key", "C23/alg2a-file-key", h.recover_r5_owner_encryption_key(&op, &o_file, &u_file, &oe)) } else { lib!("recover_r6_owner_encryption_key", "C23/alg2a-file-key", h.recover_r6_owner_encryption_key(&op, &o_file, &u_file, &oe)) };
    if let Some(k) = ko {
        if k != c.file_key {
            o.fail("C23/alg2a-file-key", format!("{rc_},owner{padc}"), format!("recovered {} expected {}", hex(&k), hex(&c.file_key)));
        }
    }
    // generic entry points of the same handler (documented as Algorithm 6 / 7 with R5/R6 dispatch)
    if let Some(g) = lib!("validate_owner_password", "C23/generic-owner-verifier", h.validate_owner_password(&op, &o_file, &up, perms, None, Some(&u_file))) {
        if !g {
            o.fail("C23/generic-owner-verifier", rc_.clone(), "validate_owner_password rejects the correct owner password of a reference-made /O,/U");
        }
    }
    if let Some(g) = lib!("validate_user_password", "C23/generic-user-verifier", h.validate_user_password(&up, &u_file, &o_file, perms, None)) {
        if !g {
            o.fail("C23/generic-user-verifier", "rev>=5", format!("validate_user_password on an {rc_} handler rejects the correct user password of a reference-made /U (Algorithm 11)"));
        }
    }
    // Algorithm 13: /Perms
    if let Some(g) = lib!("validate_r6_perms", "C23/alg13-perms-verifier", h.validate_r6_perms(&perms_entry, &fkey, perms)) {
        if !g {
            o.fail("C23/alg13-perms-verifier", format!("{rc_},matching-P"), format!("reference /Perms {} for P={:#x} rejected", hex(&perms_entry), c.p));
        }
    }
    if c.p_other != c.p {
        if let Some(g) = lib!("validate_r6_perms", "C23/alg13-perms-verifier", h.validate_r6_perms(&perms_entry, &fkey, Permissions::from_bits(c.p_other))) {
            if g {
                o.fail("C23/alg13-perms-verifier", format!("{rc_},different-P"), format!("/Perms for P={:#x} accepted for P={:#x}", c.p, c.p_other));
            }
        }
    }
    if let Some(g) = lib!("extract_r6_encrypt_metadata", "C23/alg13-perms-verifier", h.extract_r6_encrypt_metadata(&perms_entry, &fkey)) {
        if g != Some(c.encrypt_metadata) {
            o.fail("C23/alg13-perms-verifier", format!("{rc_},EncryptMetadata"), format!("extracted {g:?}, /Perms says {}", c.encrypt_metadata));
        }
    }
    // AESV3: the file key is the object key
    let data = c.data.bytes();
    let oid = ObjectId::new(c.obj.0, c.obj.1);
    let mut iv = [0u8; 16];
    iv.copy_from_slice(&c.iv);
    if let Some(g) = guard(&mut o, "encrypt_string", || h.encrypt_string(&data, &fkey, &oid)) {
        let ok = g.len() == 16 + (data.len() / 16 + 1) * 16 && {
            let mut giv = [0u8; 16];
            giv.copy_from_slice(&g[..16]);
            prim::cbc_decrypt(&fk, &giv, &g[16..]).as_deref() == Some(&data[..])
        };
        if !ok {
            o.fail("C23/object-aes-decrypts-under-reference", format!("{rc_},encrypt_string"), format!("{} plaintext bytes → {} bytes that the reference cannot decrypt with the file key", data.len(), g.len()));
        }
    }
    let mut ct = iv.to_vec();
    ct.extend(prim::cbc_encrypt(&fk, &iv, &data).unwrap());
    if let Some(g) = guard(&mut o, "decrypt_stream", || h.decrypt_stream(&ct, &fkey, &oid)) {
        if g != data {
            o.fail("C23/object-aes-decrypts-reference", format!("{rc_},decrypt_stream"), first_diff(&g, &data));
        }
    }
    o
}

// ------------------------------------------------------------------------------------------------
// sub-check unlock: reference-built /Encrypt dictionaries through the public parser::EncryptionHandler
// (the only public path on which /EncryptMetadata false reaches Algorithm 2)

#[derive(Clone, Debug, Serialize, Deserialize)]
pub struct UnlockCase {
    pub spec: rc::EncSpec,
    pub id: Option<Vec<u8>>,
    pub wrong: String,
    pub obj: (u32, u16),
    pub data: Data,
}

fn unlock_strategy(revs: &'static [u8]) -> impl Strategy<Value = UnlockCase> {
    (
        prop::sample::select(revs),
        any::<bool>(),
        prop_oneof![9 => Just(128u16), 1 => (5u16..=16).prop_map(|b| b * 8)],
        (password_strategy(), password_strategy(), password_strategy()),
        perm_strategy(),
        any::<bool>(),
        any::<u64>(),
        id_strategy(),
        obj_strategy(),
        small_data_strategy(),
    )
        .prop_map(|(r, aes, key_bits, (user, owner, wrong), p, encrypt_metadata, seed, id, obj, data)| UnlockCase {
            spec: rc::EncSpec { r, aes, key_bits: if r == 3 { key_bits } else { 128 }, user_pw: user.into_bytes(), owner_pw: owner.into_bytes(), p: p as i32, encrypt_metadata, seed },
            id,
            wrong,
            obj,
            data,
        })
}

fn to_lib_obj(v: &refpdf::Obj) -> PdfObject {
    match v {
        refpdf::Obj::Null => PdfObject::Null,
        refpdf::Obj::Bool(b) => PdfObject::Boolean(*b),
        refpdf::Obj::Int(i) => PdfObject::Integer(*i),
        refpdf::Obj::Real(r) => PdfObject::Real(*r),
        refpdf::Obj::Str(s) => PdfObject::String(PdfString(s.clone())),
        refpdf::Obj::Name(n) => PdfObject::Name(PdfName(String::from_utf8_lossy(n).into_owned())),
        refpdf::Obj::Dict(d) => PdfObject::Dictionary(to_lib_dict(d)),
        _ => PdfObject::Null,
    }
}

fn to_lib_dict(d: &refpdf::Dict) -> PdfDictionary {
    let mut out = PdfDictionary::new();
    for (k, v) in &d.0 {
        out.insert(String::from_utf8_lossy(k).into_owned(), to_lib_obj(v));
    }
    out
}

pub fn check_unlock(c: &UnlockCase) -> Outcome {
    let mut o = Outcome::new();
    let s = &c.spec;
    let id: Vec<u8> = c.id.clone().unwrap_or_default();
    let built = rc::build(s, &id);
    let cipher = match s.r {
        2 | 3 => "RC4",
        4 => {
            if s.aes {
                "AESV2"
            } else {
                "V2"
            }
        }
        _ => "AESV3",
    };
    let em = if s.r >= 4 { s.encrypt_metadata } else { true };
    let mut cls = format!("R{},{cipher}", s.r);
    if s.r == 3 && s.key_bits != 128 {
        cls.push_str(",Length<128");
    }
    if !em {
        cls.push_str(",EncryptMetadata=false");
    }
    o.label(format!("unlock:{cls}"));
    o.label(format!("unlock:{}", id_class(&c.id)));
    let user = String::from_utf8_lossy(&s.user_pw).into_owned();
    let owner = String::from_utf8_lossy(&s.owner_pw).into_owned();
    o.label(format!("unlock:user={}", pw_class(&user)));
    o.nontrivial(!user.is_empty() || !owner.is_empty());
    // reference self-check: the reference reader authenticates what the reference writer built
    match rc::Handler::from_dict(&built.dict, &id, &s.user_pw) {
        Ok(hh) if hh.key == built.handler.key => {}
        other => {
            o.fail("C23/harness-self-check", "from_dict(build)", format!("{:?}", other.map(|h| hex(&h.key))));
            return o;
        }
    }
    let dict = to_lib_dict(&built.dict);
    let open = |o: &mut Outcome| -> Option<EncryptionHandler> {
        match guard(o, "EncryptionHandler::new", || EncryptionHandler::new(&dict, c.id.clone())) {
            Some(Ok(h)) => Some(h),
            Some(Err(e)) => {
                o.fail("C23/unlock-dictionary-accepted", cls.clone(), format!("{e}"));
                None
            }
            None => None,
        }
    };
    let data = c.data.bytes();
    let iv = rc::iv_for(s.seed, c.obj.0, 7);
    let ct = built.handler.encrypt_string(c.obj.0, c.obj.1, &data, &iv);
    let oid = ObjectId::new(c.obj.0, c.obj.1);
    // ---- user password
    let Some(mut h) = open(&mut o) else { return o };
    match guard(&mut o, "unlock_with_user_password", || h.unlock_with_user_password(&user)) {
        Some(Ok(true)) => {
            let k = h.encryption_key().map(|k| k.key.clone());
            if k.as_deref() != Some(&built.handler.key[..]) {
                o.fail("C23/unlock-user-file-key", cls.clone(), format!("key {:?} expected {}", k.as_deref().map(hex), hex(&built.handler.key)));
            } else {
                match guard(&mut o, "EncryptionHandler::decrypt_string", || h.decrypt_string(&ct, &oid)) {
                    Some(Ok(p)) if p == data => {}
                    Some(other) => o.fail("C23/unlock-decrypts-reference", cls.clone(), format!("{} bytes, object {} {}: {:?}", data.len(), c.obj.0, c.obj.1, other.map(|p| first_diff(&p, &data)))),
                    None => {}
                }
            }
        }
        Some(Ok(false)) => o.fail("C23/unlock-user-password", cls.clone(), format!("correct user password {user:?} rejected")),
        Some(Err(e)) => o.fail("C23/unlock-user-password", format!("{cls},error"), format!("{e}")),
        None => {}
    }
    // ---- owner password (an empty owner password means "use the user password" in the reference writer);
    // not evaluated behind a failed user path (same key derivation: one root cause, one signature)
    if !o.fails.is_empty() {
        o.excluded("C23/unlock-owner-password");
        o.excluded("C23/unlock-wrong-password-refused");
        return o;
    }
    if !owner.is_empty() {
        let Some(mut h) = open(&mut o) else { return o };
        match guard(&mut o, "unlock_with_owner_password", || h.unlock_with_owner_password(&owner)) {
            Some(Ok(true)) => {
                let k = h.encryption_key().map(|k| k.key.clone());
                if k.as_deref() != Some(&built.handler.key[..]) {
                    o.fail("C23/unlock-owner-file-key", cls.clone(), format!("key {:?} expected {}", k.as_deref().map(hex), hex(&built.handler.key)));
                }
            }
            Some(Ok(false)) => o.fail("C23/unlock-owner-password", cls.clone(), format!("correct owner password {owner:?} rejected (user password {user:?})")),
            Some(Err(e)) => o.fail("C23/unlock-owner-password", format!("{cls},error"), format!("{e}")),
            None => {}
        }
    }
    // ---- wrong password: refused by both paths when the reference refuses it
    if rc::Handler::from_dict(&built.dict, &id, c.wrong.as_bytes()).is_err() {
        let Some(mut h) = open(&mut o) else { return o };
        let a = guard(&mut o, "unlock_with_user_password", || h.unlock_with_user_password(&c.wrong).unwrap_or(false));
        let b = guard(&mut o, "unlock_with_owner_password", || h.unlock_with_owner_password(&c.wrong).unwrap_or(false));
        if a == Some(true) || b == Some(true) {
            o.fail("C23/unlock-wrong-password-refused", cls.clone(), format!("password {:?} accepted (user path {a:?}, owner path {b:?})", c.wrong));
        }
    } else {
        o.label("unlock:wrong-coincides");
    }
    o
}

// ------------------------------------------------------------------------------------------------
// sub-check perms (ISO 32000-1 Table 22 bit positions; /P as the 32-bit word the algorithms consume)

#[derive(Clone, Debug, Serialize, Deserialize)]
pub struct PermCase {
    pub bits: u32,
    /// (setter index 0..8, allow)
    pub ops: Vec<(u8, bool)>,
}

fn perm_case_strategy() -> impl Strategy<Value = PermCase> {
    (perm_strategy(), prop::collection::vec((0u8..8, any::<bool>()), 0..6)).prop_map(|(bits, ops)| PermCase { bits, ops })
}

/// Table 22: print 3, modify 4, copy 5, annotate 6, fill forms 9, extract for accessibility 10, assemble 11, high-quality print 12 (1-based)
const PERM_BITS: [u32; 8] = [3, 4, 5, 6, 9, 10, 11, 12];

fn perm_get(p: &Permissions, i: usize) -> bool {
    match i {
        0 => p.can_print(),
        1 => p.can_modify_contents(),
        2 => p.can_copy(),
        3 => p.can_modify_annotations(),
        4 => p.can_fill_forms(),
        5 => p.can_access_for_accessibility(),
        6 => p.can_assemble(),
        _ => p.can_print_high_quality(),
    }
}

fn perm_set(p: &mut Permissions, i: usize, allow: bool) {
    match i {
        0 => p.set_print(allow),
        1 => p.set_modify_contents(allow),
        2 => p.set_copy(allow),
        3 => p.set_modify_annotations(allow),
        4 => p.set_fill_forms(allow),
        5 => p.set_accessibility(allow),
        6 => p.set_assemble(allow),
        _ => p.set_print_high_quality(allow),
    };
}

pub fn check_perms(c: &PermCase) -> Outcome {
    let mut o = Outcome::new();
    o.nontrivial(c.bits != 0xFFFF_F0C0);
    o.label(format!("perms:ops={}", c.ops.len().min(3)));
    let mut p = Permissions::from_bits(c.bits);
    let mut model = c.bits;
    if p.bits() != c.bits {
        o.fail("C23/perms-word-preserved", "from_bits/bits", format!("{:#x} → {:#x}", c.bits, p.bits()));
    }
    let fl = p.flags();
    let flv = [fl.print, fl.modify_contents, fl.copy, fl.modify_annotations, fl.fill_forms, fl.accessibility, fl.assemble, fl.print_high_quality];
    for i in 0..8 {
        let exp = model & (1 << (PERM_BITS[i] - 1)) != 0;
        if perm_get(&p, i) != exp || flv[i] != exp {
            o.fail("C23/perms-table22-bits", format!("bit{}", PERM_BITS[i]), format!("word {:#x}: getter {} flags {} expected {exp}", c.bits, perm_get(&p, i), flv[i]));
        }
    }
    for (i, allow) in &c.ops {
        let i = *i as usize;
        perm_set(&mut p, i, *allow);
        let m = 1u32 << (PERM_BITS[i] - 1);
        model = if *allow { model | m } else { model & !m };
        if p.bits() != model {
            o.fail("C23/perms-table22-bits", format!("set-bit{}", PERM_BITS[i]), format!("after setter {i}({allow}): {:#x} expected {model:#x}", p.bits()));
            break;
        }
    }
    // constructors: reserved bits per Table 22 (bits 1–2 zero, 7–8 and 13–32 one)
    let none = Permissions::new().bits();
    let all = Permissions::all().bits();
    if none != 0xFFFF_F0C0 || all != 0xFFFF_FFFC {
        o.fail("C23/perms-table22-bits", "constructors", format!("new()={none:#x} all()={all:#x}"));
    }
    let ff = Permissions::from_flags(PermissionFlags { print: flv[0], modify_contents: flv[1], copy: flv[2], modify_annotations: flv[3], fill_forms: flv[4], accessibility: flv[5], assemble: flv[6], print_high_quality: flv[7] }).bits();
    let mut exp = 0xFFFF_F0C0u32;
    for i in 0..8 {
        if flv[i] {
            exp |= 1 << (PERM_BITS[i] - 1);
        }
    }
    if ff != exp {
        o.fail("C23/perms-table22-bits", "from_flags", format!("{ff:#x} expected {exp:#x}"));
    }
    o
}

// ------------------------------------------------------------------------------------------------
// sub-check contract: invalid key / entry / password lengths give a value or an error, never a panic

#[derive(Clone, Debug, Serialize, Deserialize)]
pub struct ContractCase {
    /// 0 handler key_length out of range (R2–R4) · 1 R5/R6 handler on the R2–R4 entry points · 2 file key of arbitrary length
    /// 3 /U,/O,/UE,/OE,/Perms of arbitrary length · 4 password longer than 127 bytes · 5 Algorithm 2.B with odd salt/udata lengths
    pub which: u8,
    pub rev: u8,
    pub n1: usize,
    pub n2: usize,
    pub pw: String,
    pub seed: u64,
}

fn contract_strategy() -> impl Strategy<Value = ContractCase> {
    let n = || prop_oneof![3 => prop::sample::select(vec![0usize, 1, 4, 5, 15, 16, 17, 31, 32, 33, 47, 48, 49, 64, 127, 128, 255, 256]), 1 => 0usize..140];
    (0u8..6, 2u8..=6, n(), n(), prop_oneof![3 => password_strategy(), 1 => prop::collection::vec(ascii_char(), 128..400).prop_map(|v| v.into_iter().collect::<String>())], any::<u64>())
        .prop_map(|(which, rev, n1, n2, pw, seed)| ContractCase { which, rev, n1, n2, pw, seed })
}

pub fn check_contract(c: &ContractCase) -> Outcome {
    let mut o = Outcome::new();
    o.nontrivial(true);
    let bytes = |n: usize, salt: u64| Data { len: n as u32, mode: 2, seed: c.seed ^ salt }.bytes();
    let up = UserPassword(c.pw.clone());
    let op = OwnerPassword(c.pw.clone());
    let perms = Permissions::from_bits(c.seed as u32);
    let oid = ObjectId::new(7, 0);
    match c.which {
        0 => {
            let rev = 2 + c.rev % 3;
            let h = handler(rev, c.n1);
            let range = if (5..=16).contains(&c.n1) { "=5..16" } else if c.n1 < 5 { "<5" } else { ">16" };
            o.label(format!("contract:key_length {range}"));
            let oh = bytes(32, 1);
            let uh = bytes(32, 2);
            cguard(&mut o, &format!("handler.key_length{range}"), "compute_owner_hash", || h.compute_owner_hash(&op, &up));
            cguard(&mut o, &format!("handler.key_length{range}"), "compute_encryption_key", || h.compute_encryption_key(&up, &oh, perms, None).is_ok());
            cguard(&mut o, &format!("handler.key_length{range}"), "compute_user_hash", || h.compute_user_hash(&up, &oh, perms, None).is_ok());
            cguard(&mut o, &format!("handler.key_length{range}"), "validate_user_password", || h.validate_user_password(&up, &uh, &oh, perms, None).is_ok());
            cguard(&mut o, &format!("handler.key_length{range}"), "validate_owner_password", || h.validate_owner_password(&op, &oh, &up, perms, None, None).is_ok());
        }
        1 => {
            let rev = 5 + c.rev % 2;
            let h = handler(rev, 32);
            o.label("contract:R5/R6 handler on R2–R4 entry points");
            let oh = bytes(48, 1);
            cguard(&mut o, "handler.key_length>16", "compute_owner_hash on an R5/R6 handler", || h.compute_owner_hash(&op, &up));
            cguard(&mut o, "handler.key_length>16", "compute_encryption_key on an R5/R6 handler", || h.compute_encryption_key(&up, &oh, perms, None).is_ok());
            cguard(&mut o, "handler.key_length>16", "compute_user_hash on an R5/R6 handler", || h.compute_user_hash(&up, &oh, perms, None).is_ok());
            cguard(&mut o, "handler.key_length>16", "compute_object_key on an R5/R6 handler", || h.compute_object_key(&EncryptionKey::new(bytes(32, 3)), &oid));
        }
        2 => {
            let kl = if c.rev == 2 { 5 } else if c.rev <= 4 { 16 } else { 32 };
            let h = handler(c.rev, kl);
            o.label(format!("contract:file-key-length {}", if c.n1 == kl { "valid" } else { "invalid" }));
            let k = EncryptionKey::new(bytes(c.n1, 1));
            let d = bytes(c.n2, 2);
            let cls = format!("file-key-length,{}", if c.rev >= 5 { "R5/R6" } else { "R2-R4" });
            cguard(&mut o, &cls, "encrypt_string", || h.encrypt_string(&d, &k, &oid));
            cguard(&mut o, &cls, "decrypt_string", || h.decrypt_string(&d, &k, &oid));
            cguard(&mut o, &cls, "encrypt_aes", || h.encrypt_aes(&d, &k, &oid).is_ok());
            cguard(&mut o, &cls, "decrypt_aes", || h.decrypt_aes(&d, &k, &oid).is_ok());
            cguard(&mut o, &cls, "compute_object_key", || h.compute_object_key(&k, &oid));
            if c.rev >= 5 {
                let u = bytes(48, 3);
                cguard(&mut o, &cls, "compute_ue_entry", || if c.rev == 5 { h.compute_r5_ue_entry(&up, &u, &k).is_ok() } else { h.compute_r6_ue_entry(&up, &u, &k).is_ok() });
                cguard(&mut o, &cls, "compute_oe_entry", || if c.rev == 5 { h.compute_r5_oe_entry(&op, &u, &u, &k.key).is_ok() } else { h.compute_r6_oe_entry(&op, &u, &u, &k.key).is_ok() });
                cguard(&mut o, &cls, "compute_perms_entry", || h.compute_perms_entry(perms, &k, true).is_ok());
                cguard(&mut o, &cls, "validate_r6_perms", || h.validate_r6_perms(&bytes(16, 4), &k, perms).is_ok());
                cguard(&mut o, &cls, "extract_r6_encrypt_metadata", || h.extract_r6_encrypt_metadata(&bytes(16, 4), &k).is_ok());
            }
        }
        3 => {
            let kl = if c.rev == 2 { 5 } else if c.rev <= 4 { 16 } else { 32 };
            let h = handler(c.rev, kl);
            let e1 = bytes(c.n1, 1);
            let e2 = bytes(c.n2, 2);
            let min = if c.rev >= 5 { 48 } else { 32 };
            o.label(format!("contract:entry-length {}", if c.n1 >= min && c.n2 >= min { "long-enough" } else { "short" }));
            let cls = format!("entry-length,{}", if c.rev >= 5 { "R5/R6" } else { "R2-R4" });
            cguard(&mut o, &cls, "validate_user_password", || h.validate_user_password(&up, &e1, &e2, perms, None).is_ok());
            cguard(&mut o, &cls, "validate_owner_password", || h.validate_owner_password(&op, &e1, &up, perms, None, Some(&e2)).is_ok());
            cguard(&mut o, &cls, "compute_encryption_key", || h.compute_encryption_key(&up, &e1, perms, Some(&e2)).is_ok());
            if c.rev >= 5 {
                let k = EncryptionKey::new(bytes(32, 3));
                cguard(&mut o, &cls, "validate_r56_user_password", || if c.rev == 5 { h.validate_r5_user_password(&up, &e1).is_ok() } else { h.validate_r6_user_password(&up, &e1).is_ok() });
                cguard(&mut o, &cls, "validate_r56_owner_password", || if c.rev == 5 { h.validate_r5_owner_password(&op, &e1, &e2).is_ok() } else { h.validate_r6_owner_password(&op, &e1, &e2).is_ok() });
                cguard(&mut o, &cls, "recover_r56_encryption_key", || if c.rev == 5 { h.recover_r5_encryption_key(&up, &e1, &e2).is_ok() } else { h.recover_r6_encryption_key(&up, &e1, &e2).is_ok() });
                cguard(&mut o, &cls, "recover_r56_owner_encryption_key", || if c.rev == 5 { h.recover_r5_owner_encryption_key(&op, &e1, &e2, &e1).is_ok() } else { h.recover_r6_owner_encryption_key(&op, &e1, &e2, &e2).is_ok() });
                cguard(&mut o, &cls, "compute_ue_entry", || if c.rev == 5 { h.compute_r5_ue_entry(&up, &e1, &k).is_ok() } else { h.compute_r6_ue_entry(&up, &e1, &k).is_ok() });
                cguard(&mut o, &cls, "compute_owner_hash", || if c.rev == 5 { h.compute_r5_owner_hash(&op, &e1).is_ok() } else { h.compute_r6_owner_hash(&op, &e1).is_ok() });
                cguard(&mut o, &cls, "validate_r6_perms", || h.validate_r6_perms(&e1, &k, perms).is_ok());
                cguard(&mut o, &cls, "extract_r6_encrypt_metadata", || h.extract_r6_encrypt_metadata(&e1, &k).is_ok());
            }
        }
        4 => {
            let rev = 5 + c.rev % 2;
            let h = handler(rev, 32);
            o.label(format!("contract:password {}", if c.pw.len() > 127 { ">127" } else { "<=127" }));
            let u = bytes(48, 1);
            let cls = "password-length,R5/R6".to_string();
            cguard(&mut o, &cls, "compute_user_hash(r5/r6)", || if rev == 5 { h.compute_r5_user_hash(&up).is_ok() } else { h.compute_r6_user_hash(&up).is_ok() });
            cguard(&mut o, &cls, "validate_user_password(r5/r6)", || if rev == 5 { h.validate_r5_user_password(&up, &u).is_ok() } else { h.validate_r6_user_password(&up, &u).is_ok() });
            cguard(&mut o, &cls, "compute_owner_hash(r5/r6)", || if rev == 5 { h.compute_r5_owner_hash(&op, &u).is_ok() } else { h.compute_r6_owner_hash(&op, &u).is_ok() });
        }
        _ => {
            o.label("contract:2.B odd salt/udata lengths");
            let salt = bytes(c.n1 % 24, 1);
            let ud = bytes(c.n2, 2);
            let pw = &c.pw.as_bytes()[..c.pw.len().min(140)];
            cguard(&mut o, "alg2b-odd-lengths", "compute_hash_r6_algorithm_2b", || compute_hash_r6_algorithm_2b(pw, &salt, &ud).is_ok());
        }
    }
    o
}

// ------------------------------------------------------------------------------------------------
// oracle check: refcrypto hashes against Python hashlib (OpenSSL), thorough tier only

fn hashlib_cross_check(seed: u64) -> Result<Value, String> {
    use std::io::Write;
    let mut lens: Vec<usize> = vec![0, 1, 2, 3, 54, 55, 56, 57, 63, 64, 65, 110, 111, 112, 113, 119, 120, 121, 127, 128, 129, 183, 184, 239, 240, 255, 256, 257, 1000, 4096, 65535, 70001];
    let mut s = seed ^ 0xC23;
    while lens.len() < 400 {
        lens.push((splitmix(&mut s) % 700) as usize);
    }
    let inputs: Vec<Vec<u8>> = lens.iter().enumerate().map(|(i, n)| Data { len: *n as u32, mode: if i % 17 == 0 { 0 } else { 2 }, seed: splitmix(&mut s) }.bytes()).collect();
    let script = "import sys,hashlib\nfor l in sys.stdin:\n    b=bytes.fromhex(l.strip())\n    print(hashlib.md5(b).hexdigest(),hashlib.sha256(b).hexdigest(),hashlib.sha384(b).hexdigest(),hashlib.sha512(b).hexdigest())\n";
    let mut child = std::process::Command::new("python3")
        .arg("-c")
        .arg(script)
        .stdin(std::process::Stdio::piped())
        .stdout(std::process::Stdio::piped())
        .stderr(std::process::Stdio::null())
        .spawn()
        .map_err(|e| format!("cannot spawn python3: {e}"))?;
    let mut stdin = child.stdin.take().ok_or("no stdin")?;
    let payload: String = inputs.iter().map(|b| b.iter().map(|x| format!("{x:02x}")).collect::<String>() + "\n").collect();
    let writer = std::thread::spawn(move || {
        let _ = stdin.write_all(payload.as_bytes());
    });
    let out = child.wait_with_output().map_err(|e| format!("python3: {e}"))?;
    let _ = writer.join();
    if !out.status.success() {
        return Err(format!("python3 exited with {}", out.status));
    }
    let text = String::from_utf8_lossy(&out.stdout);
    let lines: Vec<&str> = text.lines().collect();
    if lines.len() != inputs.len() {
        return Err(format!("python3 printed {} lines for {} inputs", lines.len(), inputs.len()));
    }
    let hx = |b: &[u8]| b.iter().map(|x| format!("{x:02x}")).collect::<String>();
    let mut mismatches = Vec::new();
    for (inp, line) in inputs.iter().zip(&lines) {
        let mine = format!("{} {} {} {}", hx(&prim::md5(inp)), hx(&prim::sha256(inp)), hx(&prim::sha384(inp)), hx(&prim::sha512(inp)));
        if mine != *line {
            mismatches.push(json!({"len": inp.len(), "refcrypto": mine, "hashlib": line}));
        }
    }
    Ok(json!({"inputs": inputs.len(), "max_len": 70001, "hashes": ["md5", "sha256", "sha384", "sha512"], "mismatches": mismatches}))
}

// ------------------------------------------------------------------------------------------------

const R5: &[u8] = &[5];
const R6: &[u8] = &[6];
const R2_5: &[u8] = &[2, 3, 4, 5];

fn run(ctx: &Ctx) {
    if let Err(e) = prim::self_test() {
        eprintln!("[C23] refcrypto self-test failed (harness broken): {e}");
        std::process::exit(2);
    }
    if ctx.tier == Tier::Thorough {
        match hashlib_cross_check(ctx.seed) {
            Ok(v) => {
                let bad = v["mismatches"].as_array().map(|a| a.len()).unwrap_or(1);
                ctx.extra("refcrypto_vs_hashlib", v.clone());
                if bad != 0 {
                    eprintln!("[C23] refcrypto disagrees with Python hashlib (harness broken): {v}");
                    std::process::exit(2);
                }
            }
            Err(e) => {
                ctx.extra("refcrypto_vs_hashlib", json!({"unavailable": e}));
                ctx.note(format!("hashlib cross-check not run: {e}"));
            }
        }
    }
    ctx.run_sub("rc4", ctx.tier.pick(5_000, 200_000), rc4_strategy, check_rc4);
    ctx.run_sub("aes", ctx.tier.pick(5_000, 200_000), aes_strategy, check_aes);
    ctx.run_sub("keys", ctx.tier.pick(5_000, 200_000), keys_strategy, check_keys);
    ctx.run_sub("hash2b", ctx.tier.pick(600, 24_000), hash_strategy, check_hash2b);
    ctx.run_sub("r5", ctx.tier.pick(3_000, 120_000), || r56_strategy(5), check_r56);
    ctx.run_sub("r6", ctx.tier.pick(400, 12_000), || r56_strategy(6), check_r56);
    ctx.run_sub("unlock", ctx.tier.pick(4_000, 160_000), || unlock_strategy(R2_5), check_unlock);
    ctx.run_sub("unlock6", ctx.tier.pick(300, 9_000), || unlock_strategy(R6), check_unlock);
    ctx.run_sub("perms", ctx.tier.pick(5_000, 100_000), perm_case_strategy, check_perms);
    ctx.run_sub("contract", ctx.tier.pick(3_000, 60_000), contract_strategy, check_contract);
    let _ = R5;
}

fn replay(ctx: &Ctx, sub: &str, case: &Value) -> Result<Outcome, String> {
    match sub.trim_start_matches("replay:") {
        "rc4" => ctx.replay_case::<Rc4Case, _>(case, check_rc4),
        "aes" => ctx.replay_case::<AesCase, _>(case, check_aes),
        "keys" => ctx.replay_case::<KeyCase, _>(case, check_keys),
        "hash2b" => ctx.replay_case::<HashCase, _>(case, check_hash2b),
        "r5" | "r6" => ctx.replay_case::<R56Case, _>(case, check_r56),
        "unlock" | "unlock6" => ctx.replay_case::<UnlockCase, _>(case, check_unlock),
        "perms" => ctx.replay_case::<PermCase, _>(case, check_perms),
        "contract" => ctx.replay_case::<ContractCase, _>(case, check_contract),
        s => Err(format!("unknown sub-check {s}")),
    }
}
