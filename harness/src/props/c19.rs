//! C19 — damaged cross-reference data is reconstructed faithfully.
use crate::engine::{pick_idx, Ctx, Outcome, PropertyDef};
use crate::props::util::canon_lib;
use crate::refpdf::synth::{dict, stream, zlib, Builder};
use crate::refpdf::{self, Dict, Obj};
use oxidize_pdf::parser::{ParseOptions, PdfReader};
use proptest::prelude::*;
use serde::{Deserialize, Serialize};
use serde_json::Value;

pub fn def() -> PropertyDef {
    PropertyDef {
        id: "C19",
        level: "fault_enumeration",
        rule: "valid single-revision classic files without object streams (synthesized with 3–40 objects of mixed kinds incl. plain and Flate streams; 20 % with CR-only line ends, 30 % with compact object headers — no white space between `obj` and a body that starts with a delimiter —, or authored by the library with 1–3 text pages, compression on/off) × one or two damage operations from the catalogue {shift all offsets ±k, corrupt one entry, swap two entries, truncate the table, delete the table, delete startxref, point startxref at 0 / EOF / mid-object, wrong /Size, delete the trailer keyword, prepend junk}; the quick tier additionally enumerates EVERY single catalogue operation on a fixed set of base files (sub `catalogue`). Oracle: intact file read by the strict preset vs damaged file read with recovery (tolerant, skip_errors; ParseOptions::default() is the strict configuration and is only observed): same catalog, page count and the same value for every object. Non-trivial: the strict preset fails on the damaged file (recovery really had to run); distinct by hash of (file spec, damage).",
        assumptions: &[
            "recovery-enabled presets: tolerant/lenient and skip_errors must open the damaged file; the default preset may refuse it but may not return different values",
            "streams whose data contain text that looks like an object header form a separately labelled class (decoy)",
            "object values are compared in canonical form (sorted dictionary keys; streams by decoded data)",
        ],
        trusted_base: &["refpdf synthesizer / strict reader (locates the table, entries, startxref, trailer to damage)"],
        run,
        replay,
    }
}

#[derive(Clone, Debug, Serialize, Deserialize)]
pub enum Kind {
    Int(i64),
    Str(String),
    DictRefs(u16, u16),
    Arr(Vec<i32>),
    Stream { text: String, flate: bool },
    Decoy { flate: bool },
}

#[derive(Clone, Debug, Serialize, Deserialize)]
pub enum Source {
    Synth { objects: Vec<Kind> },
    Library { pages: u8, compress: bool, words: Vec<String> },
}

#[derive(Clone, Debug, Serialize, Deserialize)]
pub enum Damage {
    ShiftAll(i32),
    CorruptOne { sel: u16, to: u32 },
    SwapTwo { a: u16, b: u16 },
    Truncate { keep: u16 },
    DeleteTable,
    DeleteStartxref,
    StartxrefTo(u8), // 0: zero, 1: EOF, 2: mid-object, 3: +3
    WrongSize(i32),
    DeleteTrailerKeyword,
    PrependJunk(u8),
    /// one in-use entry overwritten with bytes that are not an entry at all (kind 0: letters, 1: blanks, 2: punctuation)
    GarbleEntry { sel: u16, kind: u8 },
}

#[derive(Clone, Debug, Serialize, Deserialize)]
pub struct Case {
    pub source: Source,
    pub damage: Vec<Damage>,
    /// synthesized sources only: every end-of-line outside stream data is a lone CARRIAGE RETURN (ISO 32000-1 7.2.3;
    /// byte offsets are unchanged, the LINE FEED after the `stream` keyword stays as 7.3.8.1 requires)
    #[serde(default)]
    pub cr_eol: bool,
    /// synthesized sources only: no white space between `obj` and a body that starts with a delimiter
    /// (`7 0 obj[1 2]`, `8 0 obj(text)`, `1 0 obj<< … >>`), and /Kids and /MediaBox given as indirect arrays
    #[serde(default)]
    pub compact: bool,
}

fn to_cr(b: &[u8]) -> Vec<u8> {
    let mut out = b.to_vec();
    let mut i = 0;
    while i < out.len() {
        if out[i..].starts_with(b"\nstream\n") {
            out[i] = b'\r';
            let from = i + 8;
            match out[from..].windows(10).position(|w| w == b"\nendstream") {
                Some(rel) => i = from + rel,
                None => break,
            }
            continue;
        }
        if out[i] == b'\n' {
            out[i] = b'\r';
        }
        i += 1;
    }
    out
}

fn build(src: &Source, compact: bool) -> Result<Vec<u8>, String> {
    match src {
        Source::Synth { objects } => {
            let mut b = Builder::new("1.4");
            b.compact_obj = compact;
            b.add_object(1, 0, &Obj::Dict(dict(vec![("Type", Obj::name("Catalog")), ("Pages", Obj::Ref(2, 0))])));
            b.add_object(2, 0, &Obj::Dict(dict(vec![("Type", Obj::name("Pages")), ("Kids", Obj::Arr(vec![Obj::Ref(3, 0)])), ("Count", Obj::Int(1))])));
            b.add_object(
                3,
                0,
                &Obj::Dict(dict(vec![
                    ("Type", Obj::name("Page")),
                    ("Parent", Obj::Ref(2, 0)),
                    ("MediaBox", Obj::Arr(vec![Obj::Int(0), Obj::Int(0), Obj::Int(300), Obj::Int(400)])),
                    ("Contents", Obj::Ref(4, 0)),
                    ("Resources", Obj::Dict(Dict::new())),
                ])),
            );
            b.add_object(4, 0, &stream(Dict::new(), b"0 0 m 10 10 l S".to_vec()));
            b.add_object(5, 0, &Obj::Dict(dict(vec![("Title", Obj::str(b"damage test")), ("Producer", Obj::str(b"refpdf"))])));
            let n = objects.len() as u32;
            for (i, k) in objects.iter().enumerate() {
                let num = 6 + i as u32;
                let o = match k {
                    Kind::Int(v) => Obj::Int(*v),
                    Kind::Str(s) => Obj::Str(s.as_bytes().to_vec()),
                    Kind::DictRefs(a, bb) => {
                        let ra = 6 + pick_idx(*a, n as usize) as u32;
                        let rb = 1 + pick_idx(*bb, 5) as u32;
                        Obj::Dict(dict(vec![("A", Obj::Ref(ra, 0)), ("B", Obj::Ref(rb, 0)), ("N", Obj::Int(num as i64))]))
                    }
                    Kind::Arr(v) => Obj::Arr(v.iter().map(|x| Obj::Int(*x as i64)).collect()),
                    Kind::Stream { text, flate } => {
                        if *flate {
                            stream(dict(vec![("Filter", Obj::name("FlateDecode"))]), zlib(text.as_bytes()))
                        } else {
                            stream(Dict::new(), text.as_bytes().to_vec())
                        }
                    }
                    Kind::Decoy { flate } => {
                        let t = format!("fake\n{} 0 obj\n(decoy)\nendobj\n1 0 obj\n<< /Type /Catalog >>\nendobj\nxref\ntrailer\nstartxref\n", num);
                        if *flate {
                            stream(dict(vec![("Filter", Obj::name("FlateDecode"))]), zlib(t.as_bytes()))
                        } else {
                            stream(Dict::new(), t.into_bytes())
                        }
                    }
                };
                b.add_object(num, 0, &o);
            }
            b.finish_classic(&dict(vec![("Root", Obj::Ref(1, 0)), ("Info", Obj::Ref(5, 0))]));
            Ok(b.out)
        }
        Source::Library { pages, compress, words } => {
            use oxidize_pdf::{Document, Font, Page};
            let mut doc = Document::new();
            doc.set_title("library authored");
            for p in 0..*pages {
                let mut page = Page::a4();
                for (i, w) in words.iter().enumerate() {
                    page.text().set_font(Font::Helvetica, 12.0).at(50.0, 780.0 - 16.0 * i as f64).write(&format!("p{p} {w}")).map_err(|e| e.to_string())?;
                }
                page.graphics().rect(10.0, 10.0, 50.0 + p as f64, 20.0).stroke();
                doc.add_page(page);
            }
            let cfg = oxidize_pdf::writer::WriterConfig { use_xref_streams: false, use_object_streams: false, pdf_version: "1.4".into(), compress_streams: *compress, incremental_update: false };
            doc.to_bytes_with_config(cfg).map_err(|e| e.to_string())
        }
    }
}

struct Layout {
    xref_off: usize,
    /// byte position of each 20-byte entry and its object number
    entries: Vec<(u32, usize)>,
    sub_header: (usize, usize), // byte range of the single "start count" line (without EOL)
    trailer_kw: usize,
    startxref_kw: usize,
    startxref_val: (usize, usize),
    size_val: Option<(usize, usize)>,
    obj_offsets: Vec<usize>,
}

fn layout(bytes: &[u8]) -> Result<Layout, String> {
    let rd = refpdf::Reader::open(bytes, None).map_err(|e| format!("independent reader rejects the intact file at {}: {}", e.at, e.msg))?;
    let sec = &rd.sections[0];
    if sec.is_stream || rd.sections.len() != 1 || sec.subsections.len() != 1 {
        return Err("not a single-section classic file with one subsection".into());
    }
    let xref_off = sec.offset;
    // header line
    let mut p = xref_off + 4;
    while bytes[p] == b'\r' || bytes[p] == b'\n' || bytes[p] == b' ' {
        p += 1;
    }
    let hs = p;
    while bytes[p] != b'\r' && bytes[p] != b'\n' {
        p += 1;
    }
    let he = p;
    while bytes[p] == b'\r' || bytes[p] == b'\n' {
        p += 1;
    }
    let mut entries = Vec::new();
    let (start, count) = sec.subsections[0];
    for i in 0..count {
        entries.push((start + i, p + 20 * i as usize));
    }
    let after = p + 20 * count as usize;
    let trailer_kw = after + bytes[after..].windows(7).position(|w| w == b"trailer").ok_or("no trailer keyword")?;
    let startxref_kw = bytes.windows(9).rposition(|w| w == b"startxref").ok_or("no startxref")?;
    let mut q = startxref_kw + 9;
    while !bytes[q].is_ascii_digit() {
        q += 1;
    }
    let vs = q;
    while q < bytes.len() && bytes[q].is_ascii_digit() {
        q += 1;
    }
    let size_val = bytes[trailer_kw..startxref_kw].windows(5).position(|w| w == b"/Size").map(|i| {
        let mut a = trailer_kw + i + 5;
        while !bytes[a].is_ascii_digit() {
            a += 1;
        }
        let mut b = a;
        while bytes[b].is_ascii_digit() {
            b += 1;
        }
        (a, b)
    });
    let obj_offsets = sec
        .entries
        .iter()
        .filter_map(|(_, e)| match e {
            refpdf::reader::Entry::InUse { off, .. } => Some(*off as usize),
            _ => None,
        })
        .collect();
    Ok(Layout { xref_off, entries, sub_header: (hs, he), trailer_kw, startxref_kw, startxref_val: (vs, q), size_val, obj_offsets })
}

fn label_of(d: &Damage) -> &'static str {
    match d {
        Damage::ShiftAll(_) => "shift-all",
        Damage::CorruptOne { .. } => "corrupt-one",
        Damage::SwapTwo { .. } => "swap-two",
        Damage::Truncate { .. } => "truncate-table",
        Damage::DeleteTable => "delete-table",
        Damage::DeleteStartxref => "delete-startxref",
        Damage::StartxrefTo(_) => "startxref-elsewhere",
        Damage::WrongSize(_) => "wrong-size",
        Damage::DeleteTrailerKeyword => "delete-trailer-keyword",
        Damage::PrependJunk(_) => "prepend-junk",
        Damage::GarbleEntry { .. } => "garble-entry",
    }
}

/// Applies one damage to `bytes` (positions taken from a fresh layout of the current bytes, so a
/// second damage composes when the file is still locatable; returns false when not applicable).
fn apply(bytes: &mut Vec<u8>, d: &Damage, lay: &Layout) -> bool {
    let inuse: Vec<usize> = lay.entries.iter().filter(|(_, p)| bytes[*p + 17] == b'n').map(|(_, p)| *p).collect();
    match d {
        Damage::ShiftAll(k) => {
            if *k == 0 {
                return false;
            }
            for p in &inuse {
                let v: i64 = std::str::from_utf8(&bytes[*p..*p + 10]).unwrap().parse().unwrap();
                let nv = (v + *k as i64).max(0);
                bytes[*p..*p + 10].copy_from_slice(format!("{nv:010}").as_bytes());
            }
            true
        }
        Damage::CorruptOne { sel, to } => {
            if inuse.is_empty() {
                return false;
            }
            let p = inuse[pick_idx(*sel, inuse.len())];
            let cur: u32 = std::str::from_utf8(&bytes[p..p + 10]).unwrap().parse().unwrap();
            let nv = if *to == cur { to + 1 } else { *to };
            bytes[p..p + 10].copy_from_slice(format!("{nv:010}").as_bytes());
            true
        }
        Damage::GarbleEntry { sel, kind } => {
            if inuse.is_empty() {
                return false;
            }
            let p = inuse[pick_idx(*sel, inuse.len())];
            let g: &[u8; 18] = match kind % 3 {
                0 => b"XXXXXXXXXX XXXXX n",
                1 => b"                  ",
                _ => b"##########-#####-n",
            };
            bytes[p..p + 18].copy_from_slice(g);
            true
        }
        Damage::SwapTwo { a, b } => {
            if inuse.len() < 2 {
                return false;
            }
            let i = pick_idx(*a, inuse.len());
            let mut j = pick_idx(*b, inuse.len());
            if i == j {
                j = (j + 1) % inuse.len();
            }
            let (x, y) = (bytes[inuse[i]..inuse[i] + 10].to_vec(), bytes[inuse[j]..inuse[j] + 10].to_vec());
            if x == y {
                return false;
            }
            bytes[inuse[i]..inuse[i] + 10].copy_from_slice(&y);
            bytes[inuse[j]..inuse[j] + 10].copy_from_slice(&x);
            true
        }
        Damage::Truncate { keep } => {
            let n = lay.entries.len();
            if n < 2 {
                return false;
            }
            let k = 1 + pick_idx(*keep, n - 1);
            let from = lay.entries[k].1;
            let to = lay.entries[n - 1].1 + 20;
            bytes.drain(from..to);
            true
        }
        Damage::DeleteTable => {
            bytes.drain(lay.xref_off..lay.trailer_kw);
            true
        }
        Damage::DeleteStartxref => {
            let end = lay.startxref_val.1;
            bytes.drain(lay.startxref_kw..end);
            true
        }
        Damage::StartxrefTo(m) => {
            let (s, e) = lay.startxref_val;
            let v = match m % 4 {
                0 => 0usize,
                1 => bytes.len(),
                2 => lay.obj_offsets.get(1).copied().unwrap_or(20) + 3,
                _ => lay.xref_off + 3,
            };
            if v == lay.xref_off {
                return false;
            }
            bytes.splice(s..e, v.to_string().into_bytes());
            true
        }
        Damage::WrongSize(dl) => {
            let Some((s, e)) = lay.size_val else { return false };
            if *dl == 0 {
                return false;
            }
            let cur: i64 = std::str::from_utf8(&bytes[s..e]).unwrap().parse().unwrap();
            bytes.splice(s..e, (cur + *dl as i64).max(0).to_string().into_bytes());
            true
        }
        Damage::DeleteTrailerKeyword => {
            bytes.drain(lay.trailer_kw..lay.trailer_kw + 7);
            true
        }
        Damage::PrependJunk(n) => {
            let junk: Vec<u8> = (0..(*n as usize % 40 + 1)).map(|i| b"garbage \n"[i % 9]).collect();
            bytes.splice(0..0, junk);
            true
        }
    }
}

struct Snapshot {
    catalog: String,
    pages: u32,
    objects: Vec<(u32, Result<String, String>)>,
}

fn snapshot(bytes: &[u8], opts: ParseOptions, nums: &[u32]) -> Result<Snapshot, String> {
    let mut rd = PdfReader::new_with_options(std::io::Cursor::new(bytes.to_vec()), opts).map_err(|e| e.to_string())?;
    let catalog = {
        let c = rd.catalog().map_err(|e| format!("catalog: {e}"))?;
        let mut s = String::new();
        crate::props::util::canon_dict_into(c, &mut s);
        s
    };
    let pages = rd.page_count().map_err(|e| format!("page_count: {e}"))?;
    let mut objects = Vec::new();
    for n in nums {
        objects.push((*n, rd.get_object(*n, 0).map(canon_lib).map_err(|e| e.to_string())));
    }
    Ok(Snapshot { catalog, pages, objects })
}

pub fn check(c: &Case) -> Outcome {
    let mut o = Outcome::new();
    let cr = c.cr_eol && matches!(c.source, Source::Synth { .. });
    let compact = c.compact && matches!(c.source, Source::Synth { .. });
    o.label_if(compact, "layout=compact-obj-headers");
    let intact = match build(&c.source, compact) {
        Ok(b) if cr => to_cr(&b),
        Ok(b) => b,
        Err(e) => {
            o.fail("C19/source-builds", "authoring-error", e);
            return o;
        }
    };
    o.label_if(cr, "eol=CR");
    let lay = match layout(&intact) {
        Ok(l) => l,
        Err(e) => {
            o.fail("HARNESS/layout", "intact-file", e);
            return o;
        }
    };
    let nums: Vec<u32> = lay.entries.iter().filter(|(_, p)| intact[*p + 17] == b'n').map(|(n, _)| *n).collect();
    o.label(match &c.source {
        Source::Synth { .. } => "source=synth",
        Source::Library { .. } => "source=library",
    });
    let decoy = matches!(&c.source, Source::Synth { objects } if objects.iter().any(|k| matches!(k, Kind::Decoy { .. })));
    o.label_if(decoy, "decoy-in-stream");
    let base = match snapshot(&intact, ParseOptions::strict(), &nums) {
        Ok(s) => s,
        Err(e) => {
            o.fail("C19/intact-file-opens-strict", if matches!(c.source, Source::Synth { .. }) { "synth" } else { "library" }, e);
            return o;
        }
    };
    let full = assess(&intact, &base, &nums, &c.damage);
    if full.applied.is_empty() {
        o.label("no-damage-applied");
        return o;
    }
    for l in &full.applied {
        o.label(*l);
    }
    o.nontrivial(full.strict_fails);
    o.label_if(full.strict_fails, "recovery-needed");
    o.label(format!("damages={}", full.applied.len()));
    o.label_if(full.default_refuses, "default-refuses");
    o.label_if(full.default_differs, "default-preset-returns-different-values(not-judged)");
    if full.fails.is_empty() {
        return o;
    }
    // attribution: a pair is blamed on a single operation when that operation alone already
    // breaks the same clause; only otherwise on the pair
    let singles: Vec<Assessment> = if c.damage.len() > 1 { c.damage.iter().map(|d| assess(&intact, &base, &nums, std::slice::from_ref(d))).collect() } else { vec![] };
    for (clause, detail) in &full.fails {
        let mut class = None;
        for s in &singles {
            if s.applied.len() == 1 && s.fails.iter().any(|(c2, _)| c2 == clause) {
                class = Some(s.applied[0].to_string());
                break;
            }
        }
        // a pair none of whose operations fails alone, but one of whose operations is a listed finding of this clause,
        // lies inside that finding's affected region (the table already contains an entry the reader is known to
        // mishandle): it is attributed to the listed operation, not reported as a new class
        let class = class.or_else(|| {
            full.applied.iter().find(|a| KNOWN.get().map(|k| k.contains(&format!("{clause}|{a}"))).unwrap_or(false)).map(|a| {
                o.label("pair-attributed-to-listed-operation");
                a.to_string()
            })
        });
        let class = class.unwrap_or_else(|| {
            let mut a = full.applied.clone();
            a.sort();
            a.dedup();
            a.join("+")
        });
        // a decoy only gets its own class when the same damage is not already a listed finding without it
        let listed = KNOWN.get().map(|k| k.contains(&format!("{clause}|{class}"))).unwrap_or(false);
        let class = if decoy && !listed { "decoy-object-header-inside-stream-data".to_string() } else { class };
        o.fail(clause, class, format!("damage {:?}: {detail}", full.applied));
    }
    o
}

struct Assessment {
    applied: Vec<&'static str>,
    strict_fails: bool,
    default_refuses: bool,
    default_differs: bool,
    fails: Vec<(&'static str, String)>,
}

fn assess(intact: &[u8], base: &Snapshot, nums: &[u32], damages: &[Damage]) -> Assessment {
    let mut a = Assessment { applied: vec![], strict_fails: false, default_refuses: false, default_differs: false, fails: vec![] };
    let mut damaged = intact.to_vec();
    let Ok(mut cur_lay) = layout(intact) else { return a };
    for d in damages {
        if apply(&mut damaged, d, &cur_lay) {
            a.applied.push(label_of(d));
        }
        match layout(&damaged) {
            Ok(l) => cur_lay = l,
            Err(_) => break, // further damage cannot be located any more
        }
    }
    if a.applied.is_empty() {
        return a;
    }
    crate::engine::isolate::dump("c19_intact.pdf", intact);
    crate::engine::isolate::dump("c19_damaged.pdf", &damaged);
    a.strict_fails = snapshot(&damaged, ParseOptions::strict(), nums).map(|s| s.objects.iter().zip(&base.objects).any(|(x, y)| x.1 != y.1) || s.catalog != base.catalog).unwrap_or(true);
    for (pname, opts, must_open) in [("tolerant", ParseOptions::tolerant(), true), ("skip_errors", ParseOptions::skip_errors(), true), ("default", ParseOptions::default(), false)] {
        match snapshot(&damaged, opts, nums) {
            Err(e) => {
                if must_open {
                    a.fails.push(("C19/recovery-opens", format!("preset {pname}: {e}")));
                } else {
                    a.default_refuses = true;
                }
            }
            Ok(s) => {
                let mut diff = None;
                if s.catalog != base.catalog {
                    diff = Some(format!("catalog: intact {} vs recovered {}", base.catalog, s.catalog));
                } else if s.pages != base.pages {
                    diff = Some(format!("page count: intact {} vs recovered {}", base.pages, s.pages));
                } else if let Some((x, y)) = base.objects.iter().zip(&s.objects).find(|(x, y)| x.1 != y.1) {
                    diff = Some(format!("object {}: intact {:?} vs recovered {:?}", x.0, x.1, y.1));
                }
                if let Some(d) = diff {
                    // the property speaks about opening "with recovery enabled": ParseOptions::default() is the strict
                    // configuration (strict_mode, no stream recovery), so what it returns is observed but not judged
                    if must_open {
                        a.fails.push(("C19/recovered-equals-intact", format!("preset {pname}: {d}")));
                    } else {
                        a.default_differs = true;
                    }
                }
            }
        }
    }
    a.fails.dedup_by(|x, y| x.0 == y.0);
    a
}

fn kind() -> impl Strategy<Value = Kind> {
    prop_oneof![
        3 => any::<i32>().prop_map(|v| Kind::Int(v as i64)),
        3 => "[a-z ()]{0,12}".prop_map(Kind::Str),
        3 => (any::<u16>(), any::<u16>()).prop_map(|(a, b)| Kind::DictRefs(a, b)),
        2 => prop::collection::vec(any::<i32>(), 0..6).prop_map(Kind::Arr),
        4 => ("[a-z \n]{0,60}", any::<bool>()).prop_map(|(text, flate)| Kind::Stream { text, flate }),
    ]
}

fn damage() -> impl Strategy<Value = Damage> {
    prop_oneof![
        (-40i32..40).prop_map(Damage::ShiftAll),
        (any::<u16>(), 0u32..5000).prop_map(|(sel, to)| Damage::CorruptOne { sel, to }),
        (any::<u16>(), any::<u16>()).prop_map(|(a, b)| Damage::SwapTwo { a, b }),
        any::<u16>().prop_map(|keep| Damage::Truncate { keep }),
        Just(Damage::DeleteTable),
        Just(Damage::DeleteStartxref),
        (0u8..4).prop_map(Damage::StartxrefTo),
        (-5i32..50).prop_map(Damage::WrongSize),
        Just(Damage::DeleteTrailerKeyword),
        (any::<u16>(), 0u8..3).prop_map(|(sel, kind)| Damage::GarbleEntry { sel, kind }),
    ]
}

fn source() -> impl Strategy<Value = Source> {
    prop_oneof![
        6 => prop::collection::vec(kind(), 0..35).prop_map(|objects| Source::Synth { objects }),
        1 => (prop::collection::vec(kind(), 0..10), any::<bool>(), any::<u16>()).prop_map(|(mut objects, flate, at)| {
            let i = pick_idx(at, objects.len() + 1);
            objects.insert(i, Kind::Decoy { flate });
            Source::Synth { objects }
        }),
        3 => (1u8..4, any::<bool>(), prop::collection::vec("[a-z]{1,8}", 1..6)).prop_map(|(pages, compress, words)| Source::Library { pages, compress, words }),
    ]
}

fn strategy() -> impl Strategy<Value = Case> {
    (source(), prop::collection::vec(damage(), 1..3), prop::bool::weighted(0.2), prop::bool::weighted(0.3)).prop_map(|(source, damage, cr_eol, compact)| Case { source, damage, cr_eol, compact })
}

/// Fixed base files × every single catalogue operation (complete enumeration of the catalogue).
fn catalogue_cases() -> Vec<Case> {
    let bases = vec![
        Source::Synth { objects: vec![Kind::Int(7), Kind::Str("hello (x)".into()), Kind::DictRefs(100, 40000), Kind::Stream { text: "stream text".into(), flate: false }, Kind::Stream { text: "zzzz zzzz".into(), flate: true }] },
        Source::Synth { objects: vec![] },
        Source::Library { pages: 2, compress: true, words: vec!["alpha".into(), "beta".into()] },
        Source::Library { pages: 1, compress: false, words: vec!["gamma".into()] },
    ];
    let mut ops = vec![Damage::DeleteTable, Damage::DeleteStartxref, Damage::DeleteTrailerKeyword];
    for k in [-17, -1, 1, 2, 9, 33] {
        ops.push(Damage::ShiftAll(k));
    }
    for sel in [0u16, 20000, 40000, 65535] {
        for to in [0u32, 9, 1234, 4999] {
            ops.push(Damage::CorruptOne { sel, to });
        }
    }
    for (a, b) in [(0u16, 65535u16), (0, 30000), (20000, 50000)] {
        ops.push(Damage::SwapTwo { a, b });
    }
    for keep in [0u16, 30000, 65535] {
        ops.push(Damage::Truncate { keep });
    }
    for m in 0..4 {
        ops.push(Damage::StartxrefTo(m));
    }
    for d in [-3, -1, 1, 40] {
        ops.push(Damage::WrongSize(d));
    }
    for sel in [0u16, 20000, 40000, 65535] {
        for kind in 0..3 {
            ops.push(Damage::GarbleEntry { sel, kind });
        }
    }
    for n in [0u8, 7, 39] {
        let _ = n; // prepending junk is not damage to the cross-reference data: outside the property
    }
    let mut v = Vec::new();
    for b in &bases {
        for op in &ops {
            v.push(Case { source: b.clone(), damage: vec![op.clone()], cr_eol: false, compact: false });
            if matches!(b, Source::Synth { .. }) {
                v.push(Case { source: b.clone(), damage: vec![op.clone()], cr_eol: true, compact: false });
                v.push(Case { source: b.clone(), damage: vec![op.clone()], cr_eol: false, compact: true });
            }
        }
    }
    v
}

static KNOWN: std::sync::OnceLock<Vec<String>> = std::sync::OnceLock::new();

fn run(ctx: &Ctx) {
    let _ = KNOWN.set(ctx.known.iter().filter(|k| k.status == "known").map(|k| k.signature.clone()).collect());
    // complete enumeration of the single-operation catalogue on fixed bases
    let mut seen = std::collections::BTreeSet::new();
    for c in catalogue_cases() {
        let out = ctx.eval(&check, &c);
        let key = crate::engine::hash64(&serde_json::to_vec(&c).unwrap());
        let unknown = ctx.record("catalogue", key, &out, || serde_json::to_value(&c).unwrap());
        for f in unknown {
            if seen.insert(f.signature()) {
                ctx.violation("catalogue", &f, serde_json::to_value(&c).unwrap(), &out.fails);
            }
        }
    }
    ctx.run_sub("generated", ctx.tier.pick(10_000, 100_000), strategy, check);
}

fn replay(ctx: &Ctx, sub: &str, case: &Value) -> Result<Outcome, String> {
    match sub.trim_start_matches("replay:") {
        "catalogue" | "generated" => ctx.replay_case::<Case, _>(case, check),
        s => Err(format!("unknown sub-check {s}")),
    }
}
