//! C04 — the newest revision of an object always wins.
//! Histories of appended revisions (redefine / free / re-add / add) over a synthesized base, each
//! revision with a classic table, an xref stream or a hybrid section, definitions plain or inside
//! object streams; oracle = reference model of the latest definition.
use crate::engine::{pick_idx, Ctx, Outcome, PropertyDef};
use crate::refpdf::synth::{dict, Builder};
use crate::refpdf::{self, Dict, Obj};
use oxidize_pdf::parser::objects::PdfObject;
use oxidize_pdf::parser::{ParseOptions, PdfReader};
use proptest::prelude::*;
use serde::{Deserialize, Serialize};
use serde_json::Value;
use std::collections::BTreeMap;

pub fn def() -> PropertyDef {
    PropertyDef {
        id: "C04",
        level: "exploration",
        rule: "histories: base file with 2–12 marker objects (layout classic | xref stream | xref stream with a random subset in an object stream) + 1–5 appended revisions, each a set of {redefine, free (generation+1), re-add a freed object, add new}, each definition plain or in a fresh object stream, each revision's cross-reference classic | stream | hybrid (/XRefStm); read under presets strict/default/tolerant/skip_errors and compared with a latest-definition model. Sub `recovery`: plain-only histories whose newest startxref is damaged so that the recovery scan decides. Non-trivial: some object has ≥ 2 definitions of different kinds (plain↔compressed) or is freed after a definition; distinct by hash of the history.",
        assumptions: &[
            "the synthesizer's files are valid: every generated file is also read by the harness's strict reader, which must agree with the model (self-check; a disagreement is a harness fault, reported under HARNESS/…)",
            "a freed object 'reads as null': get_object(n, old generation) must be Ok(Null); an Err is accepted only as the weaker 'does not return a stale value' and labelled",
        ],
        trusted_base: &["refpdf synthesizer + strict reader", "latest-definition model maintained by the generator interpreter"],
        run,
        replay,
    }
}

#[derive(Clone, Debug, Serialize, Deserialize)]
pub enum ROp {
    Redefine { sel: u16, objstm: bool },
    Free { sel: u16 },
    ReAdd { sel: u16, objstm: bool },
    AddNew { objstm: bool },
}

#[derive(Clone, Debug, Serialize, Deserialize)]
pub struct Rev {
    pub xref: u8, // 0 classic, 1 stream, 2 hybrid
    pub ops: Vec<ROp>,
}

#[derive(Clone, Debug, Serialize, Deserialize)]
pub struct Case {
    pub n: u32,
    pub base_layout: u8, // 0 classic, 1 xref stream, 2 xref stream + object stream
    pub base_compressed: Vec<bool>,
    pub compress_streams: bool,
    pub revisions: Vec<Rev>,
    /// recovery variant: damage the newest startxref
    pub damage: Option<u8>,
}

#[derive(Clone, Debug, PartialEq)]
enum St {
    Live { gen: u16, val: Vec<u8>, compressed: bool },
    Freed { last_gen: u16, next_gen: u16 },
}

pub struct Built {
    pub bytes: Vec<u8>,
    model: BTreeMap<u32, St>,
    pub labels: Vec<&'static str>,
    pub nontrivial: bool,
}

const FIRST: u32 = 4;

fn marker(n: u32, r: usize) -> Vec<u8> {
    format!("o{n}r{r}").into_bytes()
}

pub fn build(c: &Case) -> Built {
    let mut labels = Vec::new();
    let mut nontrivial = false;
    let mut b = Builder::new(if c.base_layout == 0 { "1.4" } else { "1.5" });
    let mut model: BTreeMap<u32, St> = BTreeMap::new();
    // skeleton
    b.add_object(1, 0, &Obj::Dict(dict(vec![("Type", Obj::name("Catalog")), ("Pages", Obj::Ref(2, 0))])));
    b.add_object(2, 0, &Obj::Dict(dict(vec![("Type", Obj::name("Pages")), ("Kids", Obj::Arr(vec![Obj::Ref(3, 0)])), ("Count", Obj::Int(1))])));
    b.add_object(
        3,
        0,
        &Obj::Dict(dict(vec![("Type", Obj::name("Page")), ("Parent", Obj::Ref(2, 0)), ("MediaBox", Obj::Arr(vec![Obj::Int(0), Obj::Int(0), Obj::Int(200), Obj::Int(200)]))])),
    );
    let mut next_free_num = FIRST + c.n;
    let mut members = Vec::new();
    for i in 0..c.n {
        let num = FIRST + i;
        let comp = c.base_layout == 2 && c.base_compressed.get(i as usize).copied().unwrap_or(false);
        let val = marker(num, 0);
        if comp {
            members.push((num, Obj::Str(val.clone())));
        } else {
            b.add_object(num, 0, &Obj::Str(val.clone()));
        }
        model.insert(num, St::Live { gen: 0, val, compressed: comp });
    }
    if !members.is_empty() {
        let stm = next_free_num;
        next_free_num += 1;
        b.add_objstm(stm, &members, c.compress_streams);
        labels.push("base-has-objstm");
    }
    let root = dict(vec![("Root", Obj::Ref(1, 0))]);
    match c.base_layout {
        0 => {
            b.finish_classic(&root);
        }
        _ => {
            let x = next_free_num;
            next_free_num += 1;
            b.finish_stream(x, &root, c.compress_streams);
        }
    }
    for (ri, rev) in c.revisions.iter().enumerate() {
        let r = ri + 1;
        let mut members: Vec<(u32, Obj)> = Vec::new();
        let mut touched = std::collections::BTreeSet::new();
        for op in &rev.ops {
            let live: Vec<u32> = model.iter().filter(|(k, v)| matches!(v, St::Live { .. }) && !touched.contains(*k)).map(|(k, _)| *k).collect();
            let freed: Vec<u32> = model.iter().filter(|(k, v)| matches!(v, St::Freed { .. }) && !touched.contains(*k)).map(|(k, _)| *k).collect();
            match op {
                ROp::Redefine { sel, objstm } => {
                    if live.is_empty() {
                        continue;
                    }
                    let num = live[pick_idx(*sel, live.len())];
                    let St::Live { gen, compressed: was, .. } = model[&num].clone() else { unreachable!() };
                    let comp = *objstm && gen == 0;
                    let val = marker(num, r);
                    if comp {
                        members.push((num, Obj::Str(val.clone())));
                    } else {
                        b.add_object(num, gen, &Obj::Str(val.clone()));
                    }
                    if was != comp {
                        nontrivial = true;
                        labels.push(if was { "old-compressed/new-plain" } else { "old-plain/new-compressed" });
                    }
                    model.insert(num, St::Live { gen, val, compressed: comp });
                    touched.insert(num);
                }
                ROp::Free { sel } => {
                    if live.is_empty() {
                        continue;
                    }
                    let num = live[pick_idx(*sel, live.len())];
                    let St::Live { gen, compressed, .. } = model[&num].clone() else { unreachable!() };
                    b.free_object(num, gen + 1);
                    model.insert(num, St::Freed { last_gen: gen, next_gen: gen + 1 });
                    touched.insert(num);
                    nontrivial = true;
                    labels.push(if compressed { "free-compressed" } else { "free-plain" });
                }
                ROp::ReAdd { sel, objstm: _ } => {
                    if freed.is_empty() {
                        continue;
                    }
                    let num = freed[pick_idx(*sel, freed.len())];
                    let St::Freed { next_gen, .. } = model[&num].clone() else { unreachable!() };
                    let val = marker(num, r);
                    b.add_object(num, next_gen, &Obj::Str(val.clone()));
                    model.insert(num, St::Live { gen: next_gen, val, compressed: false });
                    touched.insert(num);
                    labels.push("free-then-readd");
                }
                ROp::AddNew { objstm } => {
                    let num = next_free_num;
                    next_free_num += 1;
                    let val = marker(num, r);
                    if *objstm {
                        members.push((num, Obj::Str(val.clone())));
                    } else {
                        b.add_object(num, 0, &Obj::Str(val.clone()));
                    }
                    model.insert(num, St::Live { gen: 0, val, compressed: *objstm });
                    touched.insert(num);
                }
            }
        }
        if !members.is_empty() {
            let stm = next_free_num;
            next_free_num += 1;
            b.add_objstm(stm, &members, c.compress_streams);
        }
        let prev_was_table = b.out[b.prev.unwrap()..].starts_with(b"xref");
        let mut kind = rev.xref;
        if kind == 0 && !members.is_empty() {
            kind = 1; // compressed entries cannot live in a classic table
        }
        match kind {
            0 => {
                b.finish_classic(&root);
                labels.push(if prev_was_table { "table-after-table" } else { "table-after-stream" });
            }
            1 => {
                let x = next_free_num;
                next_free_num += 1;
                b.finish_stream(x, &root, c.compress_streams);
                labels.push(if prev_was_table { "stream-after-table" } else { "stream-after-stream" });
            }
            _ => {
                let x = next_free_num;
                next_free_num += 1;
                b.finish_hybrid(x, &root);
                labels.push("hybrid");
            }
        }
    }
    let mut bytes = b.out;
    if let Some(d) = c.damage {
        // damage the newest startxref value
        if let Some(p) = bytes.windows(9).rposition(|w| w == b"startxref") {
            let mut q = p + 10;
            let s = q;
            while q < bytes.len() && bytes[q].is_ascii_digit() {
                q += 1;
            }
            let repl: Vec<u8> = match d % 3 {
                0 => vec![b'0'; q - s],
                1 => vec![b'7'; q - s],
                _ => {
                    // off by a few bytes
                    let v: usize = std::str::from_utf8(&bytes[s..q]).unwrap().parse().unwrap();
                    format!("{:0w$}", v + 3, w = q - s).into_bytes()
                }
            };
            bytes.splice(s..q, repl);
        }
    }
    Built { bytes, model, labels, nontrivial }
}

fn presets() -> Vec<(&'static str, ParseOptions)> {
    vec![("strict", ParseOptions::strict()), ("default", ParseOptions::default()), ("tolerant", ParseOptions::tolerant()), ("skip_errors", ParseOptions::skip_errors())]
}

fn kind_class(st: &St, history_has: &[&'static str]) -> String {
    let mut k: Vec<&str> = Vec::new();
    for l in ["old-compressed/new-plain", "old-plain/new-compressed", "free-compressed", "free-plain", "free-then-readd", "hybrid"] {
        if history_has.contains(&l) {
            k.push(l);
        }
    }
    let _ = st;
    if k.contains(&"hybrid") {
        return "hybrid-xrefstm".into();
    }
    if k.is_empty() {
        "plain-only".into()
    } else {
        k.join("+")
    }
}

pub fn check(c: &Case) -> Outcome {
    let mut o = Outcome::new();
    let built = build(c);
    o.nontrivial(built.nontrivial);
    for l in &built.labels {
        o.label(*l);
    }
    o.label(format!("revisions={}", c.revisions.len()));
    let recovery = c.damage.is_some();
    crate::engine::isolate::dump("c04.pdf", &built.bytes);
    // self-check through the independent strict reader (intact files only)
    if !recovery {
        match refpdf::Reader::open(&built.bytes, None) {
            Err(e) => {
                o.fail("HARNESS/synth-self-check", "refpdf-open", format!("at {}: {}", e.at, e.msg));
                return o;
            }
            Ok(rd) => {
                for (num, st) in &built.model {
                    match st {
                        St::Live { gen, val, .. } => match rd.load(*num, *gen) {
                            Ok(Obj::Str(s)) if &s == val => {}
                            other => o.fail("HARNESS/synth-self-check", "refpdf-value", format!("object {num}: expected {:?}, independent reader {other:?}", String::from_utf8_lossy(val))),
                        },
                        St::Freed { last_gen, .. } => match rd.load(*num, *last_gen) {
                            Ok(Obj::Null) => {}
                            other => o.fail("HARNESS/synth-self-check", "refpdf-freed", format!("object {num}: expected null, independent reader {other:?}")),
                        },
                    }
                }
                let rep = refpdf::validate::validate(&built.bytes, None);
                if let Some(p) = rep.problems.first() {
                    o.fail("HARNESS/synth-self-check", "validator", format!("{}: {}", p.clause, p.detail));
                }
            }
        }
        if !o.fails.is_empty() {
            return o;
        }
    }
    for (pname, opts) in presets() {
        if recovery && pname == "strict" {
            continue;
        }
        let mut rd = match PdfReader::new_with_options(std::io::Cursor::new(built.bytes.clone()), opts) {
            Ok(r) => r,
            Err(e) => {
                if recovery {
                    o.label(format!("recovery-open-failed:{pname}"));
                } else {
                    o.fail("C04/valid-history-opens", format!("preset={pname},{}", kind_class(&St::Freed { last_gen: 0, next_gen: 0 }, &built.labels)), format!("{e}"));
                }
                continue;
            }
        };
        if recovery {
            o.label(format!("recovery-open-ok:{pname}"));
        }
        for (num, st) in &built.model {
            match st {
                St::Live { gen, val, .. } => {
                    let got = rd.get_object(*num, *gen).map(|x| x.clone());
                    let ok = matches!(&got, Ok(PdfObject::String(s)) if s.as_bytes() == val.as_slice());
                    if !ok {
                        let stale = matches!(&got, Ok(PdfObject::String(s)) if s.as_bytes().starts_with(format!("o{num}r").as_bytes()));
                        let class = if recovery {
                            "recovery".to_string()
                        } else {
                            kind_class(st, &built.labels)
                        };
                        o.fail(
                            if stale { "C04/latest-definition-wins" } else { "C04/live-object-readable" },
                            class,
                            format!("preset={pname} object {num} gen {gen}: expected ({}), got {}", String::from_utf8_lossy(val), show(&got)),
                        );
                    }
                }
                St::Freed { last_gen, .. } => {
                    let got = rd.get_object(*num, *last_gen).map(|x| x.clone());
                    match &got {
                        Ok(PdfObject::Null) => {}
                        Err(_) => o.label("freed-reads-as-error"),
                        other => {
                            let class = if recovery { "recovery".to_string() } else { kind_class(st, &built.labels) };
                            o.fail("C04/freed-object-reads-null", class, format!("preset={pname} object {num} gen {last_gen}: expected null, got {}", show(other)));
                        }
                    }
                }
            }
        }
    }
    o
}

fn show(r: &Result<PdfObject, oxidize_pdf::parser::ParseError>) -> String {
    match r {
        Ok(PdfObject::String(s)) => format!("({})", String::from_utf8_lossy(s.as_bytes())),
        Ok(o) => format!("{o:?}"),
        Err(e) => format!("Err({e})"),
    }
}

fn rop() -> impl Strategy<Value = ROp> {
    prop_oneof![
        5 => (any::<u16>(), any::<bool>()).prop_map(|(sel, objstm)| ROp::Redefine { sel, objstm }),
        2 => any::<u16>().prop_map(|sel| ROp::Free { sel }),
        2 => (any::<u16>(), any::<bool>()).prop_map(|(sel, objstm)| ROp::ReAdd { sel, objstm }),
        1 => any::<bool>().prop_map(|objstm| ROp::AddNew { objstm }),
    ]
}

fn strategy() -> impl Strategy<Value = Case> {
    (2u32..=12, 0u8..3, prop::collection::vec(any::<bool>(), 12), any::<bool>(), prop::collection::vec((prop_oneof![9 => Just(0u8), 9 => Just(1u8), 2 => Just(2u8)], prop::collection::vec(rop(), 1..5)), 1..6))
        .prop_map(|(n, base_layout, base_compressed, compress_streams, revs)| Case {
            n,
            base_layout,
            base_compressed,
            compress_streams,
            revisions: revs.into_iter().map(|(xref, ops)| Rev { xref, ops }).collect(),
            damage: None,
        })
}

fn recovery_strategy() -> impl Strategy<Value = Case> {
    (2u32..=12, prop::collection::vec(prop::collection::vec(any::<u16>(), 1..4), 1..5), 0u8..3).prop_map(|(n, revs, damage)| Case {
        n,
        base_layout: 0,
        base_compressed: vec![],
        compress_streams: false,
        revisions: revs.into_iter().map(|sels| Rev { xref: 0, ops: sels.into_iter().map(|sel| ROp::Redefine { sel, objstm: false }).collect() }).collect(),
        damage: Some(damage),
    })
}

pub fn check_recovery(c: &Case) -> Outcome {
    let mut o = check(c);
    o.nontrivial(c.revisions.iter().any(|r| !r.ops.is_empty()));
    o
}

fn run(ctx: &Ctx) {
    ctx.run_sub("history", ctx.tier.pick(8_000, 100_000), strategy, check);
    ctx.run_sub("recovery", ctx.tier.pick(4_000, 50_000), recovery_strategy, check_recovery);
}

fn replay(ctx: &Ctx, sub: &str, case: &Value) -> Result<Outcome, String> {
    match sub.trim_start_matches("replay:") {
        "history" => ctx.replay_case::<Case, _>(case, check),
        "recovery" => ctx.replay_case::<Case, _>(case, check_recovery),
        s => Err(format!("unknown sub-check {s}")),
    }
}

#[allow(dead_code)]
fn unused(_: Dict) {}
