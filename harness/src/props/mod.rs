//! Registry of property checks.
use crate::engine::PropertyDef;

pub mod c01;
pub mod c02;
pub mod c03;
pub mod c04;
pub mod c05;
pub mod c06;
pub mod c07;
pub mod c08;
pub mod c09;
pub mod c10;
pub mod c11;
pub mod c12;
pub mod c13;
pub mod c14;
pub mod c15;
pub mod c16;
pub mod c17;
pub mod c18;
pub mod c19;
pub mod c20;
pub mod c21;
pub mod c22;
pub mod c23;
pub mod c24;
pub mod c25;
pub mod c26;
pub mod c27;
pub mod c28;
pub mod c29;
pub mod c30;
pub mod progdoc;
pub mod util;

pub fn all() -> Vec<PropertyDef> {
    vec![
        c01::def(),
        c02::def(),
        c03::def(),
        c04::def(),
        c05::def(),
        c06::def(),
        c07::def(),
        c08::def(),
        c09::def(),
        c10::def(),
        c11::def(),
        c12::def(),
        c13::def(),
        c14::def(),
        c15::def(),
        c16::def(),
        c17::def(),
        c18::def(),
        c19::def(),
        c20::def(),
        c21::def(),
        c22::def(),
        c23::def(),
        c24::def(),
        c25::def(),
        c26::def(),
        c27::def(),
        c28::def(),
        c29::def(),
        c30::def(),
    ]
}

/// Drivers that run inside an isolated worker process (`vp worker <mem-limit>`, pool protocol).
pub fn worker_dispatch(kind: &str, payload: &[u8]) -> Vec<u8> {
    match kind {
        "c01" => c01::worker(payload),
        "c18" => c18::worker(payload),
        "c20" => c20::worker(payload),
        _ => b"unknown worker kind".to_vec(),
    }
}

pub fn worker_main(args: &[String]) {
    match args.first().map(|s| s.as_str()) {
        // one-shot worker of C21's termination clause: `vp worker c21 <file>`
        Some("c21") => c21::worker_main(&args[1..]),
        _ => crate::engine::isolate::worker_main(args, worker_dispatch),
    }
}
