//! Registry of property checks.
use crate::engine::PropertyDef;

pub mod c04;
pub mod c09;
pub mod c27;
pub mod c29;

pub fn all() -> Vec<PropertyDef> {
    vec![c04::def(), c09::def(), c27::def(), c29::def()]
}

pub fn worker_main(_args: &[String]) {
    eprintln!("no worker yet");
    std::process::exit(2);
}
