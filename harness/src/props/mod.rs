//! Registry of property checks.
use crate::engine::PropertyDef;

pub mod c04;
pub mod c09;
pub mod c14;
pub mod c18;
pub mod c19;
pub mod c25;
pub mod c27;
pub mod c29;
pub mod util;

pub fn all() -> Vec<PropertyDef> {
    vec![c04::def(), c09::def(), c14::def(), c18::def(), c19::def(), c25::def(), c27::def(), c29::def()]
}

/// Drivers that run inside an isolated worker process (`vp worker`).
pub fn worker_dispatch(kind: &str, payload: &[u8]) -> Vec<u8> {
    match kind {
        "c18" => c18::worker(payload),
        _ => b"unknown worker kind".to_vec(),
    }
}

pub fn worker_main(args: &[String]) {
    crate::engine::isolate::worker_main(args, worker_dispatch);
}
