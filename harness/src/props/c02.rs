//! C02 — documents written by the library read back with the same content.
use crate::engine::{Ctx, Outcome, PropertyDef};
use crate::props::progdoc::{self, Call, Cfg, Prog};
use crate::refpdf::{self, Lexer, Obj, Tok};
use oxidize_pdf::parser::content::ContentParser;
use oxidize_pdf::parser::{ParseOptions, PdfReader};
use proptest::prelude::*;
use serde::{Deserialize, Serialize};
use serde_json::Value;

pub fn def() -> PropertyDef {
    PropertyDef {
        id: "C02",
        level: "exploration",
        rule: "authoring programs (1–4 pages of arbitrary size and rotation; interleaved text in the standard fonts with WinAnsi strings incl. ( ) \\, path construction and painting, clipping, q/Q, cm, colours, line width, opacity, gray/RGB/RGBA images, document info) written under the four classic / xref-stream × compression configurations and, for 15 % of the programs, also under the two object-stream configurations — a metamorphic family per program. Oracle: (L1) page count, /MediaBox, /Rotate, the token-level operator list of every page and the decoded image samples are identical across the configurations; (L2) the immediate operators (m l c re h S f B W n and Tj strings) read back in call order with the authored operands within the writer's {:.2} rounding, pages have the authored size and rotation, images decode to the authored samples (RGBA: colour + soft-mask alpha); (L3) the library's reader (PdfDocument + ContentParser, strict preset) and the independent reader see the same page count, boxes, rotation and the same number of operators per page. Non-trivial: ≥ 2 pages or ≥ 1 image, and ≥ 5 modelled operators; distinct by hash of the program.",
        assumptions: &[
            "coordinates are compared with tolerance 0.005 + 1e-6·|x| (writer prints {:.2})",
            "deferred state (colours, line width, text state) is not modelled here (C21 does that); the writer may add state operators but not change the modelled immediate ones",
            "show-text strings are compared as WinAnsi bytes of the authored text",
        ],
        trusted_base: &["refpdf strict reader + lexer", "reftab Annex D WinAnsi table for the expected show-string bytes"],
        run,
        replay,
    }
}

#[derive(Clone, Debug, Serialize, Deserialize)]
pub struct Case {
    pub prog: Prog,
    /// include the two object-stream configurations (each read costs seconds: 10^6-entry xref stream)
    #[serde(default)]
    pub objstm: bool,
}

#[derive(Clone, Debug, PartialEq)]
struct PageView {
    media_box: [f64; 4],
    rotate: i64,
    ops: Vec<(String, Vec<String>)>,
    images: Vec<(String, i64, i64, Vec<u8>, Option<Vec<u8>>)>, // name, w, h, samples, alpha
}

fn num(o: &Obj) -> Option<f64> {
    o.as_num()
}

fn tokenize(content: &[u8]) -> Result<Vec<(String, Vec<String>)>, String> {
    let mut lx = Lexer::new(content, 0);
    let mut ops = Vec::new();
    let mut operands: Vec<String> = Vec::new();
    let mut depth = 0i32;
    loop {
        let t = lx.next_tok().map_err(|e| format!("at {}: {}", e.at, e.msg))?;
        match t {
            Tok::Eof => break,
            Tok::Kw(k) if depth == 0 => {
                ops.push((String::from_utf8_lossy(&k).into_owned(), std::mem::take(&mut operands)));
            }
            Tok::Kw(k) => operands.push(String::from_utf8_lossy(&k).into_owned()),
            Tok::Int(i) => operands.push(format!("{:.4}", i as f64)),
            Tok::Real(r) => operands.push(format!("{:.4}", r)),
            Tok::Str(s) => operands.push(format!("({})", s.iter().map(|b| format!("{b:02x}")).collect::<String>())),
            Tok::Name(n) => operands.push(format!("/{}", String::from_utf8_lossy(&n))),
            Tok::ArrOpen => {
                depth += 1;
                operands.push("[".into())
            }
            Tok::ArrClose => {
                depth -= 1;
                operands.push("]".into())
            }
            Tok::DictOpen => {
                depth += 1;
                operands.push("<<".into())
            }
            Tok::DictClose => {
                depth -= 1;
                operands.push(">>".into())
            }
        }
    }
    Ok(ops)
}

fn view_ref(bytes: &[u8]) -> Result<Vec<PageView>, String> {
    let rd = refpdf::Reader::open(bytes, None).map_err(|e| format!("open at {}: {}", e.at, e.msg))?;
    let pages = rd.pages().map_err(|e| e.msg)?;
    let mut out = Vec::new();
    for p in &pages {
        let mb = match p.inherited.get(b"MediaBox").map(|m| rd.resolve(m)) {
            Some(Ok(Obj::Arr(a))) if a.len() == 4 => {
                let v: Vec<f64> = a.iter().filter_map(num).collect();
                if v.len() != 4 {
                    return Err("MediaBox not numeric".into());
                }
                [v[0], v[1], v[2], v[3]]
            }
            other => return Err(format!("MediaBox: {other:?}")),
        };
        let rotate = match p.inherited.get(b"Rotate") {
            None => 0,
            Some(Obj::Int(i)) => *i,
            Some(x) => return Err(format!("Rotate: {x:?}")),
        };
        let content = rd.page_content(p).map_err(|e| format!("content: {}", e.msg))?;
        let ops = tokenize(&content)?;
        let mut images = Vec::new();
        if let Some(Ok(Obj::Dict(res))) = p.inherited.get(b"Resources").map(|r| rd.resolve(r)) {
            if let Some(Ok(Obj::Dict(xo))) = res.get(b"XObject").map(|x| rd.resolve(x)) {
                let mut keys: Vec<Vec<u8>> = xo.keys().map(|k| k.to_vec()).collect();
                keys.sort();
                for k in keys {
                    if let Ok(Obj::Stream(s)) = rd.resolve(xo.get(&k).unwrap()) {
                        if s.dict.name(b"Subtype") == Some(b"Image") {
                            let data = rd.stream_data(&s).map_err(|e| format!("image data: {}", e.msg))?;
                            let alpha = match s.dict.get(b"SMask").map(|m| rd.resolve(m)) {
                                Some(Ok(Obj::Stream(m))) => Some(rd.stream_data(&m).map_err(|e| format!("smask data: {}", e.msg))?),
                                _ => None,
                            };
                            images.push((String::from_utf8_lossy(&k).into_owned(), s.dict.int(b"Width").unwrap_or(-1), s.dict.int(b"Height").unwrap_or(-1), data, alpha));
                        }
                    }
                }
            }
        }
        out.push(PageView { media_box: mb, rotate, ops, images });
    }
    Ok(out)
}

struct LibView {
    pages: Vec<([f64; 4], i32, usize)>,
}

fn view_lib(bytes: &[u8]) -> Result<LibView, String> {
    let rd = PdfReader::new_with_options(std::io::Cursor::new(bytes.to_vec()), ParseOptions::strict()).map_err(|e| format!("open: {e}"))?;
    let doc = rd.into_document();
    let n = doc.page_count().map_err(|e| format!("page_count: {e}"))?;
    let mut pages = Vec::new();
    for i in 0..n {
        let p = doc.get_page(i).map_err(|e| format!("get_page({i}): {e}"))?;
        let content = doc.get_page_content_streams(&p).map_err(|e| format!("content({i}): {e}"))?.concat();
        let ops = ContentParser::parse(&content).map_err(|e| format!("ContentParser({i}): {e}"))?;
        pages.push((p.media_box, p.rotation, ops.len()));
    }
    Ok(LibView { pages })
}

fn winansi(text: &str) -> Vec<u8> {
    use crate::reftab::{table, CharClass, Enc};
    text.chars()
        .map(|c| match table(Enc::WinAnsi).classify(c) {
            CharClass::Repertoire(v) | CharClass::Optional(v) => v[0],
            CharClass::Outside => b'?',
        })
        .collect()
}

fn hex(b: &[u8]) -> String {
    format!("({})", b.iter().map(|x| format!("{x:02x}")).collect::<String>())
}

/// the immediate operators the program must produce on a page, in call order
fn expected_immediate(calls: &[Call]) -> Vec<(String, Vec<f64>, Option<String>)> {
    let mut v = Vec::new();
    for c in calls {
        match c {
            Call::MoveTo(x, y) => v.push(("m".into(), vec![*x, *y], None)),
            Call::LineTo(x, y) => v.push(("l".into(), vec![*x, *y], None)),
            Call::CurveTo(a, b, c2, d, e, f) => v.push(("c".into(), vec![*a, *b, *c2, *d, *e, *f], None)),
            Call::Rect(x, y, w, h) => v.push(("re".into(), vec![*x, *y, *w, *h], None)),
            Call::ClosePath => v.push(("h".into(), vec![], None)),
            Call::Stroke => v.push(("S".into(), vec![], None)),
            Call::Fill => v.push(("f".into(), vec![], None)),
            Call::FillStroke => v.push(("B".into(), vec![], None)),
            Call::Clip => v.push(("W".into(), vec![], None)),
            Call::EndPath => v.push(("n".into(), vec![], None)),
            Call::Text { text, .. } => v.push(("Tj".into(), vec![], Some(hex(&winansi(text))))),
            _ => {}
        }
    }
    v
}

pub fn check(c: &Case) -> Outcome {
    let mut o = Outcome::new();
    let n_ops: usize = c.prog.pages.iter().map(|p| expected_immediate(&p.calls).len()).sum();
    let has_img = c.prog.pages.iter().any(|p| !p.images.is_empty());
    o.nontrivial((c.prog.pages.len() >= 2 || has_img) && n_ops >= 5);
    o.label(format!("pages={}", c.prog.pages.len()));
    o.label_if(has_img, "image");
    o.label_if(c.prog.pages.iter().any(|p| p.images.iter().any(|i| i.kind == 2)), "rgba-image");
    o.label_if(c.prog.pages.iter().any(|p| p.rotation != 0), "rotated-page");
    let mut views: Vec<(Cfg, Vec<PageView>)> = Vec::new();
    for cfg in Cfg::all().into_iter().filter(|k| c.objstm || !k.object_streams) {
        let name = cfg.name();
        let bytes = match progdoc::write(&c.prog, cfg) {
            Ok(b) => b,
            Err(_) => {
                o.label("authoring-refused");
                return o;
            }
        };
        if cfg == Cfg::all()[0] {
            crate::engine::isolate::dump("c02_classic.pdf", &bytes);
        }
        let lay0 = name.split('+').next().unwrap().to_string();
        let v = match view_ref(&bytes) {
            Ok(v) => v,
            Err(e) => {
                o.fail("C02/independent-reader-reads", format!("layout={lay0}"), format!("config {name}: {e}"));
                continue;
            }
        };
        // L3: library view agrees with the independent view
        match view_lib(&bytes) {
            Err(e) => o.fail("C02/library-reader-reads", format!("layout={lay0}"), format!("config {name}: {e}")),
            Ok(lv) => {
                if lv.pages.len() != v.len() {
                    o.fail("C02/readers-agree", format!("page-count,layout={lay0}"), format!("config {name}: library {} pages, independent reader {}", lv.pages.len(), v.len()));
                } else {
                    for (i, (lp, rp)) in lv.pages.iter().zip(&v).enumerate() {
                        if lp.0.iter().zip(&rp.media_box).any(|(a, b)| (a - b).abs() > 1e-6) {
                            o.fail("C02/readers-agree", format!("MediaBox,layout={lay0}"), format!("config {name} page {i}: library {:?}, independent {:?}", lp.0, rp.media_box));
                        }
                        if (lp.1 as i64 - rp.rotate).rem_euclid(360) != 0 {
                            o.fail("C02/readers-agree", format!("Rotate,layout={lay0}"), format!("config {name} page {i}: library {}, independent {}", lp.1, rp.rotate));
                        }
                        if lp.2 != rp.ops.len() {
                            o.fail("C02/readers-agree", format!("operator-count,layout={lay0}"), format!("config {name} page {i}: ContentParser {} operators, independent tokenizer {}", lp.2, rp.ops.len()));
                        }
                    }
                }
            }
        }
        views.push((cfg, v));
    }
    let Some((_, base)) = views.first().cloned() else { return o };
    // L1: identical across configurations
    for (cfg, v) in &views[1..] {
        if v != &base {
            let what = if v.len() != base.len() {
                "page-count".to_string()
            } else {
                let i = (0..v.len()).find(|i| v[*i] != base[*i]).unwrap();
                if v[i].media_box != base[i].media_box {
                    "MediaBox".into()
                } else if v[i].rotate != base[i].rotate {
                    "Rotate".into()
                } else if v[i].ops != base[i].ops {
                    "operators".into()
                } else {
                    "images".into()
                }
            };
            o.fail("C02/same-under-every-configuration", format!("{what},config={}", cfg.name().split('+').next().unwrap()), format!("{} differs from classic in {what}", cfg.name()));
        }
    }
    // L2: the authored model
    if base.len() != c.prog.pages.len() {
        o.fail("C02/page-count-as-authored", "count", format!("authored {}, read {}", c.prog.pages.len(), base.len()));
        return o;
    }
    for (i, (pp, pv)) in c.prog.pages.iter().zip(&base).enumerate() {
        let want = [0.0, 0.0, pp.w, pp.h];
        if pv.media_box.iter().zip(&want).any(|(a, b)| (a - b).abs() > 0.005 + 1e-6 * b.abs()) {
            o.fail("C02/page-box-as-authored", "MediaBox", format!("page {i}: authored {:?}, read {:?}", want, pv.media_box));
        }
        if (pv.rotate - pp.rotation as i64).rem_euclid(360) != 0 {
            o.fail("C02/rotation-as-authored", format!("rotation={}", pp.rotation), format!("page {i}: authored {}, read {}", pp.rotation, pv.rotate));
        }
        let exp = expected_immediate(&pp.calls);
        let got: Vec<&(String, Vec<String>)> = pv.ops.iter().filter(|(op, _)| matches!(op.as_str(), "m" | "l" | "c" | "re" | "h" | "S" | "f" | "B" | "W" | "n" | "Tj")).collect();
        if got.len() != exp.len() || got.iter().zip(&exp).any(|(g, e)| g.0 != e.0) {
            o.fail(
                "C02/immediate-operators-in-call-order",
                "sequence",
                format!("page {i}: authored {:?}, read {:?}", exp.iter().map(|e| e.0.as_str()).collect::<Vec<_>>(), got.iter().map(|g| g.0.as_str()).collect::<Vec<_>>()),
            );
        } else {
            for (g, e) in got.iter().zip(&exp) {
                if let Some(s) = &e.2 {
                    if g.1.last() != Some(s) {
                        o.fail("C02/show-strings-as-authored", "Tj", format!("page {i}: authored {s}, read {:?}", g.1));
                    }
                } else {
                    let nums: Vec<f64> = g.1.iter().filter_map(|x| x.parse::<f64>().ok()).collect();
                    if nums.len() != e.1.len() || nums.iter().zip(&e.1).any(|(a, b)| (a - b).abs() > 0.0051 + 1e-6 * b.abs()) {
                        o.fail("C02/operands-as-authored", format!("operator={}", e.0), format!("page {i}: authored {:?}, read {:?}", e.1, g.1));
                    }
                }
            }
        }
        // Do operands: drawn images in call order
        let want_do: Vec<String> = pp.calls.iter().filter_map(|c| if let Call::DrawImage { img, .. } = c { if pp.images.is_empty() { None } else { Some(format!("/{}", pp.images[*img as usize % pp.images.len()].name)) } } else { None }).collect();
        let got_do: Vec<String> = pv.ops.iter().filter(|(op, _)| op == "Do").filter_map(|(_, a)| a.last().cloned()).collect();
        if want_do != got_do {
            o.fail("C02/immediate-operators-in-call-order", "Do", format!("page {i}: authored {want_do:?}, read {got_do:?}"));
        }
        // images
        for im in &pp.images {
            let px = progdoc::image_pixels(im);
            match pv.images.iter().find(|x| x.0 == im.name) {
                None => o.fail("C02/images-as-authored", "missing", format!("page {i}: image {:?} not among {:?}", im.name, pv.images.iter().map(|x| &x.0).collect::<Vec<_>>())),
                Some((_, w, h, data, alpha)) => {
                    if *w != im.w as i64 || *h != im.h as i64 {
                        o.fail("C02/images-as-authored", "dimensions", format!("page {i}: image {:?} authored {}x{}, read {w}x{h}", im.name, im.w, im.h));
                        continue;
                    }
                    let (want_rgb, want_a): (Vec<u8>, Option<Vec<u8>>) = match im.kind {
                        2 => (px.chunks(4).flat_map(|c| c[..3].to_vec()).collect(), Some(px.chunks(4).map(|c| c[3]).collect())),
                        _ => (px.clone(), None),
                    };
                    if data != &want_rgb {
                        o.fail("C02/images-as-authored", format!("samples,kind={}", ["gray", "rgb", "rgba"][im.kind as usize % 3]), format!("page {i}: image {:?} samples differ ({} vs {} bytes)", im.name, data.len(), want_rgb.len()));
                    }
                    if let Some(a) = want_a {
                        if alpha.as_ref() != Some(&a) {
                            o.fail("C02/images-as-authored", "alpha", format!("page {i}: image {:?} soft mask {:?} vs authored alpha of {} bytes", im.name, alpha.as_ref().map(|x| x.len()), a.len()));
                        }
                    }
                }
            }
        }
    }
    o
}

fn strategy() -> impl Strategy<Value = Case> {
    (progdoc::prog(), prop::bool::weighted(0.15)).prop_map(|(prog, objstm)| Case { prog, objstm })
}

fn run(ctx: &Ctx) {
    ctx.set_shrink_budget(120);
    ctx.run_sub("programs", ctx.tier.pick(400, 8_000), strategy, check);
    // documents large enough for several object streams (the writer starts a new one every 100 members);
    // each evaluation costs seconds (10^6-entry xref stream), so minimisation gets a small budget
    ctx.set_shrink_budget(25);
    ctx.run_sub("many-objects", ctx.tier.pick(16, 300), || progdoc::prog_many().prop_map(|prog| Case { prog, objstm: true }), check);
}

fn replay(ctx: &Ctx, sub: &str, case: &Value) -> Result<Outcome, String> {
    match sub.trim_start_matches("replay:") {
        "programs" | "many-objects" => ctx.replay_case::<Case, _>(case, check),
        s => Err(format!("unknown sub-check {s}")),
    }
}
