//! C17 — incremental updates are append-only and take effect.
//!
//! A case is (base document, history of ≤ 5 edits). The base is either authored by the library
//! (Document + FormManager, three writer layouts) or by the independent synthesizer (AcroForm with
//! flat / hierarchical text fields, notes, /Info; classic / xref stream / object streams). Every edit is
//! applied by the library's incremental writers to the bytes produced by the previous step. After every
//! step the oracle compares the new file with the previous one through the independent reader
//! (`refpdf`) and through the library's own reader.
use crate::engine::{pick_idx, trunc, Ctx, Outcome, PropertyDef};
use crate::refpdf::synth::{self, Builder, StrStyle};
use crate::refpdf::{self, textstring, Dict, Obj};
use oxidize_pdf::parser::objects::{PdfDictionary, PdfObject};
use oxidize_pdf::parser::{ParseOptions, PdfDocument, PdfReader};
use oxidize_pdf::writer::{IncrementalFormFiller, IncrementalTextNoteEditor, PdfWriter, TextNoteId, TextNoteMutation, WriterConfig};
use proptest::prelude::*;
use serde::{Deserialize, Serialize};
use serde_json::Value;
use std::collections::{BTreeMap, BTreeSet};
use std::io::Cursor;

pub fn def() -> PropertyDef {
    PropertyDef {
        id: "C17",
        level: "exploration",
        rule: "cases = (base, history). Base: library-authored form (Document+FormManager, 1–6 text fields with widgets, 1–3 pages with content, optional text notes, title; written classic / xref stream / object streams) or synthesizer-authored form (1–6 /Tx fields flat or hierarchical a.b / a.b.c with merged, kid, parent-linked or no widget; /Info title; text notes + link annotation, direct or indirect /Annots; classic / xref stream / xref stream + object streams for a random subset of objects; object numbers rotated; optionally a second base revision). History: 1–5 steps from {fill, fill_many, note add / update (move+edit) / move / edit / remove / batch, page replacement, overlay}, values from ASCII (incl. delimiters), Latin-1, BMP, astral. Every step is judged against the previous file as seen by the independent reader. Non-trivial: ≥ 2 successful steps that edit the same field or note twice, or a base with object streams, or a base with two revisions; distinct by hash of the case.",
        assumptions: &[
            "an edit the library refuses with Err (unknown field, value not encodable for the appearance stream, note outside the page, no /AcroForm) produces no output and is not a violation (value-or-error contract); refusals are counted by label",
            "page replacement takes its /Info from the replacement Document by design (the API's example sets a new title), so /Info is not demanded unchanged for that edit; it is for every other edit",
            "field partial names contain no period (ISO 32000-1 12.7.3.2) and base text strings avoid the PDFDocEncoding codes that differ from WinAnsi (the library's reader decodes non-BOM text as WinAnsi: C10's subject, not C17's)",
            "appearance streams (/AP) added by a fill and /NeedAppearances are part of the edit, not of the frame",
        ],
        trusted_base: &["refpdf strict reader + validator (independent reader)", "refpdf synthesizer (gated: every synthesized base must validate and expose exactly the authored fields/notes/title)", "refpdf text-string codec"],
        run,
        replay,
    }
}

// ---------------------------------------------------------------------------------------------
// Case
// ---------------------------------------------------------------------------------------------

#[derive(Clone, Debug, Serialize, Deserialize)]
pub struct FieldSpec {
    /// partial name (no period)
    pub name: String,
    /// initial /V
    pub value: Option<String>,
    /// 0 top level, 1 under group g0, 2 under g0.g1 (synth only; library bases are flat)
    pub depth: u8,
    /// synth: 0 no widget, 1 merged field+widget, 2 separate widget in /Kids, 3 widget linked by /Parent only
    pub widget: u8,
    pub page: u8,
    /// synth: /FT only on the group node (inherited)
    pub ft_inherited: bool,
}

#[derive(Clone, Debug, Serialize, Deserialize)]
pub struct NoteSpec {
    pub page: u8,
    pub x: u16,
    pub y: u16,
    pub contents: String,
}

#[derive(Clone, Debug, Serialize, Deserialize)]
pub struct Base {
    /// true: Document + FormManager; false: refpdf synthesizer
    pub library: bool,
    /// 0 classic, 1 xref stream, 2 xref stream + object streams
    pub layout: u8,
    pub fields: Vec<FieldSpec>,
    pub groups: [String; 2],
    pub pages: u8,
    pub title: Option<String>,
    pub notes: Vec<NoteSpec>,
    // synth only
    pub objstm_mask: u32,
    pub rot: u8,
    pub annots_indirect: bool,
    pub hex_strings: bool,
    pub with_id: bool,
    pub link: bool,
    pub inherit_mediabox: bool,
    pub compress_content: bool,
    /// a second revision inside the base that redefines the first field's /V
    pub second_revision: bool,
}

#[derive(Clone, Debug, Serialize, Deserialize)]
pub enum NoteOp {
    Add { page: u16, x: u16, y: u16, contents: String },
    /// move + edit
    Update { pick: u16, x: u16, y: u16, contents: String },
    Move { pick: u16, x: u16, y: u16 },
    Edit { pick: u16, contents: String },
    Remove { pick: u16 },
}

#[derive(Clone, Debug, Serialize, Deserialize)]
pub enum Step {
    Fill { field: u16, value: String },
    FillMany { items: Vec<(u16, String)> },
    Notes { ops: Vec<NoteOp> },
    Replace { pages: u8, title: Option<String> },
    Overlay,
}

#[derive(Clone, Debug, Serialize, Deserialize)]
pub struct Case {
    pub base: Base,
    pub steps: Vec<Step>,
}

impl Base {
    /// fully-qualified names in spec order
    pub fn full_names(&self) -> Vec<String> {
        self.fields
            .iter()
            .map(|f| match if self.library { 0 } else { f.depth } {
                0 => f.name.clone(),
                1 => format!("{}.{}", self.groups[0], f.name),
                _ => format!("{}.{}.{}", self.groups[0], self.groups[1], f.name),
            })
            .collect()
    }
}

// ---------------------------------------------------------------------------------------------
// Generators
// ---------------------------------------------------------------------------------------------

/// Characters whose PDFDocEncoding byte equals their WinAnsi byte (ASCII printable, Latin-1 A1–FF minus AD)
/// or that are outside PDFDocEncoding altogether (→ UTF-16BE).
fn text_any() -> BoxedStrategy<String> {
    prop_oneof![
        5 => "[A-Za-z0-9 _:-]{1,10}",
        2 => "[ -~]{0,12}",
        1 => "[()\\\\<>/%#\\[\\]]{1,5}",
        2 => "[a-zéüñÀß¿]{1,8}",
        1 => "[a-z中Жש]{1,6}",
        1 => "[a-z\u{1F600}\u{10348}]{1,4}",
    ]
    .boxed()
}

/// Values for fills: ~16 % non-ASCII (the region of the known raw-UTF-8 defect).
fn fill_value() -> BoxedStrategy<String> {
    prop_oneof![
        10 => "[A-Za-z0-9 _:-]{1,10}",
        4 => "[ -~]{0,12}",
        2 => "[()\\\\<>/%#\\[\\]]{1,5}",
        1 => "[a-zéüñÀß¿]{1,8}",
        1 => "[a-z中Жש]{1,6}",
        1 => "[a-z\u{1F600}\u{10348}]{1,4}",
    ]
    .boxed()
}

fn partial_name() -> BoxedStrategy<String> {
    prop_oneof![
        6 => "[A-Za-z][A-Za-z0-9_]{0,7}",
        1 => "[A-Za-z ()/#-]{1,6}",
        1 => "[a-zéñü]{1,6}",
        1 => "[a-z中Ж\u{1F600}]{1,4}",
    ]
    .boxed()
}

fn ascii_name() -> BoxedStrategy<String> {
    "[A-Za-z][A-Za-z0-9_]{0,7}".boxed()
}

fn note_contents() -> BoxedStrategy<String> {
    // the editor rejects blank contents (documented: "Non-empty note contents")
    text_any().prop_map(|s| if s.trim().is_empty() { format!("n{s}") } else { s }).boxed()
}

fn field_spec(library: bool) -> BoxedStrategy<FieldSpec> {
    let name = if library { prop_oneof![12 => ascii_name(), 1 => partial_name()].boxed() } else { partial_name() };
    let value = if library {
        // a library-authored initial value is written as raw UTF-8 (C10); keep the base itself clean
        prop_oneof![2 => Just(None), 2 => "[ -~]{0,10}".prop_map(Some)].boxed()
    } else {
        prop_oneof![2 => Just(None), 3 => text_any().prop_map(Some)].boxed()
    };
    (name, value, prop_oneof![3 => Just(0u8), 2 => Just(1u8), 1 => Just(2u8)], 0u8..4, 0u8..3, prop::bool::weighted(0.15))
        .prop_map(|(name, value, depth, widget, page, ft_inherited)| FieldSpec { name, value, depth, widget, page, ft_inherited })
        .boxed()
}

fn dedupe(fields: &mut [FieldSpec], library: bool) {
    // fully-qualified names must be distinct
    let mut seen = BTreeSet::new();
    for (i, f) in fields.iter_mut().enumerate() {
        if library {
            f.depth = 0;
        }
        let key = (f.depth, f.name.clone());
        if !seen.insert(key) {
            f.name = format!("{}_{}", f.name, i);
            seen.insert((f.depth, f.name.clone()));
        }
    }
}

fn base_strategy() -> BoxedStrategy<Base> {
    let common = |library: bool| {
        (
            prop::collection::vec(field_spec(library), 1..7),
            (ascii_name(), partial_name()),
            1u8..4,
            prop_oneof![1 => Just(None), 4 => text_any().prop_map(Some)],
            prop::collection::vec((0u8..3, 0u16..=1000, 0u16..=1000, note_contents()), 0..3),
        )
    };
    let synth_extra = (any::<u32>(), 0u8..40, any::<bool>(), any::<bool>(), any::<bool>(), any::<bool>(), prop::bool::weighted(0.3), any::<bool>(), prop::bool::weighted(0.25));
    // WriterConfig::modern() numbers its object streams from 1 000 000, so such a base has a 1 000 001-entry
    // cross-reference stream and every parse of it costs ~0.1 s: keep that layout to ~4 % of all cases
    let lib = (common(true), prop_oneof![5 => Just(0u8), 4 => Just(1u8), 1 => Just(2u8)]).prop_map(|((mut fields, (g0, g1), pages, title, notes), layout)| {
        dedupe(&mut fields, true);
        Base {
            library: true,
            layout,
            fields,
            groups: [g0, g1],
            pages,
            // Document::set_title writes raw UTF-8 (C10): keep the authored base clean
            title: title.map(|t| t.chars().filter(|c| c.is_ascii() && *c >= ' ').collect::<String>()),
            notes: notes.into_iter().map(|(page, x, y, contents)| NoteSpec { page, x, y, contents: contents.chars().filter(|c| c.is_ascii()).collect::<String>() + "n" }).collect(),
            objstm_mask: 0,
            rot: 0,
            annots_indirect: false,
            hex_strings: false,
            with_id: false,
            link: false,
            inherit_mediabox: false,
            compress_content: true,
            second_revision: false,
        }
    });
    let syn = (common(false), prop_oneof![2 => Just(0u8), 2 => Just(1u8), 3 => Just(2u8)], synth_extra).prop_map(
        |((mut fields, (g0, g1), pages, title, notes), layout, (objstm_mask, rot, annots_indirect, hex_strings, with_id, link, inherit_mediabox, compress_content, second_revision))| {
            dedupe(&mut fields, false);
            let g1 = if g1 == g0 { format!("{g1}x") } else { g1 };
            // a top-level field must not share its name with the group node
            for f in fields.iter_mut() {
                if f.depth == 0 && f.name == g0 {
                    f.name.push('y');
                }
                if f.depth == 1 && f.name == g1 {
                    f.name.push('y');
                }
            }
            Base {
                library: false,
                layout,
                fields,
                groups: [g0, g1],
                pages,
                title,
                notes: notes.into_iter().map(|(page, x, y, contents)| NoteSpec { page, x, y, contents }).collect(),
                objstm_mask,
                rot,
                annots_indirect,
                hex_strings,
                with_id,
                link,
                inherit_mediabox,
                compress_content,
                second_revision,
            }
        },
    );
    prop_oneof![2 => lib, 3 => syn].boxed()
}

fn note_op() -> BoxedStrategy<NoteOp> {
    let p = || 0u16..=1000;
    prop_oneof![
        4 => (any::<u16>(), p(), p(), note_contents()).prop_map(|(page, x, y, contents)| NoteOp::Add { page, x, y, contents }),
        2 => (any::<u16>(), p(), p(), note_contents()).prop_map(|(pick, x, y, contents)| NoteOp::Update { pick, x, y, contents }),
        2 => (any::<u16>(), p(), p()).prop_map(|(pick, x, y)| NoteOp::Move { pick, x, y }),
        2 => (any::<u16>(), note_contents()).prop_map(|(pick, contents)| NoteOp::Edit { pick, contents }),
        2 => any::<u16>().prop_map(|pick| NoteOp::Remove { pick }),
    ]
    .boxed()
}

fn step_strategy() -> BoxedStrategy<Step> {
    // a small set of pick values makes "same field twice" frequent
    let fpick = || prop_oneof![3 => Just(0u16), 1 => Just(u16::MAX), 2 => any::<u16>()];
    prop_oneof![
        10 => (fpick(), fill_value()).prop_map(|(field, value)| Step::Fill { field, value }),
        5 => prop::collection::vec((fpick(), fill_value()), 1..4).prop_map(|items| Step::FillMany { items }),
        10 => prop::collection::vec(note_op(), 1..2).prop_map(|ops| Step::Notes { ops }),
        3 => prop::collection::vec(note_op(), 2..4).prop_map(|ops| Step::Notes { ops }),
        1 => (1u8..3, prop_oneof![Just(None), "[A-Za-z ]{1,8}".prop_map(Some)]).prop_map(|(pages, title)| Step::Replace { pages, title }),
        1 => Just(Step::Overlay),
    ]
    .boxed()
}

pub fn strategy() -> impl Strategy<Value = Case> {
    (base_strategy(), prop::collection::vec(step_strategy(), 1..6)).prop_map(|(base, steps)| Case { base, steps })
}

// ---------------------------------------------------------------------------------------------
// Bases
// ---------------------------------------------------------------------------------------------

const PAGE_W: f64 = 595.0; // the smaller of A4 (595×842) and the synthesized 612×792 boxes bounds every generated position
const PAGE_H: f64 = 780.0;

fn note_xy(x: u16, y: u16, w: f64, h: f64) -> (f64, f64) {
    // quarter-point grid inside [0, PAGE_W - w] × [0, PAGE_H - h]
    let fx = ((x as f64 / 1000.0) * (PAGE_W - w) * 4.0).floor() / 4.0;
    let fy = ((y as f64 / 1000.0) * (PAGE_H - h) * 4.0).floor() / 4.0;
    (fx, fy)
}

/// Hook H2 + explicit creation date: library-authored bytes do not depend on the wall clock.
fn fix_clock(doc: &mut oxidize_pdf::Document) {
    use chrono::TimeZone;
    oxidize_pdf::verif_clock::set_fixed_clock(Some(1_750_000_000));
    if let Some(t) = chrono::Utc.timestamp_opt(1_750_000_000, 0).single() {
        doc.set_creation_date(t);
    }
}

fn build_library_base(b: &Base) -> Result<Vec<u8>, String> {
    use oxidize_pdf::annotations::TextAnnotation;
    use oxidize_pdf::forms::{FormManager, TextField, Widget, WidgetAppearance};
    use oxidize_pdf::geometry::{Point, Rectangle};
    use oxidize_pdf::text::Font;
    use oxidize_pdf::{Document, Page};
    let mut doc = Document::new();
    fix_clock(&mut doc);
    if let Some(t) = &b.title {
        doc.set_title(t.clone());
    }
    let mut pages: Vec<Page> = Vec::new();
    for i in 0..b.pages {
        let mut p = Page::a4();
        p.text().set_font(Font::Helvetica, 12.0).at(50.0, 800.0).write(&format!("Base page {i} body")).map_err(|e| format!("page text: {e}"))?;
        pages.push(p);
    }
    let mut fm = FormManager::new();
    for (i, f) in b.fields.iter().enumerate() {
        let pi = (f.page % b.pages) as usize;
        let y = 700.0 - 40.0 * i as f64;
        let rect = Rectangle::new(Point::new(100.0, y), Point::new(300.0, y + 20.0));
        let widget = Widget::new(rect).with_appearance(WidgetAppearance::default());
        let mut field = TextField::new(f.name.clone());
        if let Some(v) = &f.value {
            field = field.with_value(v.clone());
        }
        let r = fm.add_text_field(field, widget.clone(), None).map_err(|e| format!("add_text_field: {e}"))?;
        pages[pi].add_form_widget_with_ref(widget, r).map_err(|e| format!("add_form_widget_with_ref: {e}"))?;
    }
    for n in &b.notes {
        let pi = (n.page % b.pages) as usize;
        let (x, y) = note_xy(n.x, n.y, 20.0, 20.0);
        let a = TextAnnotation::new(Point::new(x, y)).with_contents(n.contents.clone()).to_annotation();
        pages[pi].add_annotation(a);
    }
    for p in pages {
        doc.add_page(p);
    }
    doc.set_form_manager(fm);
    let cfg = match b.layout {
        0 => WriterConfig { use_xref_streams: false, use_object_streams: false, pdf_version: "1.7".into(), compress_streams: true, incremental_update: false },
        1 => WriterConfig { use_xref_streams: true, use_object_streams: false, pdf_version: "1.5".into(), compress_streams: true, incremental_update: false },
        _ => WriterConfig::modern(),
    };
    doc.to_bytes_with_config(cfg).map_err(|e| format!("to_bytes_with_config: {e}"))
}

fn text_obj(s: &str) -> Obj {
    Obj::Str(textstring::encode(s))
}

fn rf(n: u32) -> Obj {
    Obj::Ref(n, 0)
}

fn nums(v: &[f64]) -> Obj {
    synth::arr_nums(v)
}

/// Synthesized base. Returns the bytes.
fn build_synth_base(b: &Base) -> Vec<u8> {
    let npages = b.pages as usize;
    // ---- slots
    let mut nslots = 0usize;
    let mut alloc = || {
        nslots += 1;
        nslots - 1
    };
    let s_catalog = alloc();
    let s_pages = alloc();
    let s_info = alloc();
    let s_font = alloc();
    let s_acro = alloc();
    let s_page: Vec<usize> = (0..npages).map(|_| alloc()).collect();
    let s_content: Vec<usize> = (0..npages).map(|_| alloc()).collect();
    let s_annots: Vec<Option<usize>> = (0..npages).map(|_| if b.annots_indirect { Some(alloc()) } else { None }).collect();
    let use_g0 = b.fields.iter().any(|f| f.depth >= 1);
    let use_g1 = b.fields.iter().any(|f| f.depth >= 2);
    let s_g0 = if use_g0 { Some(alloc()) } else { None };
    let s_g1 = if use_g1 { Some(alloc()) } else { None };
    let s_field: Vec<usize> = b.fields.iter().map(|_| alloc()).collect();
    let s_widget: Vec<Option<usize>> = b.fields.iter().map(|f| if f.widget >= 2 { Some(alloc()) } else { None }).collect();
    let s_note: Vec<usize> = b.notes.iter().map(|_| alloc()).collect();
    let s_link = if b.link { Some(alloc()) } else { None };
    let total = nslots;
    let rot = b.rot as usize % total;
    let num = |slot: usize| 1 + ((slot + rot) % total) as u32;

    // ---- objects
    let mut objs: BTreeMap<u32, Obj> = BTreeMap::new();
    let mut page_annots: Vec<Vec<Obj>> = vec![Vec::new(); npages];
    let mediabox = nums(&[0.0, 0.0, 612.0, 792.0]);

    // fields
    let mut top_fields: Vec<Obj> = Vec::new();
    let mut g0_kids: Vec<Obj> = Vec::new();
    let mut g1_kids: Vec<Obj> = Vec::new();
    for (i, f) in b.fields.iter().enumerate() {
        let n = num(s_field[i]);
        let pi = (f.page as usize) % npages;
        let mut d = Dict::new();
        if !(f.ft_inherited && f.depth >= 1) {
            d.set(b"FT", Obj::name("Tx"));
        }
        d.set(b"T", text_obj(&f.name));
        if let Some(v) = &f.value {
            d.set(b"V", text_obj(v));
        }
        match f.depth {
            0 => top_fields.push(rf(n)),
            1 => {
                d.set(b"Parent", rf(num(s_g0.unwrap())));
                g0_kids.push(rf(n));
            }
            _ => {
                d.set(b"Parent", rf(num(s_g1.unwrap())));
                g1_kids.push(rf(n));
            }
        }
        let y = 700.0 - 40.0 * i as f64;
        let rect = nums(&[100.0, y, 300.0, y + 20.0]);
        match f.widget {
            1 => {
                d.set(b"Type", Obj::name("Annot"));
                d.set(b"Subtype", Obj::name("Widget"));
                d.set(b"Rect", rect);
                d.set(b"P", rf(num(s_page[pi])));
                d.set(b"F", Obj::Int(4));
                if i % 2 == 0 {
                    d.set(b"DA", Obj::str(b"/Helv 10 Tf 0 g"));
                }
                page_annots[pi].push(rf(n));
            }
            2 | 3 => {
                let wn = num(s_widget[i].unwrap());
                let mut w = Dict::new();
                w.set(b"Type", Obj::name("Annot"));
                w.set(b"Subtype", Obj::name("Widget"));
                w.set(b"Rect", rect);
                w.set(b"Parent", rf(n));
                w.set(b"P", rf(num(s_page[pi])));
                w.set(b"F", Obj::Int(4));
                w.set(b"MK", Obj::Dict(synth::dict(vec![("BC", nums(&[0.0, 0.0, 0.0]))])));
                objs.insert(wn, Obj::Dict(w));
                if f.widget == 2 {
                    d.set(b"Kids", Obj::Arr(vec![rf(wn)]));
                }
                page_annots[pi].push(rf(wn));
            }
            _ => {}
        }
        objs.insert(n, Obj::Dict(d));
    }
    if let Some(sg1) = s_g1 {
        let mut d = Dict::new();
        d.set(b"T", text_obj(&b.groups[1]));
        d.set(b"Parent", rf(num(s_g0.unwrap())));
        d.set(b"Kids", Obj::Arr(g1_kids));
        objs.insert(num(sg1), Obj::Dict(d));
        g0_kids.push(rf(num(sg1)));
    }
    if let Some(sg0) = s_g0 {
        let mut d = Dict::new();
        d.set(b"T", text_obj(&b.groups[0]));
        d.set(b"FT", Obj::name("Tx"));
        d.set(b"Kids", Obj::Arr(g0_kids));
        objs.insert(num(sg0), Obj::Dict(d));
        top_fields.push(rf(num(sg0)));
    }
    // notes
    for (i, n) in b.notes.iter().enumerate() {
        let pi = (n.page as usize) % npages;
        // non-square on purpose: a move must keep width and height apart
        let (w, h) = (16.0 + 4.0 * (i % 3) as f64, 21.5 + 2.0 * (i % 2) as f64);
        let (x, y) = note_xy(n.x, n.y, w, h);
        let mut d = Dict::new();
        d.set(b"Type", Obj::name("Annot"));
        d.set(b"Subtype", Obj::name("Text"));
        d.set(b"Rect", nums(&[x, y, x + w, y + h]));
        d.set(b"Contents", text_obj(&n.contents));
        d.set(b"Name", Obj::name("Comment"));
        d.set(b"CustomKey", Obj::str(b"preserve-me"));
        objs.insert(num(s_note[i]), Obj::Dict(d));
        page_annots[pi].push(rf(num(s_note[i])));
    }
    if let Some(sl) = s_link {
        let mut d = Dict::new();
        d.set(b"Type", Obj::name("Annot"));
        d.set(b"Subtype", Obj::name("Link"));
        d.set(b"Rect", nums(&[50.0, 50.0, 80.0, 70.0]));
        d.set(b"CustomLinkKey", Obj::Int(99));
        objs.insert(num(sl), Obj::Dict(d));
        page_annots[0].insert(0, rf(num(sl)));
    }
    // font
    objs.insert(num(s_font), Obj::Dict(synth::dict(vec![("Type", Obj::name("Font")), ("Subtype", Obj::name("Type1")), ("BaseFont", Obj::name("Helvetica"))])));
    // pages
    let mut kids = Vec::new();
    for i in 0..npages {
        let pn = num(s_page[i]);
        kids.push(rf(pn));
        let mut d = Dict::new();
        d.set(b"Type", Obj::name("Page"));
        d.set(b"Parent", rf(num(s_pages)));
        if !b.inherit_mediabox {
            d.set(b"MediaBox", mediabox.clone());
        }
        d.set(b"Resources", Obj::Dict(synth::dict(vec![("Font", Obj::Dict(synth::dict(vec![("F1", rf(num(s_font)))])))])));
        d.set(b"Contents", rf(num(s_content[i])));
        match s_annots[i] {
            Some(sa) => {
                d.set(b"Annots", rf(num(sa)));
                objs.insert(num(sa), Obj::Arr(page_annots[i].clone()));
            }
            None => {
                if !page_annots[i].is_empty() || i % 2 == 0 {
                    d.set(b"Annots", Obj::Arr(page_annots[i].clone()));
                }
            }
        }
        objs.insert(pn, Obj::Dict(d));
        let content = format!("BT /F1 12 Tf 50 700 Td (Synth page {i} body \\(orig\\)) Tj ET\n").into_bytes();
        let s = if b.compress_content {
            synth::stream(synth::dict(vec![("Filter", Obj::name("FlateDecode"))]), synth::zlib(&content))
        } else {
            synth::stream(Dict::new(), content)
        };
        objs.insert(num(s_content[i]), s);
    }
    let mut pd = Dict::new();
    pd.set(b"Type", Obj::name("Pages"));
    pd.set(b"Kids", Obj::Arr(kids));
    pd.set(b"Count", Obj::Int(npages as i64));
    if b.inherit_mediabox {
        pd.set(b"MediaBox", mediabox.clone());
    }
    objs.insert(num(s_pages), Obj::Dict(pd));
    // acroform, catalog, info
    let mut ad = Dict::new();
    ad.set(b"Fields", Obj::Arr(top_fields));
    ad.set(b"DA", Obj::str(b"/Helv 0 Tf 0 g"));
    ad.set(b"DR", Obj::Dict(synth::dict(vec![("Font", Obj::Dict(synth::dict(vec![("Helv", rf(num(s_font)))])))])));
    objs.insert(num(s_acro), Obj::Dict(ad));
    objs.insert(num(s_catalog), Obj::Dict(synth::dict(vec![("Type", Obj::name("Catalog")), ("Pages", rf(num(s_pages))), ("AcroForm", rf(num(s_acro)))])));
    let mut info = Dict::new();
    if let Some(t) = &b.title {
        info.set(b"Title", text_obj(t));
    }
    info.set(b"Producer", Obj::str(b"refpdf synth"));
    objs.insert(num(s_info), Obj::Dict(info));

    // ---- serialise
    let mut bld = Builder::new(if b.layout == 0 { "1.4" } else { "1.6" });
    bld.style = if b.hex_strings { StrStyle::Hex } else { StrStyle::Literal };
    let mut extra = Dict::new();
    extra.set(b"Root", rf(num(s_catalog)));
    extra.set(b"Info", rf(num(s_info)));
    if b.with_id {
        let id: Vec<u8> = (0..16u8).map(|i| i.wrapping_mul(37).wrapping_add(b.rot)).collect();
        extra.set(b"ID", Obj::Arr(vec![Obj::Str(id.clone()), Obj::Str(id)]));
    }
    let total = total as u32;
    let mut packed: Vec<(u32, Obj)> = Vec::new();
    for (n, o) in &objs {
        let eligible = b.layout == 2 && !matches!(o, Obj::Stream(_)) && (b.objstm_mask >> (*n % 32)) & 1 == 1;
        if eligible {
            packed.push((*n, o.clone()));
        } else {
            bld.add_object(*n, 0, o);
        }
    }
    if b.layout == 2 && packed.is_empty() {
        // force at least the first field into the object stream
        let n = num(s_field[0]);
        packed.push((n, objs[&n].clone()));
        // it was already written plain above; rewrite history cleanly instead: rebuild without it
        let mut bld2 = Builder::new("1.6");
        bld2.style = bld.style;
        for (m, o) in &objs {
            if *m != n {
                bld2.add_object(*m, 0, o);
            }
        }
        bld = bld2;
    }
    match b.layout {
        0 => {
            bld.finish_classic(&extra);
        }
        1 => {
            bld.finish_stream(total + 1, &extra, true);
        }
        _ => {
            bld.add_objstm(total + 1, &packed, b.rot % 2 == 0);
            bld.finish_stream(total + 2, &extra, true);
        }
    }
    if b.second_revision {
        // revision 2 (authored by "another tool"): the first field's /V is redefined in a plain object
        let n = num(s_field[0]);
        if let Some(Obj::Dict(d)) = objs.get(&n) {
            let mut d = d.clone();
            d.set(b"V", text_obj("rev2 value"));
            bld.add_object(n, 0, &Obj::Dict(d));
            if b.layout == 0 {
                bld.finish_classic(&extra);
            } else {
                let next = bld.size;
                bld.finish_stream(next, &extra, false);
            }
        }
    }
    bld.out
}

// ---------------------------------------------------------------------------------------------
// Independent view of a file (refpdf)
// ---------------------------------------------------------------------------------------------

#[derive(Clone, Debug)]
pub struct IField {
    pub name: String,
    /// raw /T bytes of every level
    pub raw_path: Vec<Vec<u8>>,
    pub obj: u32,
    pub v: Option<Vec<u8>>,
    /// kids that are not fields (widgets)
    pub widget_kids: Vec<u32>,
}

#[derive(Clone, Debug, PartialEq)]
pub struct INote {
    pub obj: u32,
    pub page: usize,
    pub rect: [f64; 4],
    pub contents: Option<String>,
}

#[derive(Clone, Debug)]
pub struct IPage {
    pub obj: Option<u32>,
    pub content: Vec<u8>,
    pub bounds: [f64; 4],
    /// object numbers of the referenced annotations, in order
    pub annots: Vec<u32>,
    /// Some(n) when /Annots is an indirect array
    pub annots_container: Option<u32>,
}

pub struct IView {
    pub rd: refpdf::Reader,
    pub revisions: usize,
    pub size: i64,
    pub catalog_obj: Option<u32>,
    pub acroform_obj: Option<u32>,
    pub fields: Vec<IField>,
    pub notes: Vec<INote>,
    pub pages: Vec<IPage>,
    pub objects: BTreeMap<u32, Obj>,
    /// annotation object → /Parent object (widgets linked to a field)
    pub annot_parent: BTreeMap<u32, u32>,
}

fn rect_of(rd: &refpdf::Reader, o: Option<&Obj>) -> Option<[f64; 4]> {
    let a = rd.resolve(o?).ok()?;
    let a = a.as_arr()?;
    if a.len() != 4 {
        return None;
    }
    let mut r = [0.0; 4];
    for i in 0..4 {
        r[i] = rd.resolve(&a[i]).ok()?.as_num()?;
    }
    Some(r)
}

fn walk_field(rd: &refpdf::Reader, node: &Obj, prefix: &str, raw: &[Vec<u8>], out: &mut Vec<IField>, depth: u32, seen: &mut BTreeSet<u32>) -> Result<(), String> {
    if depth > 16 {
        return Err("field tree too deep".into());
    }
    let Obj::Ref(n, _) = node else { return Err(format!("field entry is not a reference: {node:?}")) };
    if !seen.insert(*n) {
        return Err(format!("field {n} visited twice"));
    }
    let Obj::Dict(d) = rd.resolve(node).map_err(|e| format!("field {n}: {}", e.msg))? else { return Err(format!("field {n} is not a dictionary")) };
    let t = match d.get(b"T").map(|t| rd.resolve(t)) {
        Some(Ok(Obj::Str(s))) => Some(s),
        None => None,
        other => return Err(format!("field {n}: /T {other:?}")),
    };
    let mut raw2 = raw.to_vec();
    let full = match &t {
        Some(t) => {
            raw2.push(t.clone());
            let p = textstring::decode(t);
            if prefix.is_empty() {
                p
            } else {
                format!("{prefix}.{p}")
            }
        }
        None => prefix.to_string(),
    };
    let kids: Vec<Obj> = match d.get(b"Kids").map(|k| rd.resolve(k)) {
        Some(Ok(Obj::Arr(a))) => a,
        None => vec![],
        other => return Err(format!("field {n}: /Kids {other:?}")),
    };
    let mut sub = Vec::new();
    let mut widgets = Vec::new();
    for k in &kids {
        let kd = rd.resolve(k).map_err(|e| e.msg)?;
        let is_field = kd.as_dict().map(|d| d.get(b"T").is_some()).unwrap_or(false);
        if is_field {
            sub.push(k.clone());
        } else if let Obj::Ref(kn, _) = k {
            widgets.push(*kn);
        }
    }
    if sub.is_empty() {
        if t.is_some() {
            let v = match d.get(b"V").map(|v| rd.resolve(v)) {
                Some(Ok(Obj::Str(s))) => Some(s),
                Some(Ok(Obj::Stream(s))) => Some(rd.stream_data(&s).map_err(|e| e.msg)?),
                _ => None,
            };
            out.push(IField { name: full, raw_path: raw2, obj: *n, v, widget_kids: widgets });
        }
    } else {
        for k in sub {
            walk_field(rd, &k, &full, &raw2, out, depth + 1, seen)?;
        }
    }
    Ok(())
}

pub fn iview(bytes: &[u8]) -> Result<IView, String> {
    let rd = refpdf::Reader::open(bytes, None).map_err(|e| format!("open: at {}: {}", e.at, e.msg))?;
    let revisions = rd.sections.iter().filter(|s| s.hybrid_of.is_none()).count();
    let size = rd.trailer.int(b"Size").unwrap_or(-1);
    let catalog_obj = match rd.trailer.get(b"Root") {
        Some(Obj::Ref(n, _)) => Some(*n),
        _ => None,
    };
    let cat = rd.catalog().map_err(|e| format!("catalog: {}", e.msg))?;
    let mut fields = Vec::new();
    let mut acroform_obj = None;
    if let Some(a) = cat.get(b"AcroForm") {
        if let Obj::Ref(n, _) = a {
            acroform_obj = Some(*n);
        }
        if let Obj::Dict(ad) = rd.resolve(a).map_err(|e| e.msg)? {
            if let Some(f) = ad.get(b"Fields") {
                let Obj::Arr(fa) = rd.resolve(f).map_err(|e| e.msg)? else { return Err("/Fields is not an array".into()) };
                let mut seen = BTreeSet::new();
                for x in &fa {
                    walk_field(&rd, x, "", &[], &mut fields, 0, &mut seen)?;
                }
            }
        }
    }
    let mut pages = Vec::new();
    let mut notes = Vec::new();
    let mut annot_parent = BTreeMap::new();
    for (pi, p) in rd.pages().map_err(|e| format!("pages: {}", e.msg))?.iter().enumerate() {
        let content = rd.page_content(p).map_err(|e| format!("page {pi} content: {}", e.msg))?;
        let mb = rect_of(&rd, p.inherited.get(b"MediaBox")).ok_or(format!("page {pi}: no MediaBox"))?;
        let bounds = rect_of(&rd, p.inherited.get(b"CropBox")).unwrap_or(mb);
        let mut annots = Vec::new();
        let mut container = None;
        if let Some(a) = p.dict.get(b"Annots") {
            if let Obj::Ref(n, _) = a {
                container = Some(*n);
            }
            match rd.resolve(a).map_err(|e| e.msg)? {
                Obj::Arr(arr) => {
                    for x in &arr {
                        let Obj::Ref(an, _) = x else { continue };
                        annots.push(*an);
                        let Ok(Obj::Dict(ad)) = rd.resolve(x) else { continue };
                        if let Some(Obj::Ref(pn, _)) = ad.get(b"Parent") {
                            annot_parent.insert(*an, *pn);
                        }
                        if ad.name(b"Subtype") == Some(b"Text") {
                            let rect = rect_of(&rd, ad.get(b"Rect")).ok_or(format!("note {an}: bad /Rect"))?;
                            let contents = match ad.get(b"Contents").map(|c| rd.resolve(c)) {
                                Some(Ok(Obj::Str(s))) => Some(textstring::decode(&s)),
                                _ => None,
                            };
                            notes.push(INote { obj: *an, page: pi, rect, contents });
                        }
                    }
                }
                Obj::Null => {}
                other => return Err(format!("page {pi}: /Annots {other:?}")),
            }
        }
        pages.push(IPage { obj: p.obj, content, bounds, annots, annots_container: container });
    }
    notes.sort_by_key(|n| (n.page, n.obj));
    let mut objects = BTreeMap::new();
    for n in rd.object_numbers() {
        let g = rd.gen_of(n);
        match rd.load(n, g) {
            Ok(o) => {
                objects.insert(n, o);
            }
            Err(e) => return Err(format!("object {n}: {}", e.msg)),
        }
    }
    Ok(IView { rd, revisions, size, catalog_obj, acroform_obj, fields, notes, pages, objects, annot_parent })
}

/// Structural equality modulo dictionary order and number representation; streams by decoded data.
fn obj_equiv(ra: &refpdf::Reader, a: &Obj, rb: &refpdf::Reader, b: &Obj) -> bool {
    match (a, b) {
        (Obj::Int(_) | Obj::Real(_), Obj::Int(_) | Obj::Real(_)) => {
            let (x, y) = (a.as_num().unwrap(), b.as_num().unwrap());
            (x - y).abs() <= 1e-9 * x.abs().max(y.abs()).max(1.0)
        }
        (Obj::Arr(x), Obj::Arr(y)) => x.len() == y.len() && x.iter().zip(y).all(|(p, q)| obj_equiv(ra, p, rb, q)),
        (Obj::Dict(x), Obj::Dict(y)) => dict_equiv(ra, x, rb, y, &[]),
        (Obj::Stream(x), Obj::Stream(y)) => {
            let skip: &[&[u8]] = &[b"Length", b"Filter", b"DecodeParms"];
            if !dict_equiv(ra, &x.dict, rb, &y.dict, skip) {
                return false;
            }
            match (ra.stream_data(x), rb.stream_data(y)) {
                (Ok(p), Ok(q)) => p == q,
                _ => x.data == y.data && x.dict.get(b"Filter") == y.dict.get(b"Filter"),
            }
        }
        _ => a == b,
    }
}

fn dict_equiv(ra: &refpdf::Reader, x: &Dict, rb: &refpdf::Reader, y: &Dict, skip: &[&[u8]]) -> bool {
    let kx: BTreeSet<&[u8]> = x.keys().filter(|k| !skip.contains(k)).collect();
    let ky: BTreeSet<&[u8]> = y.keys().filter(|k| !skip.contains(k)).collect();
    kx == ky && kx.iter().all(|k| obj_equiv(ra, x.get(k).unwrap(), rb, y.get(k).unwrap()))
}

/// Keys in which two dictionaries differ (present in one only, or different value).
fn dict_diff_keys(ra: &refpdf::Reader, x: &Dict, rb: &refpdf::Reader, y: &Dict) -> Vec<String> {
    let mut keys: BTreeSet<&[u8]> = x.keys().collect();
    keys.extend(y.keys());
    keys.into_iter()
        .filter(|k| match (x.get(k), y.get(k)) {
            (Some(p), Some(q)) => !obj_equiv(ra, p, rb, q),
            _ => true,
        })
        .map(|k| String::from_utf8_lossy(k).into_owned())
        .collect()
}

// ---------------------------------------------------------------------------------------------
// Library view of a file
// ---------------------------------------------------------------------------------------------

pub struct LField {
    pub name: String,
    pub obj: u32,
    pub v: Option<Vec<u8>>,
    pub v_text: Option<String>,
}

pub struct LView {
    pub doc: PdfDocument<Cursor<Vec<u8>>>,
    pub fields: Result<Vec<LField>, String>,
    pub notes: Result<Vec<INote>, String>,
    pub page_count: Result<u32, String>,
    pub contents: Vec<Result<Vec<u8>, String>>,
    pub title: Result<Option<String>, String>,
}

fn lib_walk(doc: &PdfDocument<Cursor<Vec<u8>>>, node: (u32, u16), prefix: &str, out: &mut Vec<LField>, depth: u32) -> Result<(), String> {
    if depth > 16 {
        return Err("field tree too deep".into());
    }
    let o = doc.get_object(node.0, node.1).map_err(|e| format!("field {}: {e}", node.0))?;
    let Some(d) = o.as_dict() else { return Err(format!("field {} is not a dictionary", node.0)) };
    let t = d.get("T").and_then(|t| t.as_string()).map(|s| s.to_text());
    let full = match (&t, prefix.is_empty()) {
        (Some(t), true) => t.clone(),
        (Some(t), false) => format!("{prefix}.{t}"),
        (None, _) => prefix.to_string(),
    };
    let kids: Vec<(u32, u16)> = match d.get("Kids") {
        Some(PdfObject::Array(a)) => a.0.iter().filter_map(|k| k.as_reference()).collect(),
        _ => vec![],
    };
    let mut sub = Vec::new();
    for k in &kids {
        let is_field = doc.get_object(k.0, k.1).ok().and_then(|o| o.as_dict().map(|d| d.contains_key("T"))).unwrap_or(false);
        if is_field {
            sub.push(*k);
        }
    }
    if sub.is_empty() {
        if t.is_some() {
            let v = d.get("V").and_then(|v| v.as_string());
            out.push(LField { name: full, obj: node.0, v: v.map(|s| s.as_bytes().to_vec()), v_text: v.map(|s| s.to_text()) });
        }
    } else {
        for k in sub {
            lib_walk(doc, k, &full, out, depth + 1)?;
        }
    }
    Ok(())
}

fn lib_fields(doc: &PdfDocument<Cursor<Vec<u8>>>, catalog: &PdfDictionary) -> Result<Vec<LField>, String> {
    let acro = match catalog.get("AcroForm") {
        Some(PdfObject::Reference(n, g)) => doc.get_object(*n, *g).map_err(|e| format!("AcroForm: {e}"))?,
        Some(other) => other.clone(),
        None => return Ok(vec![]),
    };
    let Some(ad) = acro.as_dict() else { return Err("AcroForm is not a dictionary".into()) };
    let refs: Vec<(u32, u16)> = match ad.get("Fields") {
        Some(PdfObject::Array(a)) => a.0.iter().filter_map(|k| k.as_reference()).collect(),
        _ => vec![],
    };
    let mut out = Vec::new();
    for r in refs {
        lib_walk(doc, r, "", &mut out, 0)?;
    }
    Ok(out)
}

/// Opens with the strict preset; Err = the strict open failed.
pub fn lview(bytes: &[u8]) -> Result<LView, String> {
    let mut reader = PdfReader::new_with_options(Cursor::new(bytes.to_vec()), ParseOptions::strict()).map_err(|e| format!("{e}"))?;
    let catalog = reader.catalog().map(|c| c.clone()).map_err(|e| format!("catalog: {e}"));
    let doc = PdfDocument::new(reader);
    let fields = match &catalog {
        Ok(c) => lib_fields(&doc, c),
        Err(e) => Err(e.clone()),
    };
    let notes = IncrementalTextNoteEditor::new(bytes).notes().map_err(|e| format!("{e}")).map(|v| {
        let mut n: Vec<INote> = v
            .into_iter()
            .map(|n| INote { obj: n.id.object_number, page: n.page_index as usize, rect: [n.position.x, n.position.y, f64::NAN, f64::NAN], contents: Some(n.contents) })
            .collect();
        n.sort_by_key(|n| (n.page, n.obj));
        n
    });
    let page_count = doc.page_count().map_err(|e| format!("{e}"));
    let mut contents = Vec::new();
    if let Ok(pc) = &page_count {
        for i in 0..*pc {
            let r = doc.get_page(i).map_err(|e| format!("get_page: {e}")).and_then(|p| doc.get_page_content_streams(&p).map_err(|e| format!("content: {e}")));
            contents.push(r.map(|v| v.concat()));
        }
    }
    let title = doc.metadata().map(|m| m.title).map_err(|e| format!("{e}"));
    Ok(LView { doc, fields, notes, page_count, contents, title })
}

/// Library object → refpdf object (names: the lexer decodes bytes as Latin-1).
fn lib_to_obj(o: &PdfObject) -> Obj {
    match o {
        PdfObject::Null => Obj::Null,
        PdfObject::Boolean(b) => Obj::Bool(*b),
        PdfObject::Integer(i) => Obj::Int(*i),
        PdfObject::Real(r) => Obj::Real(*r),
        PdfObject::String(s) => Obj::Str(s.as_bytes().to_vec()),
        PdfObject::Name(n) => Obj::Name(name_bytes(&n.0)),
        PdfObject::Array(a) => Obj::Arr(a.0.iter().map(lib_to_obj).collect()),
        PdfObject::Dictionary(d) => Obj::Dict(lib_dict(d)),
        PdfObject::Stream(s) => Obj::Stream(Box::new(refpdf::Stream { dict: lib_dict(&s.dict), data: s.data.clone() })),
        PdfObject::Reference(n, g) => Obj::Ref(*n, *g),
    }
}

fn name_bytes(s: &str) -> Vec<u8> {
    s.chars().map(|c| if (c as u32) < 256 { c as u32 as u8 } else { b'?' }).collect()
}

fn lib_dict(d: &PdfDictionary) -> Dict {
    let mut v: Vec<(Vec<u8>, Obj)> = d.0.iter().map(|(k, v)| (name_bytes(&k.0), lib_to_obj(v))).collect();
    v.sort_by(|a, b| a.0.cmp(&b.0));
    Dict(v)
}

// ---------------------------------------------------------------------------------------------
// Applying a step with the library
// ---------------------------------------------------------------------------------------------

#[derive(Clone, Debug)]
enum Allowed {
    Any,
    Keys(&'static [&'static str]),
}

#[derive(Default)]
struct Expect {
    kind: &'static str,
    /// field object → (name, value) that must be shown afterwards
    fields: BTreeMap<u32, (String, String)>,
    /// expected notes afterwards (object 0 = "the object the library reports for this Add", resolved later)
    notes: Option<Vec<INote>>,
    note_ops: Vec<&'static str>,
    /// expected /Annots sequence per page (None = unchanged)
    annots: BTreeMap<usize, Vec<u32>>,
    /// page count afterwards, and per page: Ok(bytes) = identical content, Err((must_contain…)) = new content
    pages: Option<Vec<PageExp>>,
    allowed: BTreeMap<u32, Allowed>,
    info_may_change: bool,
    info_ref_may_change: bool,
    root_may_change: bool,
}

#[derive(Clone, Debug)]
enum PageExp {
    Same(usize),
    /// new content: must contain every needle
    Contains(Vec<Vec<u8>>),
}

struct Applied {
    bytes: Vec<u8>,
    exp: Expect,
}

enum StepResult {
    Done(Box<Applied>),
    Refused(String),
    Skipped(&'static str),
}

fn has_non_winansi(s: &str) -> bool {
    s.chars().any(|c| (c as u32) > 0xFF)
}

fn fill_step(prev_bytes: &[u8], prev: &IView, names: &[String], field_objs: &[Option<u32>], items: &[(u16, String)], many: bool) -> StepResult {
    let picked: Vec<(usize, &str)> = items.iter().map(|(p, v)| (pick_idx(*p, names.len()), v.as_str())).collect();
    let args: Vec<(&str, &str)> = picked.iter().map(|(i, v)| (names[*i].as_str(), *v)).collect();
    let filler = IncrementalFormFiller::new(prev_bytes);
    let r = if many { filler.fill_many(&args) } else { filler.fill(args[0].0, args[0].1) };
    let bytes = match r {
        Ok(b) => b,
        Err(e) => return StepResult::Refused(refusal_kind(&format!("{e}"))),
    };
    let mut exp = Expect { kind: if many { "fill_many" } else { "fill" }, ..Default::default() };
    for (i, v) in &picked {
        if let Some(n) = field_objs[*i] {
            exp.fields.insert(n, (names[*i].clone(), v.to_string()));
        }
    }
    for n in exp.fields.keys() {
        exp.allowed.insert(*n, Allowed::Keys(&["V", "AP"]));
        if let Some(f) = prev.fields.iter().find(|f| f.obj == *n) {
            for w in &f.widget_kids {
                exp.allowed.insert(*w, Allowed::Keys(&["AP"]));
            }
        }
        for (a, p) in &prev.annot_parent {
            if p == n && !exp.fields.contains_key(a) {
                exp.allowed.insert(*a, Allowed::Keys(&["AP"]));
            }
        }
    }
    if let Some(a) = prev.acroform_obj {
        exp.allowed.insert(a, Allowed::Keys(&["NeedAppearances"]));
    }
    StepResult::Done(Box::new(Applied { bytes, exp }))
}

fn refusal_kind(msg: &str) -> String {
    let m = msg.to_lowercase();
    let k = if m.contains("not representable") || m.contains("encoding") {
        "encoding"
    } else if m.contains("field not found") || m.contains("fieldnotfound") || m.contains("not found") {
        "field-not-found"
    } else if m.contains("no /acroform") || m.contains("acroform") {
        "no-acroform"
    } else if m.contains("outside the page") {
        "outside-page"
    } else if m.contains("does not exist") {
        "no-such-note"
    } else if m.contains("parse base") || m.contains("parse") {
        "base-unreadable"
    } else {
        "other"
    };
    k.to_string()
}

const PLACEHOLDER: u32 = 0xFFFF_0000;

fn notes_step(prev_bytes: &[u8], prev: &IView, ops: &[NoteOp]) -> StepResult {
    use oxidize_pdf::geometry::Point;
    if prev.pages.is_empty() {
        return StepResult::Skipped("no-pages");
    }
    let mut used: BTreeSet<u32> = BTreeSet::new();
    let mut muts: Vec<TextNoteMutation> = Vec::new();
    let mut exp = Expect { kind: "notes", ..Default::default() };
    let mut notes = prev.notes.clone();
    let mut annots: BTreeMap<usize, Vec<u32>> = BTreeMap::new();
    let mut adds: Vec<u32> = Vec::new(); // placeholder object numbers of added notes, in mutation order
    let pick_note = |pick: u16, used: &BTreeSet<u32>| -> Option<INote> {
        let avail: Vec<&INote> = prev.notes.iter().filter(|n| !used.contains(&n.obj)).collect();
        if avail.is_empty() {
            None
        } else {
            Some(avail[pick_idx(pick, avail.len())].clone())
        }
    };
    let touch_page = |pi: usize, exp: &mut Expect| {
        match prev.pages[pi].annots_container {
            Some(c) => exp.allowed.insert(c, Allowed::Any),
            None => match prev.pages[pi].obj {
                Some(p) => exp.allowed.insert(p, Allowed::Keys(&["Annots"])),
                None => None,
            },
        };
    };
    for op in ops {
        match op {
            NoteOp::Add { page, x, y, contents } => {
                let pi = pick_idx(*page, prev.pages.len());
                let (fx, fy) = note_xy(*x, *y, 20.0, 20.0);
                muts.push(TextNoteMutation::Add { page_index: pi as u32, position: Point::new(fx, fy), contents: contents.clone() });
                let ph = PLACEHOLDER + adds.len() as u32;
                notes.push(INote { obj: ph, page: pi, rect: [fx, fy, fx + 20.0, fy + 20.0], contents: Some(contents.clone()) });
                adds.push(ph);
                annots.entry(pi).or_insert_with(|| prev.pages[pi].annots.clone()).push(ph);
                touch_page(pi, &mut exp);
                exp.note_ops.push("add");
            }
            NoteOp::Update { pick, .. } | NoteOp::Move { pick, .. } | NoteOp::Edit { pick, .. } => {
                let Some(n) = pick_note(*pick, &used) else { continue };
                used.insert(n.obj);
                let (w, h) = (n.rect[2] - n.rect[0], n.rect[3] - n.rect[1]);
                let (pos, contents, name) = match op {
                    NoteOp::Update { x, y, contents, .. } => (note_xy(*x, *y, w, h), contents.clone(), "update"),
                    NoteOp::Move { x, y, .. } => (note_xy(*x, *y, w, h), n.contents.clone().unwrap_or_default(), "move"),
                    NoteOp::Edit { contents, .. } => ((n.rect[0], n.rect[1]), contents.clone(), "edit"),
                    _ => unreachable!(),
                };
                if contents.trim().is_empty() {
                    continue; // an existing note without contents cannot be moved through this API (contents must be non-empty)
                }
                muts.push(TextNoteMutation::Update { id: TextNoteId::new(n.obj, 0), position: Point::new(pos.0, pos.1), contents: contents.clone() });
                let e = notes.iter_mut().find(|m| m.obj == n.obj).unwrap();
                e.rect = [pos.0, pos.1, pos.0 + w, pos.1 + h];
                e.contents = Some(contents);
                exp.allowed.insert(n.obj, Allowed::Keys(&["Rect", "Contents"]));
                exp.note_ops.push(name);
            }
            NoteOp::Remove { pick } => {
                let Some(n) = pick_note(*pick, &used) else { continue };
                used.insert(n.obj);
                muts.push(TextNoteMutation::Remove { id: TextNoteId::new(n.obj, 0) });
                notes.retain(|m| m.obj != n.obj);
                annots.entry(n.page).or_insert_with(|| prev.pages[n.page].annots.clone()).retain(|a| *a != n.obj);
                touch_page(n.page, &mut exp);
                exp.note_ops.push("remove");
            }
        }
    }
    if muts.is_empty() {
        return StepResult::Skipped("no-note-to-target");
    }
    let upd = match IncrementalTextNoteEditor::new(prev_bytes).apply(&muts) {
        Ok(u) => u,
        Err(e) => return StepResult::Refused(refusal_kind(&format!("{e}"))),
    };
    // resolve the ids of added notes from the library's report
    for (k, ph) in adds.iter().enumerate() {
        let id = upd.added_notes.get(k).map(|n| n.id.object_number).unwrap_or(0);
        for n in notes.iter_mut().filter(|n| n.obj == *ph) {
            n.obj = id;
        }
        for a in annots.values_mut() {
            for z in a.iter_mut().filter(|x| **x == *ph) {
                *z = id;
            }
        }
    }
    notes.sort_by_key(|n| (n.page, n.obj));
    exp.notes = Some(notes);
    exp.annots = annots;
    StepResult::Done(Box::new(Applied { bytes: upd.pdf_bytes, exp }))
}

fn marker(step: usize, page: usize) -> String {
    format!("MARK s{step} p{page} end")
}

fn replace_step(prev_bytes: &[u8], prev: &IView, step: usize, pages: u8, title: &Option<String>) -> StepResult {
    use oxidize_pdf::text::Font;
    use oxidize_pdf::{Document, Page};
    let dir = match tempfile::tempdir() {
        Ok(d) => d,
        Err(_) => return StepResult::Skipped("tempdir"),
    };
    let path = dir.path().join("prev.pdf");
    if std::fs::write(&path, prev_bytes).is_err() {
        return StepResult::Skipped("tempfile");
    }
    let mut doc = Document::new();
    fix_clock(&mut doc);
    if let Some(t) = title {
        doc.set_title(t.clone());
    }
    for i in 0..pages as usize {
        let mut p = Page::a4();
        if p.text().set_font(Font::Helvetica, 12.0).at(50.0, 700.0).write(&marker(step, i)).is_err() {
            return StepResult::Skipped("page-text");
        }
        doc.add_page(p);
    }
    let mut out: Vec<u8> = Vec::new();
    {
        let mut w = PdfWriter::with_config(&mut out, WriterConfig::incremental());
        if let Err(e) = w.write_incremental_with_page_replacement(&path, &mut doc) {
            return StepResult::Refused(refusal_kind(&format!("{e}")));
        }
    }
    let n = pages as usize;
    let mut exp = Expect { kind: "replace", info_may_change: true, root_may_change: true, ..Default::default() };
    let count = prev.pages.len().max(n);
    exp.pages = Some((0..count).map(|i| if i < n { PageExp::Contains(vec![marker(step, i).into_bytes()]) } else { PageExp::Same(i) }).collect());
    // notes on replaced pages go with the page; the others stay
    exp.notes = Some(prev.notes.iter().filter(|m| m.page >= n).cloned().collect());
    if let Some(c) = prev.catalog_obj {
        exp.allowed.insert(c, Allowed::Keys(&["Pages"]));
    }
    allow_page_tree(prev, &mut exp, n);
    StepResult::Done(Box::new(Applied { bytes: out, exp }))
}

/// The page-tree root and nodes may be rewritten by a page-level edit; the first `n` page objects too.
fn allow_page_tree(prev: &IView, exp: &mut Expect, n: usize) {
    if let Ok(cat) = prev.rd.catalog() {
        if let Some(Obj::Ref(p, _)) = cat.get(b"Pages") {
            exp.allowed.insert(*p, Allowed::Any);
        }
    }
    for (i, p) in prev.pages.iter().enumerate() {
        if i < n {
            if let Some(o) = p.obj {
                exp.allowed.insert(o, Allowed::Any);
            }
        }
    }
    if let Some(Obj::Ref(i, _)) = prev.rd.trailer.get(b"Info") {
        if exp.info_may_change {
            exp.allowed.insert(*i, Allowed::Any);
        }
    }
}

fn overlay_step(prev_bytes: &[u8], prev: &IView, step: usize) -> StepResult {
    use oxidize_pdf::text::Font;
    let dir = match tempfile::tempdir() {
        Ok(d) => d,
        Err(_) => return StepResult::Skipped("tempdir"),
    };
    let path = dir.path().join("prev.pdf");
    if std::fs::write(&path, prev_bytes).is_err() {
        return StepResult::Skipped("tempfile");
    }
    let mut out: Vec<u8> = Vec::new();
    {
        let mut w = PdfWriter::with_config(&mut out, WriterConfig::incremental());
        let mut i = 0usize;
        let r = w.write_incremental_with_overlay(&path, |page| {
            page.text().set_font(Font::Helvetica, 12.0).at(50.0, 600.0).write(&marker(step, i))?;
            i += 1;
            Ok(())
        });
        if let Err(e) = r {
            return StepResult::Refused(refusal_kind(&format!("{e}")));
        }
    }
    let mut exp = Expect { kind: "overlay", root_may_change: true, info_ref_may_change: true, ..Default::default() };
    exp.pages = Some(
        prev.pages
            .iter()
            .enumerate()
            .map(|(i, p)| {
                let old: Vec<u8> = p.content.clone();
                let trimmed = trim_ws(&old).to_vec();
                PageExp::Contains(vec![trimmed, marker(step, i).into_bytes()])
            })
            .collect(),
    );
    if let Some(c) = prev.catalog_obj {
        exp.allowed.insert(c, Allowed::Keys(&["Pages"]));
    }
    allow_page_tree(prev, &mut exp, 0);
    for p in &prev.pages {
        if let Some(o) = p.obj {
            exp.allowed.insert(o, Allowed::Keys(&["Contents", "Resources", "Parent"]));
        }
    }
    StepResult::Done(Box::new(Applied { bytes: out, exp }))
}

fn trim_ws(b: &[u8]) -> &[u8] {
    let s = b.iter().position(|c| !refpdf::is_ws(*c)).unwrap_or(b.len());
    let e = b.iter().rposition(|c| !refpdf::is_ws(*c)).map(|p| p + 1).unwrap_or(s);
    &b[s..e]
}

fn contains(hay: &[u8], needle: &[u8]) -> bool {
    needle.is_empty() || hay.windows(needle.len()).any(|w| w == needle)
}

// ---------------------------------------------------------------------------------------------
// Oracle for one step
// ---------------------------------------------------------------------------------------------

const XREF_KEYS: &[&[u8]] = &[b"Size", b"Prev", b"XRefStm", b"Type", b"W", b"Index", b"Length", b"Filter", b"DecodeParms"];

/// Objects whose effective definition is plain while an older revision holds a compressed one.
fn shadowed_objects(rd: &refpdf::Reader) -> BTreeSet<u32> {
    use crate::refpdf::reader::Entry;
    let mut s = BTreeSet::new();
    for sec in &rd.sections {
        for (n, e) in &sec.entries {
            if matches!(e, Entry::Compressed { .. }) && matches!(rd.entry(*n), Entry::InUse { .. }) {
                s.insert(*n);
            }
        }
    }
    s
}

fn rect_close(a: &[f64; 4], b: &[f64; 4]) -> bool {
    (0..4).all(|i| (a[i] - b[i]).abs() <= 1e-6 * a[i].abs().max(1.0))
}

fn value_class(v: &str) -> &'static str {
    if v.is_ascii() {
        "value=ascii"
    } else {
        "value=non-ascii"
    }
}

struct Carry {
    /// the last /Info reference seen in a trailer (charitable reading behind trailer-key-dropped|/Info)
    info: Option<Obj>,
}

/// Returns the new view when the history can continue.
///
/// Page replacement and overlay rewrite the document wholesale; whatever they break is reported per clause
/// with the class `edit=replace` / `edit=overlay` only (the finer class moves into the detail), so that the
/// many consequences of one root cause do not multiply signatures.
fn judge(o: &mut Outcome, prev_bytes: &[u8], prev: &IView, ap: &Applied, carry: &mut Carry, layout_class: &str) -> Option<IView> {
    let start = o.fails.len();
    let r = judge_inner(o, prev_bytes, prev, ap, carry, layout_class);
    let kind = ap.exp.kind;
    if kind == "replace" || kind == "overlay" {
        let mut seen: BTreeSet<String> = o.fails[..start].iter().map(|f| f.signature()).collect();
        let tail: Vec<_> = o.fails.drain(start..).collect();
        for mut f in tail {
            if f.clause != "C17/trailer-key-dropped" {
                f.detail = format!("[{}] {}", f.class, f.detail);
                f.class = format!("edit={kind}");
            }
            if seen.insert(f.signature()) {
                o.fails.push(f);
            }
        }
    }
    r
}

fn judge_inner(o: &mut Outcome, prev_bytes: &[u8], prev: &IView, ap: &Applied, carry: &mut Carry, layout_class: &str) -> Option<IView> {
    let exp = &ap.exp;
    let kind = exp.kind;
    let new_bytes = &ap.bytes;
    // (1) append-only
    if !new_bytes.starts_with(prev_bytes) {
        let at = new_bytes.iter().zip(prev_bytes).position(|(a, b)| a != b).unwrap_or(new_bytes.len().min(prev_bytes.len()));
        o.fail("C17/append-only", format!("edit={kind}"), format!("output ({} bytes) does not start with the previous file ({} bytes); first difference at byte {at}", new_bytes.len(), prev_bytes.len()));
    }
    if new_bytes.len() == prev_bytes.len() {
        o.fail("C17/append-only", format!("edit={kind},nothing-appended"), "output equals the previous file although the edit was accepted");
        return None;
    }
    // (2) valid chain — independent reader
    let rep = refpdf::validate::validate(new_bytes, None);
    let mut seen = BTreeSet::new();
    for p in &rep.problems {
        if seen.insert(p.clause) {
            o.fail("C17/valid-chain", format!("{},edit={kind}", p.clause), trunc(&p.detail, 300));
        }
    }
    let chain_ok = rep.problems.is_empty();
    let new = match iview(new_bytes) {
        Ok(v) => v,
        Err(e) => {
            if rep.problems.is_empty() {
                o.fail("C17/valid-chain", format!("independent-view,edit={kind}"), e);
            }
            o.excluded("C17/effect+frame (file unreadable by the independent reader)");
            return None;
        }
    };
    if new.revisions != prev.revisions + 1 {
        o.fail("C17/revision-count", format!("edit={kind}"), format!("previous file has {} revisions, output has {}", prev.revisions, new.revisions));
    }
    // (3) trailer keys
    let mut info_dropped = false;
    for (k, v) in &prev.rd.trailer.0 {
        if XREF_KEYS.contains(&k.as_slice()) {
            continue;
        }
        let ks = String::from_utf8_lossy(k).into_owned();
        match new.rd.trailer.get(k) {
            None => {
                if k == b"Info" {
                    info_dropped = true;
                }
                o.fail("C17/trailer-key-dropped", format!("/{ks}"), format!("the appended trailer of a {kind} has no /{ks} (previous trailer: {v:?})"));
            }
            Some(nv) => {
                let same = match k.as_slice() {
                    b"ID" => match (v.as_arr(), nv.as_arr()) {
                        (Some(a), Some(b)) => a.first() == b.first(),
                        _ => false,
                    },
                    b"Root" if exp.root_may_change => true,
                    b"Info" if exp.info_may_change || exp.info_ref_may_change => true,
                    _ => v == nv,
                };
                if !same {
                    o.fail("C17/trailer-key-changed", format!("/{ks},edit={kind}"), format!("previous {v:?}, now {nv:?}"));
                }
            }
        }
    }
    if let Some(i) = new.rd.trailer.get(b"Info") {
        carry.info = Some(i.clone());
    }

    let coarse = kind == "replace" || kind == "overlay";

    // (4) object frame
    let mut frame_fail = 0;
    for (n, old) in &prev.objects {
        let allowed = exp.allowed.get(n);
        match new.objects.get(n) {
            None => {
                if !matches!(allowed, Some(Allowed::Any)) {
                    frame_fail += 1;
                    if frame_fail <= 3 {
                        o.fail("C17/frame-object", format!("edit={kind},object-freed"), format!("object {n} ({}) is no longer defined after the step", trunc(&format!("{old:?}"), 120)));
                    }
                }
            }
            Some(now) => {
                if obj_equiv(&prev.rd, old, &new.rd, now) {
                    continue;
                }
                match allowed {
                    Some(Allowed::Any) => {}
                    Some(Allowed::Keys(keys)) => {
                        let bad: Vec<String> = match (old.as_dict(), now.as_dict()) {
                            (Some(a), Some(b)) if !matches!(old, Obj::Stream(_)) && !matches!(now, Obj::Stream(_)) => {
                                dict_diff_keys(&prev.rd, a, &new.rd, b).into_iter().filter(|k| !keys.contains(&k.as_str())).collect()
                            }
                            _ => vec!["<not-a-dictionary>".to_string()],
                        };
                        if !bad.is_empty() {
                            o.fail(
                                "C17/frame-edited-object",
                                if coarse { format!("edit={kind}") } else { format!("edit={kind},key=/{}", bad[0]) },
                                format!("object {n}, which the step may change only in {keys:?}, also differs in {bad:?}: before {} after {}", trunc(&format!("{old:?}"), 200), trunc(&format!("{now:?}"), 200)),
                            );
                        }
                    }
                    None => {
                        frame_fail += 1;
                        if frame_fail <= 3 {
                            o.fail("C17/frame-object", format!("edit={kind}"), format!("object {n} is not part of the edit but changed: before {} after {}", trunc(&format!("{old:?}"), 200), trunc(&format!("{now:?}"), 200)));
                        }
                    }
                }
            }
        }
    }

    // (5) independent reader: effect + frame through the new trailer
    // fields
    let prev_fields: BTreeMap<u32, &IField> = prev.fields.iter().map(|f| (f.obj, f)).collect();
    let new_fields: BTreeMap<u32, &IField> = new.fields.iter().map(|f| (f.obj, f)).collect();
    let mut utf8_ok: BTreeSet<u32> = BTreeSet::new();
    for (n, (name, value)) in &exp.fields {
        match new_fields.get(n) {
            None => o.fail("C17/effect-field", format!("reader=independent,field-not-exposed"), format!("field {name:?} (object {n}) is not reachable from /AcroForm after the fill")),
            Some(f) => {
                let got = f.v.as_deref().map(textstring::decode);
                if got.as_deref() != Some(value.as_str()) {
                    let raw = f.v.clone().unwrap_or_default();
                    if !value.is_ascii() && raw == value.as_bytes() {
                        utf8_ok.insert(*n);
                        o.fail("C17/effect-field", "value=non-ascii", format!("field {name:?}: filled {value:?}, /V holds the raw UTF-8 bytes <{}> which a conforming reader decodes as {got:?}", hex(&raw)));
                    } else {
                        o.fail("C17/effect-field", format!("reader=independent,{}", value_class(value)), format!("field {name:?} (object {n}): filled {value:?}, independent reader sees {got:?} (raw <{}>)", hex(&raw)));
                    }
                }
                if f.name != prev_fields.get(n).map(|p| p.name.clone()).unwrap_or_default() {
                    o.fail("C17/frame-fields", format!("reader=independent,name-changed,edit={kind}"), format!("object {n}: name {:?} → {:?}", prev_fields.get(n).map(|p| &p.name), f.name));
                }
            }
        }
    }
    for (n, pf) in &prev_fields {
        if exp.fields.contains_key(n) {
            continue;
        }
        match new_fields.get(n) {
            None => {
                o.fail("C17/frame-fields", format!("reader=independent,field-lost,edit={kind}"), format!("field {:?} (object {n}) was exposed by /AcroForm before the step and is not afterwards", pf.name));
                break;
            }
            Some(nf) => {
                if nf.v != pf.v || nf.name != pf.name {
                    o.fail("C17/frame-fields", format!("reader=independent,value-changed,edit={kind}"), format!("untouched field {:?} (object {n}): /V {:?} → {:?}, name → {:?}", pf.name, pf.v.as_deref().map(hex), nf.v.as_deref().map(hex), nf.name));
                }
            }
        }
    }
    for (n, nf) in &new_fields {
        if !prev_fields.contains_key(n) && !exp.fields.contains_key(n) {
            o.fail("C17/frame-fields", format!("reader=independent,field-appeared,edit={kind}"), format!("field {:?} (object {n}) appeared", nf.name));
        }
    }
    // notes
    let exp_notes: Vec<INote> = exp.notes.clone().unwrap_or_else(|| prev.notes.clone());
    let notes_clause = if exp.note_ops.is_empty() { "C17/frame-notes" } else { "C17/effect-note" };
    let ops_class = if exp.note_ops.is_empty() { format!("edit={kind}") } else { format!("op={}", exp.note_ops.iter().copied().collect::<BTreeSet<_>>().into_iter().collect::<Vec<_>>().join("+")) };
    let notes_equal = |a: &[INote], b: &[INote], with_rect: bool| a.len() == b.len() && a.iter().zip(b).all(|(x, y)| x.obj == y.obj && x.page == y.page && x.contents == y.contents && (!with_rect || rect_close(&x.rect, &y.rect)));
    if !notes_equal(&exp_notes, &new.notes, true) {
        o.fail(notes_clause, format!("reader=independent,{ops_class}"), format!("expected notes {:?}, independent reader sees {:?}", brief_notes(&exp_notes), brief_notes(&new.notes)));
    }
    // annotation order on the pages the step touched, and untouched pages keep theirs
    if exp.pages.is_none() {
        for (pi, p) in prev.pages.iter().enumerate() {
            let want = exp.annots.get(&pi).unwrap_or(&p.annots);
            match new.pages.get(pi) {
                Some(np) if &np.annots == want => {}
                other => o.fail(
                    if exp.annots.contains_key(&pi) { "C17/effect-note" } else { "C17/frame-annots" },
                    format!("annots-sequence,edit={kind}"),
                    format!("page {pi}: expected /Annots {want:?}, found {:?}", other.map(|p| &p.annots)),
                ),
            }
        }
    }
    // pages
    let page_exp: Vec<PageExp> = exp.pages.clone().unwrap_or_else(|| (0..prev.pages.len()).map(PageExp::Same).collect());
    if new.pages.len() != page_exp.len() {
        o.fail(if exp.pages.is_some() { "C17/effect-page" } else { "C17/frame-pages" }, format!("reader=independent,page-count,edit={kind}"), format!("expected {} pages, found {}", page_exp.len(), new.pages.len()));
    }
    for (i, pe) in page_exp.iter().enumerate() {
        let Some(np) = new.pages.get(i) else { break };
        match pe {
            PageExp::Same(j) => {
                if np.content != prev.pages[*j].content {
                    o.fail("C17/frame-pages", format!("reader=independent,content-changed,edit={kind}"), format!("page {i}: content before {:?}, after {:?}", show(&prev.pages[*j].content), show(&np.content)));
                }
            }
            PageExp::Contains(needles) => {
                for (k, nd) in needles.iter().enumerate() {
                    if !contains(&np.content, nd) && !contains_tokens(&np.content, nd) {
                        let what = if kind == "overlay" && k == 0 { "original-content-lost" } else { "new-content-missing" };
                        o.fail("C17/effect-page", format!("reader=independent,{what},edit={kind}"), format!("page {i}: content {:?} does not contain {:?}", show(&np.content), show(nd)));
                    }
                }
            }
        }
    }
    // info
    let prev_info = prev.rd.info().ok().flatten().or_else(|| carry.info.as_ref().and_then(|i| prev.rd.resolve(i).ok()).and_then(|x| x.as_dict().cloned()));
    if !exp.info_may_change {
        let through = if info_dropped || new.rd.trailer.get(b"Info").is_none() { carry.info.clone() } else { new.rd.trailer.get(b"Info").cloned() };
        let new_info = through.as_ref().and_then(|i| new.rd.resolve(i).ok()).and_then(|x| x.as_dict().cloned());
        match (&prev_info, &new_info) {
            (Some(a), Some(b)) => {
                if !dict_equiv(&prev.rd, a, &new.rd, b, &[]) {
                    o.fail("C17/frame-info", format!("reader=independent,edit={kind}"), format!("/Info before {a:?}, after {b:?}"));
                }
            }
            (Some(a), None) => o.fail("C17/frame-info", format!("reader=independent,info-lost,edit={kind}"), format!("/Info before {a:?}, not resolvable afterwards")),
            _ => {}
        }
    }

    // (6) library reader
    let lv = match lview(new_bytes) {
        Ok(l) => l,
        Err(e) => {
            o.fail("C17/library-strict-open", format!("edit={kind},{layout_class}"), e);
            o.excluded("C17/library-reader clauses (strict open failed)");
            return keep(o, chain_ok, new);
        }
    };
    // every object written by this step must be what the library's reader returns for that number
    let mut stale = false;
    if let Some(sec) = new.rd.sections.first() {
        use crate::refpdf::reader::Entry;
        for (n, e) in &sec.entries {
            let Entry::InUse { gen, .. } = e else { continue };
            let Some(want) = new.objects.get(n) else { continue };
            match lv.doc.get_object(*n, *gen as u16) {
                Ok(got) => {
                    let got = lib_to_obj(&got);
                    let same = match (&got, want) {
                        // stream payloads are compared by the content clauses; here the dictionaries
                        (Obj::Stream(a), Obj::Stream(b)) => dict_equiv(&new.rd, &a.dict, &new.rd, &b.dict, &[b"Length"]),
                        _ => obj_equiv(&new.rd, &got, &new.rd, want),
                    };
                    if !same {
                        let was_compressed = matches!(prev.rd.entry(*n), Entry::Compressed { .. }) || shadowed_objects(&prev.rd).contains(n);
                        stale = true;
                        if was_compressed {
                            o.fail("C17/stale-compressed-definition-wins", "old=objstm,new=plain", format!("object {n} rewritten by the {kind}: library reader returns {}, the file's newest definition is {}", trunc(&format!("{got:?}"), 200), trunc(&format!("{want:?}"), 200)));
                        } else {
                            o.fail("C17/library-reads-newest-definition", format!("edit={kind},{layout_class}"), format!("object {n}: library reader returns {}, newest definition is {}", trunc(&format!("{got:?}"), 200), trunc(&format!("{want:?}"), 200)));
                        }
                        break;
                    }
                }
                Err(e) => {
                    stale = true;
                    o.fail("C17/library-reads-newest-definition", format!("edit={kind},error"), format!("object {n}: {e}"));
                    break;
                }
            }
        }
    }
    if stale {
        // the library's view of this file is decided by the defect above; its semantic clauses cannot be evaluated behind it
        o.excluded("C17/library-reader effect+frame (behind stale-compressed-definition-wins)");
        return keep(o, chain_ok, new);
    }
    // fields
    match &lv.fields {
        Err(e) => o.fail("C17/effect-field", format!("reader=library,walk-error,edit={kind}"), e.clone()),
        Ok(lf) => {
            let lmap: BTreeMap<u32, &LField> = lf.iter().map(|f| (f.obj, f)).collect();
            for (n, nf) in &new_fields {
                match lmap.get(n) {
                    None => o.fail("C17/frame-fields", format!("reader=library,field-lost,edit={kind}"), format!("field {:?} (object {n}) is exposed to the independent reader but not to the library", nf.name)),
                    Some(l) => {
                        if let Some((name, value)) = exp.fields.get(n) {
                            if l.v_text.as_deref() != Some(value.as_str()) {
                                if utf8_ok.contains(n) {
                                    o.fail("C17/effect-field", "value=non-ascii", format!("field {name:?}: filled {value:?}, PdfString::to_text gives {:?}", l.v_text));
                                } else {
                                    o.fail("C17/effect-field", format!("reader=library,{}", value_class(value)), format!("field {name:?}: filled {value:?}, library sees {:?}", l.v_text));
                                }
                            }
                        } else if l.v != nf.v {
                            o.fail("C17/frame-fields", format!("reader=library,value-differs,edit={kind}"), format!("field {:?}: library /V {:?}, independent {:?}", nf.name, l.v.as_deref().map(hex), nf.v.as_deref().map(hex)));
                        }
                    }
                }
            }
            if lf.len() != new_fields.len() {
                o.fail("C17/frame-fields", format!("reader=library,field-count,edit={kind}"), format!("library exposes {} fields, independent reader {}", lf.len(), new_fields.len()));
            }
        }
    }
    // notes
    match &lv.notes {
        Err(e) => o.fail(notes_clause, format!("reader=library,error,{ops_class}"), e.clone()),
        Ok(ln) => {
            let pos_ok = ln.len() == exp_notes.len() && ln.iter().zip(&exp_notes).all(|(a, b)| (a.rect[0] - b.rect[0]).abs() < 1e-6 && (a.rect[1] - b.rect[1]).abs() < 1e-6);
            if !notes_equal(&exp_notes, ln, false) || !pos_ok {
                o.fail(notes_clause, format!("reader=library,{ops_class}"), format!("expected notes {:?}, library's notes() gives {:?}", brief_notes(&exp_notes), brief_notes(ln)));
            }
        }
    }
    // pages
    match &lv.page_count {
        Ok(pc) if *pc as usize == new.pages.len() => {
            for (i, c) in lv.contents.iter().enumerate() {
                match c {
                    Ok(c) => {
                        // the library concatenates without separators; compare modulo whitespace
                        let a: Vec<u8> = c.iter().copied().filter(|b| !refpdf::is_ws(*b)).collect();
                        let b: Vec<u8> = new.pages[i].content.iter().copied().filter(|b| !refpdf::is_ws(*b)).collect();
                        if a != b {
                            o.fail("C17/frame-pages", format!("reader=library,content-differs,edit={kind}"), format!("page {i}: library {:?}, independent {:?}", show(c), show(&new.pages[i].content)));
                        }
                    }
                    Err(e) => o.fail("C17/frame-pages", format!("reader=library,content-error,edit={kind}"), format!("page {i}: {e}")),
                }
            }
        }
        other => o.fail("C17/frame-pages", format!("reader=library,page-count,edit={kind}"), format!("library page_count {other:?}, independent reader {}", new.pages.len())),
    }
    // title
    if !exp.info_may_change {
        let want = prev_info.as_ref().and_then(|d| d.get(b"Title")).and_then(|t| t.as_str()).map(textstring::decode);
        match &lv.title {
            Ok(t) => {
                if *t != want {
                    if info_dropped || new.rd.trailer.get(b"Info").is_none() {
                        o.excluded("C17/frame-info[library] (behind trailer-key-dropped|/Info)");
                    } else {
                        o.fail("C17/frame-info", format!("reader=library,edit={kind}"), format!("title before {want:?}, library metadata().title now {t:?}"));
                    }
                }
            }
            Err(e) => o.fail("C17/frame-info", format!("reader=library,error,edit={kind}"), e.clone()),
        }
    }
    keep(o, chain_ok, new)
}

/// A file the independent validator rejects is outside the domain of the next edit (the property quantifies
/// over valid base PDFs): the history ends there.
fn keep(o: &mut Outcome, chain_ok: bool, new: IView) -> Option<IView> {
    if chain_ok {
        Some(new)
    } else {
        o.excluded("C17/later steps (the step's output is not a valid chain of revisions)");
        None
    }
}

/// Content-stream tokens with resource names normalised (an overlay may rename resources of the preserved content).
fn content_tokens(b: &[u8]) -> Vec<refpdf::Tok> {
    let mut lx = refpdf::Lexer::new(b, 0);
    let mut out = Vec::new();
    loop {
        match lx.next_tok() {
            Ok(refpdf::Tok::Eof) | Err(_) => break,
            Ok(refpdf::Tok::Name(_)) => out.push(refpdf::Tok::Name(b"N".to_vec())),
            Ok(t) => out.push(t),
        }
        if out.len() > 200_000 {
            break;
        }
    }
    out
}

fn contains_tokens(hay: &[u8], needle: &[u8]) -> bool {
    let (h, n) = (content_tokens(hay), content_tokens(needle));
    n.is_empty() || h.windows(n.len()).any(|w| w == n.as_slice())
}

fn hex(b: &[u8]) -> String {
    b.iter().take(48).map(|c| format!("{c:02X}")).collect()
}

fn show(b: &[u8]) -> String {
    trunc(&String::from_utf8_lossy(b), 160)
}

fn brief_notes(n: &[INote]) -> Vec<(u32, usize, [f64; 2], Option<String>)> {
    n.iter().map(|n| (n.obj, n.page, [n.rect[0], n.rect[1]], n.contents.clone())).collect()
}

// ---------------------------------------------------------------------------------------------
// The check
// ---------------------------------------------------------------------------------------------

fn encodes_as(part: &str, raw: &[u8]) -> bool {
    // any encoding of the same text string is the same name (PDFDocEncoding or UTF-16BE with BOM); raw UTF-8 is the
    // library's former mis-encoding, still accepted here so that the gate is about exposure, not about encoding
    textstring::decode(raw) == part || raw == textstring::encode(part).as_slice() || raw == part.as_bytes()
}

pub fn check(c: &Case) -> Outcome {
    let t0 = std::time::Instant::now();
    let o = check_inner(c);
    if std::env::var("C17_TIME").is_ok() {
        eprintln!("case {:?} lib={} layout={} steps={} labels={:?}", t0.elapsed(), c.base.library, c.base.layout, c.steps.len(), o.labels.iter().filter(|l| l.starts_with("step")).collect::<Vec<_>>());
    }
    o
}

fn check_inner(c: &Case) -> Outcome {
    let mut o = Outcome::new();
    let b = &c.base;
    let layout_class = format!("base={},layout={}", if b.library { "library" } else { "synth" }, ["classic", "xref-stream", "object-streams"][b.layout.min(2) as usize]);
    o.label(layout_class.clone());
    let base_bytes = if b.library {
        match build_library_base(b) {
            Ok(x) => x,
            Err(e) => {
                o.label(format!("base-build-error:{}", trunc(&e, 40)));
                return o;
            }
        }
    } else {
        build_synth_base(b)
    };
    if let Ok(dir) = std::env::var("C17_DUMP") {
        let _ = std::fs::write(format!("{dir}/base.pdf"), &base_bytes);
    }
    let rep = refpdf::validate::validate(&base_bytes, None);
    if !rep.problems.is_empty() {
        if b.library {
            // a library-authored base the independent validator rejects is C03's subject; no history on top of it
            o.label(format!("base-invalid:{}", rep.problems[0].clause));
            o.excluded("C17/all (library-authored base rejected by the independent validator)");
        } else {
            o.fail("C17/harness-synth-base-valid", rep.problems[0].clause, rep.problems[0].detail.clone());
        }
        return o;
    }
    let mut prev = match iview(&base_bytes) {
        Ok(v) => v,
        Err(e) => {
            o.fail("C17/harness-base-view", if b.library { "library" } else { "synth" }, e);
            return o;
        }
    };
    // gate: the base exposes what was authored
    let names = b.full_names();
    let mut field_objs: Vec<Option<u32>> = Vec::new();
    for (i, f) in b.fields.iter().enumerate() {
        let parts: Vec<&str> = if b.library {
            vec![f.name.as_str()]
        } else {
            match f.depth {
                0 => vec![f.name.as_str()],
                1 => vec![b.groups[0].as_str(), f.name.as_str()],
                _ => vec![b.groups[0].as_str(), b.groups[1].as_str(), f.name.as_str()],
            }
        };
        let hit = prev.fields.iter().find(|x| x.raw_path.len() == parts.len() && x.raw_path.iter().zip(&parts).all(|(r, p)| encodes_as(p, r)));
        match hit {
            Some(h) => {
                field_objs.push(Some(h.obj));
                if !b.library {
                    let want = if b.second_revision && i == 0 { Some("rev2 value".to_string()) } else { f.value.clone() };
                    let got = h.v.as_deref().map(textstring::decode);
                    if got != want || h.name != names[i] {
                        o.fail("C17/harness-synth-base-gate", "field", format!("authored {:?}={want:?}, independent reader sees {:?}={got:?}", names[i], h.name));
                        return o;
                    }
                }
            }
            None => {
                field_objs.push(None);
                o.fail(if b.library { "C17/base-exposes-authored-field" } else { "C17/harness-synth-base-gate" }, if f.name.is_ascii() { "name=ascii" } else { "name=non-ascii" }, format!("authored field {:?} not found among {:?}", names[i], prev.fields.iter().map(|f| &f.name).collect::<Vec<_>>()));
                if !b.library {
                    return o;
                }
            }
        }
    }
    if !b.library {
        let want_title = b.title.clone();
        let got = prev.rd.info().ok().flatten().and_then(|d| d.get(b"Title").and_then(|t| t.as_str()).map(textstring::decode));
        if got != want_title || prev.notes.len() != b.notes.len() || prev.pages.len() != b.pages as usize {
            o.fail("C17/harness-synth-base-gate", "title/notes/pages", format!("title {got:?} vs {want_title:?}, notes {} vs {}, pages {} vs {}", prev.notes.len(), b.notes.len(), prev.pages.len(), b.pages));
            return o;
        }
    }
    let base_objstm = rep.objstm_members > 0;
    o.label_if(base_objstm, "base-has-object-stream-members");
    o.label_if(b.second_revision && !b.library, "base-has-two-revisions");
    o.label_if(!names.iter().all(|n| n.is_ascii()), "field-name=non-ascii");
    o.label_if(b.fields.iter().any(|f| f.depth > 0) && !b.library, "hierarchical-names");
    if base_objstm || (b.second_revision && !b.library) {
        o.nontrivial(true);
    }

    let mut carry = Carry { info: prev.rd.trailer.get(b"Info").cloned() };
    let mut prev_bytes = base_bytes;
    let mut edited: BTreeSet<u32> = BTreeSet::new();
    let mut done = 0usize;
    for (k, step) in c.steps.iter().enumerate() {
        let r = match step {
            Step::Fill { field, value } => fill_step(&prev_bytes, &prev, &names, &field_objs, &[(*field, value.clone())], false),
            Step::FillMany { items } => fill_step(&prev_bytes, &prev, &names, &field_objs, items, true),
            Step::Notes { ops } => notes_step(&prev_bytes, &prev, ops),
            Step::Replace { pages, title } => replace_step(&prev_bytes, &prev, k, *pages, title),
            Step::Overlay => overlay_step(&prev_bytes, &prev, k),
        };
        let kind = match step {
            Step::Fill { .. } => "fill",
            Step::FillMany { .. } => "fill_many",
            Step::Notes { .. } => "notes",
            Step::Replace { .. } => "replace",
            Step::Overlay => "overlay",
        };
        match r {
            StepResult::Skipped(why) => o.label(format!("step-skipped:{why}")),
            StepResult::Refused(why) => {
                o.label(format!("step-refused:{kind}:{why}"));
                // a refusal must have a reason the documentation gives; an ASCII fill of an existing, exposed field must not be refused
                if let Step::Fill { field, value } = step {
                    let i = pick_idx(*field, names.len());
                    let exposed = field_objs[i].map(|n| prev.fields.iter().any(|f| f.obj == n)).unwrap_or(false);
                    // (a library-authored non-ASCII name is stored as raw UTF-8 — C10 — and cannot be addressed; synthesized names are proper text strings)
                    if exposed && !has_non_winansi(value) && (names[i].is_ascii() || !b.library) && why != "encoding" {
                        o.fail("C17/edit-accepted", format!("edit=fill,refused:{why}"), format!("fill({:?}, {value:?}) was refused although the field is exposed by /AcroForm", names[i]));
                    }
                }
            }
            StepResult::Done(ap) => {
                done += 1;
                if let Ok(dir) = std::env::var("C17_DUMP") {
                    let _ = std::fs::write(format!("{dir}/step{k}.pdf"), &ap.bytes);
                }
                o.label(format!("step:{kind}"));
                for op in &ap.exp.note_ops {
                    o.label(format!("note-op:{op}"));
                }
                for (_, v) in ap.exp.fields.values() {
                    o.label(format!("fill-{}", value_class(v)));
                }
                let touched: Vec<u32> = ap.exp.fields.keys().copied().chain(ap.exp.allowed.iter().filter(|(_, a)| matches!(a, Allowed::Keys(k) if k.contains(&"Rect"))).map(|(n, _)| *n)).collect();
                for t in touched {
                    if !edited.insert(t) {
                        o.nontrivial(true);
                        o.label("same-target-edited-again");
                    }
                }
                match judge(&mut o, &prev_bytes, &prev, &ap, &mut carry, &layout_class) {
                    Some(nv) => {
                        prev = nv;
                        prev_bytes = ap.bytes;
                    }
                    None => {
                        o.label("history-cut-short");
                        break;
                    }
                }
            }
        }
    }
    o.label(format!("steps-applied={done}"));
    o
}

fn run(ctx: &Ctx) {
    let n = std::env::var("C17_CASES").ok().and_then(|s| s.parse().ok()).unwrap_or(ctx.tier.pick(320, 6_400));
    if std::env::var("C17_SCAN").is_ok() {
        // development aid: no shrinking, every failure signature becomes a label
        ctx.run_sub("histories", n, strategy, |c: &Case| {
            let mut o = check(c);
            let focus = std::env::var("C17_SCAN").unwrap_or_default();
            let fails = std::mem::take(&mut o.fails);
            for f in fails {
                if !focus.is_empty() && focus != "1" && f.signature().contains(&focus) {
                    o.fails.push(f);
                } else {
                    o.label(format!("FAIL {}", f.signature()));
                }
            }
            o
        });
        return;
    }
    ctx.run_sub("histories", n, strategy, check);
}

fn replay(ctx: &Ctx, sub: &str, case: &Value) -> Result<Outcome, String> {
    match sub.trim_start_matches("replay:") {
        "histories" => ctx.replay_case::<Case, _>(case, check),
        s => Err(format!("unknown sub-check {s}")),
    }
}
