//! C15 — the document-to-chunks pipeline preserves content and provenance.
//!
//! Documents are authored with the library (`Document`/`Page`/`TextContext`/`Table`), read back through
//! `PdfReader` → `PdfDocument` and chunked through every public `rag_chunks*` entry point. The oracle is a
//! model of the authored document that lives entirely in the harness: every authored word is globally
//! unique (`<vocabulary word><counter>`), so a word found in a chunk identifies the authored block, the
//! page it was written on and the stack of headings that governs it.
use crate::engine::{Ctx, Outcome, PropertyDef};
use oxidize_pdf::parser::{PdfDocument, PdfReader};
use oxidize_pdf::pipeline::{ContextFormat, ContextMode, DocumentSource, ExtractionProfile, HybridChunkConfig, MergePolicy, RagChunk};
use oxidize_pdf::text::Table;
use oxidize_pdf::{Document, Font, Page};
use proptest::prelude::*;
use serde::{Deserialize, Serialize};
use serde_json::Value;
use std::collections::{BTreeMap, BTreeSet};
use std::io::Cursor;

pub fn def() -> PropertyDef {
    PropertyDef {
        id: "C15",
        level: "exploration",
        rule: "documents authored with the library: 1–4 pages (Letter or A4), optional preamble, 1–6 sections = bold heading (20/16/13 pt = level 1/2/3, levels may skip) + 1–4 items (paragraph of 1–4 sentences / 3–25 words at 10–11 pt wrapped by the generator with fixed leading; bulleted or numbered list, tight or loose; ruled 2–4×2–3 table through Page::add_table), explicit page breaks before headings and between items of a section (sections continuing across a page break, blank pages) and natural overflow (paragraphs split across pages at a line); every authored word is unique; geometry inside the documented envelope (block gap > 1.5×largest line height, nothing in any profile's header/footer zone, no colons, no hyphens); each document × 3 configurations (entry point rag_chunks / rag_chunks_with / rag_chunks_with_profile / rag_chunks_with_profile_config / rag_chunks_with_source_and_config / rag_chunks_json; max_tokens 5…512; merge_adjacent; merge policy; propagate_headings; context mode None/Heading/Contextual(Labeled|Prose); all seven profiles). Non-trivial: the laid-out document has ≥ 2 pages and ≥ 2 heading levels; distinct by hash of the case.",
        assumptions: &[
            "page_numbers are 0-based (Element::page() documents '0-indexed'; RagChunk::page_numbers documents 'page numbers where this chunk's elements appear (deduplicated, sorted numerically)')",
            "a chunk's content is its `text` field (documented 'always context-free'); full_text is only required to end with text and to equal it under ContextMode::None",
            "governing headings follow the usual outline rule: a heading of level L closes every open heading of level ≥ L; levels are the authored font sizes 20 > 16 > 13",
            "breadcrumb equality is asserted only when the output shows that exactly the authored headings were classified as titles (each heading is the sole content of a chunk whose element_types is [\"title\"], and no other chunk carries a title); otherwise only 'never names a heading that does not govern the chunk' is asserted and the case is labelled precondition-miss; the run is invalid (exit 2) if fewer than 60 % of evaluated configurations meet the precondition",
            "cross-process determinism is approximated in-process: the pipeline runs on two freshly opened readers and once more in a fresh thread; every HashMap::new() draws fresh RandomState keys per map instance, so iteration-order dependence shows up between in-process repetitions as it would between processes; a dependence on process-global state (ASLR, env, pid) would not be seen",
            "list bullets ('-', 'N.') and table cell separators ('|') are not content; a trailing '.' is stripped before matching words",
            "the harness enables the library's `semantic` feature (needed for rag_chunks_json and for Serialize on RagChunk)",
        ],
        trusted_base: &["harness-side layout model (pages, governing heading stack) in c15.rs", "serde_json"],
        run,
        replay,
    }
}

// ───────────────────────────── case ─────────────────────────────

#[derive(Clone, Debug, Serialize, Deserialize, PartialEq)]
pub enum Block {
    /// bold heading; level 1..=3 (20/16/13 pt); 1..=4 words
    Heading { level: u8, words: u8 },
    /// paragraph; word count per sentence (total 3..=25)
    Para { sentences: Vec<u8> },
    /// list; words per item; `tight` = items follow each other with line leading only
    List { ordered: bool, tight: bool, items: Vec<u8> },
    /// ruled table, one word per cell
    Table { rows: u8, cols: u8 },
    PageBreak,
}

#[derive(Clone, Debug, Serialize, Deserialize)]
pub struct DocSpec {
    pub a4: bool,
    /// body font size, 10 or 11
    pub body: u8,
    /// extra leading (line pitch = size + lead), 2..=4
    pub lead: u8,
    /// whitespace between a heading's baseline and the top of the block under it: 10, 18 or 34
    pub head_gap: u8,
    /// whitespace between other blocks: 34, 40 or 48
    pub block_gap: u8,
    /// allow a second ruled table on a page (otherwise a page break is forced before it)
    #[serde(default)]
    pub two_tables: bool,
    pub blocks: Vec<Block>,
}

#[derive(Clone, Copy, Debug, Serialize, Deserialize, PartialEq)]
pub enum Entry {
    Default,
    With,
    Profile(u8),
    ProfileWith(u8),
    Source,
    Json,
}

#[derive(Clone, Debug, Serialize, Deserialize)]
pub struct Cfg {
    pub entry: Entry,
    pub max_tokens: u16,
    pub overlap: u8,
    pub merge_adjacent: bool,
    pub propagate: bool,
    pub same_type_only: bool,
    /// 0 None, 1 Heading, 2 Contextual(Labeled), 3 Contextual(Prose)
    pub ctx: u8,
}

#[derive(Clone, Debug, Serialize, Deserialize)]
pub struct Case {
    pub doc: DocSpec,
    pub cfgs: Vec<Cfg>,
}

// ───────────────────────────── layout model ─────────────────────────────

const VOC: [&str; 16] = ["alpha", "bravo", "cedar", "delta", "ember", "fjord", "gamma", "haven", "indigo", "juno", "kilo", "lima", "nova", "omega", "sigma", "tango"];

fn word(k: usize) -> String {
    format!("{}{}", VOC[(k * 5 + 3) % VOC.len()], k)
}

fn hword(k: usize) -> String {
    let w = word(k);
    let mut c = w.chars();
    let f = c.next().unwrap().to_ascii_uppercase();
    format!("{f}{}", c.as_str())
}

#[derive(Clone, Copy, Debug, PartialEq, Eq, PartialOrd, Ord)]
enum Kind {
    Heading,
    Para,
    List,
    Table,
}

impl Kind {
    fn name(self) -> &'static str {
        match self {
            Kind::Heading => "heading",
            Kind::Para => "para",
            Kind::List => "list",
            Kind::Table => "table",
        }
    }
}

#[derive(Clone, Debug)]
struct Tok {
    word: String,
    page: u32,
    block: usize,
    kind: Kind,
    /// indices into `Lay::heads`, root → leaf (a heading's own tokens include the heading itself)
    path: Vec<usize>,
}

#[derive(Clone, Debug)]
struct Head {
    block: usize,
    level: u8,
    page: u32,
    text: String,
    toks: Vec<usize>,
}

enum Op {
    Text { page: u32, x: f64, y: f64, size: f64, bold: bool, s: String },
    Table { page: u32, x: f64, y: f64, col_w: f64, rows: Vec<Vec<String>> },
}

struct Lay {
    width: f64,
    height: f64,
    pages: u32,
    ops: Vec<Op>,
    toks: Vec<Tok>,
    heads: Vec<Head>,
    truncated: bool,
    blank_page: bool,
    para_split: bool,
    section_spans: bool,
    levels: BTreeSet<u8>,
    kinds: BTreeSet<Kind>,
    longest_para: usize,
    /// pages that carry more than one ruled table
    multi_table_pages: BTreeSet<u32>,
}

const MAX_PAGES: u32 = 4;

fn layout(d: &DocSpec) -> Lay {
    let (pw, ph) = if d.a4 { (595.0, 842.0) } else { (612.0, 792.0) };
    let x0 = 72.0;
    let usable = pw - 144.0;
    let y_top = (0.88 * ph as f64).floor();
    let y_min = (0.11 * ph as f64).ceil();
    let body = if d.body >= 11 { 11.0 } else { 10.0 };
    let lead = d.lead.clamp(2, 4) as f64;
    let head_gap = d.head_gap.clamp(8, 60) as f64;
    let block_gap = d.block_gap.clamp(34, 60) as f64;

    let mut lay = Lay {
        width: pw,
        height: ph,
        pages: 1,
        ops: Vec::new(),
        toks: Vec::new(),
        heads: Vec::new(),
        truncated: false,
        blank_page: false,
        para_split: false,
        section_spans: false,
        levels: BTreeSet::new(),
        kinds: BTreeSet::new(),
        longest_para: 0,
        multi_table_pages: BTreeSet::new(),
    };
    let mut tables_on_page = [0u32; MAX_PAGES as usize];
    let mut page: u32 = 0;
    let mut cur = y_top; // top edge available to the next block
    let mut first_on_page = true;
    let mut prev_heading = false;
    let mut k = 0usize; // global word counter
    let mut stack: Vec<usize> = Vec::new(); // indices into heads
    let mut page_used = [false; MAX_PAGES as usize];

    // places one line; returns false when the document is full
    macro_rules! place_line {
        ($size:expr, $bold:expr, $text:expr) => {{
            let size: f64 = $size;
            let mut y = cur - size;
            let mut ok = true;
            if y < y_min {
                if page + 1 >= MAX_PAGES {
                    ok = false;
                } else {
                    page += 1;
                    cur = y_top;
                    y = cur - size;
                }
            }
            if ok {
                lay.ops.push(Op::Text { page, x: x0, y, size, bold: $bold, s: $text });
                page_used[page as usize] = true;
                first_on_page = false;
                cur = y - lead;
            }
            ok
        }};
    }

    'blocks: for (bi, b) in d.blocks.iter().enumerate() {
        if let Block::PageBreak = b {
            if page + 1 < MAX_PAGES {
                page += 1;
                cur = y_top;
                first_on_page = true;
            }
            continue;
        }
        if !first_on_page {
            let is_heading = matches!(b, Block::Heading { .. });
            cur -= if prev_heading && !is_heading { head_gap } else { block_gap };
        }
        match b {
            Block::Heading { level, words } => {
                let level = (*level).clamp(1, 3);
                let size = [20.0, 16.0, 13.0][level as usize - 1];
                let n = (*words).clamp(1, 4) as usize;
                let ws: Vec<String> = (0..n).map(|i| hword(k + i)).collect();
                let text = ws.join(" ");
                let start_page = page;
                let _ = start_page;
                if !place_line!(size, true, text.clone()) {
                    lay.truncated = true;
                    break 'blocks;
                }
                cur += lead; // block ends at its baseline
                while let Some(&top) = stack.last() {
                    if lay.heads[top].level >= level {
                        stack.pop();
                    } else {
                        break;
                    }
                }
                let hi = lay.heads.len();
                stack.push(hi);
                let mut tix = Vec::new();
                for w in &ws {
                    tix.push(lay.toks.len());
                    lay.toks.push(Tok { word: w.clone(), page, block: bi, kind: Kind::Heading, path: stack.clone() });
                }
                lay.heads.push(Head { block: bi, level, page, text, toks: tix });
                lay.levels.insert(level);
                lay.kinds.insert(Kind::Heading);
                k += n;
                prev_heading = true;
            }
            Block::Para { sentences } => {
                // words with sentence terminators
                let mut ws: Vec<String> = Vec::new();
                let mut total = 0usize;
                for &n in sentences.iter().take(4) {
                    let n = (n.max(1) as usize).min(25 - total.min(25));
                    if n == 0 {
                        break;
                    }
                    for i in 0..n {
                        let mut w = word(k + total + i);
                        if i + 1 == n {
                            w.push('.');
                        }
                        ws.push(w);
                    }
                    total += n;
                }
                if total == 0 {
                    continue;
                }
                lay.longest_para = lay.longest_para.max(total);
                let maxc = (usable / (0.6 * body)).floor() as usize;
                let lines = wrap(&ws, maxc, "", "");
                let first_page = page;
                let mut wi = 0usize;
                for (line, nwords) in lines {
                    if !place_line!(body, false, line) {
                        lay.truncated = true;
                        break 'blocks;
                    }
                    for i in 0..nwords {
                        let w = ws[wi + i].trim_end_matches('.').to_string();
                        lay.toks.push(Tok { word: w, page, block: bi, kind: Kind::Para, path: stack.clone() });
                    }
                    wi += nwords;
                }
                cur += lead;
                if page != first_page {
                    lay.para_split = true;
                }
                lay.kinds.insert(Kind::Para);
                k += total;
                prev_heading = false;
            }
            Block::List { ordered, tight, items } => {
                let maxc = (usable / (0.6 * body)).floor() as usize;
                let mut first_item = true;
                for (ii, &n) in items.iter().take(4).enumerate() {
                    let n = n.clamp(1, 8) as usize;
                    let ws: Vec<String> = (0..n).map(|i| word(k + i)).collect();
                    let bullet = if *ordered { format!("{}. ", ii + 1) } else { "- ".to_string() };
                    let lines = wrap(&ws, maxc, &bullet, "");
                    if !first_item && !*tight {
                        cur += lead;
                        cur -= block_gap;
                    }
                    let mut wi = 0usize;
                    for (line, nwords) in lines {
                        if !place_line!(body, false, line) {
                            lay.truncated = true;
                            break 'blocks;
                        }
                        for i in 0..nwords {
                            lay.toks.push(Tok { word: ws[wi + i].clone(), page, block: bi, kind: Kind::List, path: stack.clone() });
                        }
                        wi += nwords;
                    }
                    k += n;
                    first_item = false;
                }
                cur += lead;
                lay.kinds.insert(Kind::List);
                prev_heading = false;
            }
            Block::Table { rows, cols } => {
                let rows = (*rows).clamp(2, 4) as usize;
                let cols = (*cols).clamp(2, 3) as usize;
                let h = rows as f64 * 20.0; // font 10 + 2×5 padding (TableOptions::default())
                if cur - h < y_min || (tables_on_page[page as usize] > 0 && !d.two_tables) {
                    if page + 1 >= MAX_PAGES {
                        lay.truncated = true;
                        break 'blocks;
                    }
                    page += 1;
                    cur = y_top;
                }
                let col_w = (usable / cols as f64).min(140.0);
                let mut cells = Vec::new();
                for r in 0..rows {
                    let mut row = Vec::new();
                    for c in 0..cols {
                        let w = word(k + r * cols + c);
                        lay.toks.push(Tok { word: w.clone(), page, block: bi, kind: Kind::Table, path: stack.clone() });
                        row.push(w);
                    }
                    cells.push(row);
                }
                lay.ops.push(Op::Table { page, x: x0, y: cur, col_w, rows: cells });
                tables_on_page[page as usize] += 1;
                if tables_on_page[page as usize] > 1 {
                    lay.multi_table_pages.insert(page);
                }
                page_used[page as usize] = true;
                first_on_page = false;
                cur -= h;
                k += rows * cols;
                lay.kinds.insert(Kind::Table);
                prev_heading = false;
            }
            Block::PageBreak => unreachable!(),
        }
    }
    lay.pages = page + 1;
    // a trailing page break leaves an empty last page: still a page of the document
    lay.blank_page = (0..lay.pages).any(|p| !page_used[p as usize]);
    // section spanning pages: some non-heading token whose governing leaf heading sits on an earlier page
    lay.section_spans = lay.toks.iter().any(|t| t.kind != Kind::Heading && t.path.last().map(|&h| lay.heads[h].page < t.page).unwrap_or(false));
    lay
}

/// greedy wrap by character budget; returns (line text, number of words on the line)
fn wrap(ws: &[String], maxc: usize, first_prefix: &str, cont_prefix: &str) -> Vec<(String, usize)> {
    let mut out = Vec::new();
    let mut line = String::from(first_prefix);
    let mut n = 0usize;
    for w in ws {
        if n > 0 && line.len() + 1 + w.len() > maxc {
            out.push((std::mem::replace(&mut line, String::from(cont_prefix)), n));
            n = 0;
        }
        if n > 0 {
            line.push(' ');
        }
        line.push_str(w);
        n += 1;
    }
    if n > 0 {
        out.push((line, n));
    }
    out
}

fn build_pdf(lay: &Lay) -> Result<Vec<u8>, String> {
    let mut pages: Vec<Page> = (0..lay.pages).map(|_| Page::new(lay.width, lay.height)).collect();
    for op in &lay.ops {
        match op {
            Op::Text { page, x, y, size, bold, s } => {
                let font = if *bold { Font::HelveticaBold } else { Font::Helvetica };
                pages[*page as usize].text().set_font(font, *size).at(*x, *y).write(s).map_err(|e| format!("TextContext::write: {e}"))?;
            }
            Op::Table { page, x, y, col_w, rows } => {
                let mut t = Table::new(vec![*col_w; rows[0].len()]);
                t.set_position(*x, *y);
                for r in rows {
                    t.add_row(r.clone()).map_err(|e| format!("Table::add_row: {e}"))?;
                }
                pages[*page as usize].add_table(&t).map_err(|e| format!("Page::add_table: {e}"))?;
            }
        }
    }
    let mut doc = Document::new();
    doc.set_title("C15 generated document");
    for p in pages {
        doc.add_page(p);
    }
    doc.to_bytes().map_err(|e| format!("Document::to_bytes: {e}"))
}

// ───────────────────────────── running the pipeline ─────────────────────────────

fn profile(i: u8) -> (ExtractionProfile, &'static str) {
    match i % 7 {
        0 => (ExtractionProfile::Standard, "Standard"),
        1 => (ExtractionProfile::Academic, "Academic"),
        2 => (ExtractionProfile::Form, "Form"),
        3 => (ExtractionProfile::Government, "Government"),
        4 => (ExtractionProfile::Dense, "Dense"),
        5 => (ExtractionProfile::Presentation, "Presentation"),
        _ => (ExtractionProfile::Rag, "Rag"),
    }
}

fn lib_cfg(c: &Cfg) -> HybridChunkConfig {
    HybridChunkConfig {
        max_tokens: c.max_tokens.max(1) as usize,
        overlap_tokens: c.overlap as usize,
        merge_adjacent: c.merge_adjacent,
        propagate_headings: c.propagate,
        merge_policy: if c.same_type_only { MergePolicy::SameTypeOnly } else { MergePolicy::AnyInlineContent },
        context_mode: match c.ctx % 4 {
            0 => ContextMode::None,
            1 => ContextMode::Heading,
            2 => ContextMode::Contextual(ContextFormat::Labeled),
            _ => ContextMode::Contextual(ContextFormat::Prose),
        },
    }
}

/// the configuration that is in force for an entry point (entry points without a config argument use the default)
fn effective(c: &Cfg) -> Cfg {
    match c.entry {
        Entry::With | Entry::ProfileWith(_) | Entry::Source => c.clone(),
        Entry::Default | Entry::Profile(_) | Entry::Json => Cfg { entry: c.entry, max_tokens: 512, overlap: 50, merge_adjacent: true, propagate: true, same_type_only: false, ctx: 1 },
    }
}

/// What the oracle looks at, copied out of a `RagChunk`.
#[derive(Clone, Debug)]
struct CV {
    index: usize,
    text: String,
    full_text: String,
    pages: Vec<u32>,
    types: Vec<String>,
    heading_context: Option<String>,
    heading_path: Vec<String>,
    id: String,
    prev: Option<String>,
    next: Option<String>,
    page_span: Option<(u32, u32)>,
}

fn view(c: &RagChunk) -> CV {
    CV {
        index: c.chunk_index,
        text: c.text.clone(),
        full_text: c.full_text.clone(),
        pages: c.page_numbers.clone(),
        types: c.element_types.clone(),
        heading_context: c.heading_context.clone(),
        heading_path: c.metadata.heading_path.clone(),
        id: c.metadata.chunk_id.clone(),
        prev: c.metadata.prev_chunk_id.clone(),
        next: c.metadata.next_chunk_id.clone(),
        page_span: c.metadata.page_span,
    }
}

struct RunOut {
    chunks: Vec<CV>,
    json: String,
}

fn run_pipeline(bytes: &[u8], cfg: &Cfg) -> Result<RunOut, String> {
    let reader = PdfReader::new(Cursor::new(bytes.to_vec())).map_err(|e| format!("PdfReader::new: {e}"))?;
    let doc = PdfDocument::new(reader);
    let chunks: Vec<RagChunk> = match cfg.entry {
        Entry::Default => doc.rag_chunks().map_err(|e| format!("rag_chunks: {e}"))?,
        Entry::With => doc.rag_chunks_with(lib_cfg(cfg)).map_err(|e| format!("rag_chunks_with: {e}"))?,
        Entry::Profile(p) => doc.rag_chunks_with_profile(profile(p).0).map_err(|e| format!("rag_chunks_with_profile: {e}"))?,
        Entry::ProfileWith(p) => doc.rag_chunks_with_profile_config(profile(p).0, lib_cfg(cfg)).map_err(|e| format!("rag_chunks_with_profile_config: {e}"))?,
        Entry::Source => {
            let src = DocumentSource::with_file(Some("c15.pdf".to_string()), Some("c15dochash".to_string()));
            doc.rag_chunks_with_source_and_config(src, lib_cfg(cfg)).map_err(|e| format!("rag_chunks_with_source_and_config: {e}"))?
        }
        Entry::Json => {
            let json = doc.rag_chunks_json().map_err(|e| format!("rag_chunks_json: {e}"))?;
            let chunks: Vec<RagChunk> = serde_json::from_str(&json).map_err(|e| format!("rag_chunks_json output does not deserialize as Vec<RagChunk>: {e}"))?;
            return Ok(RunOut { chunks: chunks.iter().map(view).collect(), json });
        }
    };
    let json = serde_json::to_string(&chunks).map_err(|e| format!("serde_json::to_string(chunks): {e}"))?;
    Ok(RunOut { chunks: chunks.iter().map(view).collect(), json })
}

// ───────────────────────────── oracle ─────────────────────────────

/// Known findings that the oracle continues behind.
#[derive(Clone, Copy, Debug, Default)]
pub struct Known {
    /// breadcrumb resets at a page boundary
    pub page_reset: bool,
    /// a table is emitted before the prose of its page
    pub table_first: bool,
}

fn norm_tok(t: &str) -> &str {
    t.trim_end_matches('.')
}

fn is_structural(t: &str) -> bool {
    t == "-" || t == "|" || (t.len() >= 2 && t.ends_with('.') && t[..t.len() - 1].bytes().all(|b| b.is_ascii_digit()))
}

fn norm_ws(s: &str) -> String {
    s.split_whitespace().collect::<Vec<_>>().join(" ")
}

fn entry_name(e: Entry) -> String {
    match e {
        Entry::Default => "rag_chunks".into(),
        Entry::With => "rag_chunks_with".into(),
        Entry::Profile(p) => format!("rag_chunks_with_profile({})", profile(p).1),
        Entry::ProfileWith(p) => format!("rag_chunks_with_profile_config({})", profile(p).1),
        Entry::Source => "rag_chunks_with_source_and_config".into(),
        Entry::Json => "rag_chunks_json".into(),
    }
}

pub fn check_with(case: &Case, known: Known) -> Outcome {
    let mut o = Outcome::new();
    let debug = std::env::var("C15_DEBUG").is_ok();
    let lay = layout(&case.doc);
    o.nontrivial(lay.pages >= 2 && lay.levels.len() >= 2);
    o.label(format!("pages={}", lay.pages));
    o.label(format!("heading-levels={}", lay.levels.len()));
    o.label_if(lay.section_spans, "section-spans-pages");
    o.label_if(lay.para_split, "paragraph-split-across-pages");
    o.label_if(lay.blank_page, "blank-page");
    o.label_if(lay.kinds.contains(&Kind::List), "list");
    o.label_if(lay.kinds.contains(&Kind::Table), "table");
    o.label_if(lay.truncated, "truncated-at-4-pages");
    o.label_if(!lay.multi_table_pages.is_empty(), "two-ruled-tables-on-one-page");
    o.label_if(lay.toks.first().map(|t| t.path.is_empty()).unwrap_or(false), "preamble");
    if lay.toks.is_empty() {
        o.label("empty-document");
    }

    let bytes = match build_pdf(&lay) {
        Ok(b) => b,
        Err(e) => {
            o.fail("C15/authoring", "library-refuses-document", e);
            return o;
        }
    };
    if debug {
        let _ = std::fs::write("/tmp/c15_debug.pdf", &bytes);
        eprintln!("--- layout: {} pages, {} tokens, heads {:?}", lay.pages, lay.toks.len(), lay.heads.iter().map(|h| (h.level, h.page, h.text.clone())).collect::<Vec<_>>());
        for op in &lay.ops {
            match op {
                Op::Text { page, y, size, s, .. } => eprintln!("   p{page} y={y} {size}pt {s:?}"),
                Op::Table { page, y, rows, .. } => eprintln!("   p{page} y={y} table {rows:?}"),
            }
        }
        if let Ok(reader) = PdfReader::new(Cursor::new(bytes.clone())) {
            let d = PdfDocument::new(reader);
            if let Ok(els) = d.partition() {
                for e in &els {
                    eprintln!("   element {} p{} bbox=({:.1},{:.1},{:.1},{:.1}) path={:?} text={:?}", e.type_name(), e.page(), e.bbox().x, e.bbox().y, e.bbox().width, e.bbox().height, e.metadata().heading_path, e.display_text());
                }
            }
        }
    }

    let index: BTreeMap<&str, usize> = lay.toks.iter().enumerate().map(|(i, t)| (t.word.as_str(), i)).collect();

    for cfg in &case.cfgs {
        let eff = effective(cfg);
        let ename = entry_name(cfg.entry);
        o.label(format!("entry={}", ename.split('(').next().unwrap_or("")));
        if let Entry::Profile(p) | Entry::ProfileWith(p) = cfg.entry {
            o.label(format!("profile={}", profile(p).1));
        }
        o.label(format!("ctx={}", ["None", "Heading", "Labeled", "Prose"][(eff.ctx % 4) as usize]));
        o.label_if(eff.same_type_only, "policy=SameTypeOnly");
        o.label_if(!eff.merge_adjacent, "merge_adjacent=false");
        o.label_if(!eff.propagate, "propagate_headings=false");
        o.label_if((eff.max_tokens as usize) < lay.longest_para, "max_tokens<longest-paragraph");

        // run 1 and 2: two freshly opened readers; run 3: a fresh thread
        let r1 = run_pipeline(&bytes, cfg);
        let r2 = run_pipeline(&bytes, cfg);
        let r3 = {
            let b = bytes.clone();
            let c = cfg.clone();
            match std::thread::Builder::new().stack_size(8 << 20).spawn(move || run_pipeline(&b, &c)) {
                Ok(h) => h.join().unwrap_or_else(|_| Err("panic in pipeline thread".to_string())),
                Err(e) => Err(format!("spawn: {e}")),
            }
        };
        let r1 = match r1 {
            Ok(r) => r,
            Err(e) => {
                o.fail("C15/conservation", "pipeline-error", format!("{ename}: {e}"));
                continue;
            }
        };
        // ── determinism ──
        for (name, r) in [("second-reader", &r2), ("fresh-thread", &r3)] {
            match r {
                Err(e) => o.fail("C15/determinism", "error-on-repeat", format!("{ename} {name}: first run succeeded, repeat failed: {e}")),
                Ok(r) => {
                    if r.chunks.len() != r1.chunks.len() {
                        o.fail("C15/determinism", "chunk-count", format!("{ename} {name}: {} vs {} chunks", r1.chunks.len(), r.chunks.len()));
                    } else if let Some((a, b)) = r1.chunks.iter().zip(&r.chunks).find(|(a, b)| a.id != b.id) {
                        o.fail("C15/determinism", "chunk_id", format!("{ename} {name}: chunk {} id {:?} vs {:?}", a.index, a.id, b.id));
                    } else if let Some((a, b)) = r1.chunks.iter().zip(&r.chunks).find(|(a, b)| a.full_text != b.full_text) {
                        o.fail("C15/determinism", "full_text", format!("{ename} {name}: chunk {} full_text {:?} vs {:?}", a.index, a.full_text, b.full_text));
                    } else if r.json != r1.json {
                        let at = r.json.bytes().zip(r1.json.bytes()).position(|(x, y)| x != y).unwrap_or(0);
                        let lo = at.saturating_sub(60);
                        o.fail("C15/determinism", "json", format!("{ename} {name}: serialisations differ at byte {at}: …{:?} vs …{:?}", r1.json.get(lo..(at + 60).min(r1.json.len())), r.json.get(lo..(at + 60).min(r.json.len()))));
                    }
                }
            }
        }

        let chunks = &r1.chunks;
        if debug {
            eprintln!("--- {ename} {eff:?}");
            for c in chunks {
                eprintln!("   chunk {} pages={:?} types={:?} ctx={:?} path={:?} id={} text={:?}", c.index, c.pages, c.types, c.heading_context, c.heading_path, c.id, c.text);
            }
        }

        // ── which authored words sit in which chunk ──
        let mut seen: Vec<Vec<usize>> = vec![Vec::new(); lay.toks.len()]; // token → chunks (with multiplicity)
        let mut per_chunk: Vec<Vec<usize>> = Vec::with_capacity(chunks.len());
        let mut unknown_tokens = 0usize;
        for (ci, c) in chunks.iter().enumerate() {
            let mut mine = Vec::new();
            for t in c.text.split_whitespace() {
                if let Some(&ti) = index.get(norm_tok(t)) {
                    seen[ti].push(ci);
                    mine.push(ti);
                } else if !is_structural(t) {
                    unknown_tokens += 1;
                }
            }
            per_chunk.push(mine);
        }
        o.label_if(unknown_tokens > 0, "chunk-has-unauthored-token");

        // ── conservation ──
        let mut reported: BTreeSet<(Kind, &'static str)> = BTreeSet::new();
        let mut multi_reported: BTreeSet<&'static str> = BTreeSet::new();
        // chunks that carry words from a page with two ruled tables: nothing else is evaluable on them
        let tainted: Vec<bool> = per_chunk.iter().map(|p| p.iter().any(|&ti| lay.multi_table_pages.contains(&lay.toks[ti].page))).collect();
        for (ti, t) in lay.toks.iter().enumerate() {
            let what = match seen[ti].len() {
                1 => continue,
                0 => "lost",
                _ => "duplicated",
            };
            if lay.multi_table_pages.contains(&t.page) {
                if multi_reported.insert(what) {
                    o.fail("C15/conservation", "two-ruled-tables-on-one-page", format!("{ename}: authored word {:?} ({} block {}, page {} which carries two ruled tables) occurs {} times in the chunk texts (chunks {:?})", t.word, t.kind.name(), t.block, t.page, seen[ti].len(), seen[ti]));
                }
                continue;
            }
            if reported.insert((t.kind, what)) {
                let split = if (eff.max_tokens as usize) < lay.longest_para && t.kind != Kind::Table && t.kind != Kind::Heading { ",max_tokens<paragraph" } else { "" };
                o.fail(
                    "C15/conservation",
                    format!("{},{what}{split}", t.kind.name()),
                    format!("{ename} max_tokens={}: authored word {:?} (block {}, page {}) occurs in {} chunk texts {:?}", eff.max_tokens, t.word, t.block, t.page, seen[ti].len(), seen[ti]),
                );
            }
        }

        // ── provenance ──
        let mut multi_page_chunks = 0usize;
        for (ci, c) in chunks.iter().enumerate() {
            if per_chunk[ci].is_empty() {
                continue;
            }
            if tainted[ci] {
                o.excluded("C15/provenance");
                continue;
            }
            let want: BTreeSet<u32> = per_chunk[ci].iter().map(|&ti| lay.toks[ti].page).collect();
            let got: BTreeSet<u32> = c.pages.iter().copied().collect();
            let kind = lay.toks[per_chunk[ci][0]].kind.name();
            let multi = if want.len() > 1 { "multi-page-chunk" } else { "single-page-chunk" };
            if want.len() > 1 {
                multi_page_chunks += 1;
            }
            if got != want {
                let class = if got.iter().any(|p| !want.contains(p)) { "extra-page" } else { "missing-page" };
                o.fail("C15/provenance", format!("{class},{multi},first={kind}"), format!("{ename}: chunk {} page_numbers {:?}, its words were written on pages {:?} (0-based); text {:?}", c.index, c.pages, want, c.text));
            } else {
                if c.pages.windows(2).any(|w| w[0] >= w[1]) {
                    o.fail("C15/provenance", "not-sorted-deduplicated", format!("{ename}: chunk {} page_numbers {:?}", c.index, c.pages));
                }
                let span = (*want.iter().next().unwrap(), *want.iter().next_back().unwrap());
                if c.page_span != Some(span) {
                    o.fail("C15/provenance", format!("page_span,{multi}"), format!("{ename}: chunk {} metadata.page_span {:?}, expected {:?}", c.index, c.page_span, span));
                }
            }
        }

        o.label_if(multi_page_chunks > 0, "chunk-spans-pages");
        // ── chunk links / ids unique ──
        {
            let ids: BTreeSet<&str> = chunks.iter().map(|c| c.id.as_str()).collect();
            if ids.len() != chunks.len() {
                o.fail("C15/determinism", "chunk_id-not-unique", format!("{ename}: {} chunks, {} distinct ids", chunks.len(), ids.len()));
            }
        }

        // ── breadcrumb ──
        // precondition: exactly the authored headings came out as titles
        let mut head_chunk: Vec<Option<usize>> = vec![None; lay.heads.len()];
        for (ci, c) in chunks.iter().enumerate() {
            if c.types.len() == 1 && c.types[0] == "title" {
                if let Some(&t0) = per_chunk[ci].first() {
                    if lay.toks[t0].kind == Kind::Heading {
                        let hi = *lay.toks[t0].path.last().unwrap();
                        if per_chunk[ci] == lay.heads[hi].toks {
                            head_chunk[hi] = Some(ci);
                        }
                    }
                }
            }
        }
        let titles_total = chunks.iter().filter(|c| c.types.iter().any(|t| t == "title")).count();
        let recognised = head_chunk.iter().filter(|h| h.is_some()).count();
        let precondition = recognised == lay.heads.len() && titles_total == recognised;
        o.label(if precondition { "precondition-met" } else { "precondition-miss" });

        let mut crumb_reported: BTreeSet<String> = BTreeSet::new();
        let mut exact_checked = 0usize;
        for (ci, c) in chunks.iter().enumerate() {
            let Some(&t0) = per_chunk[ci].first() else { continue };
            if tainted[ci] {
                o.excluded("C15/breadcrumb");
                continue;
            }
            let tok = &lay.toks[t0];
            let want: Vec<String> = tok.path.iter().map(|&h| lay.heads[h].text.clone()).collect();
            let got: Vec<String> = c.heading_path.iter().map(|s| norm_ws(s)).collect();
            // where do the governing headings sit relative to the chunk's first word?
            let relation = match tok.path.last() {
                None => "no-governing-heading",
                Some(&leaf) if lay.heads[leaf].page < tok.page => "governing-heading-on-earlier-page",
                Some(_) if tok.path.iter().any(|&h| lay.heads[h].page < tok.page) => "ancestor-heading-on-earlier-page",
                Some(_) => "headings-on-same-page",
            };
            let earlier = relation == "governing-heading-on-earlier-page" || relation == "ancestor-heading-on-earlier-page";
            let table_after_prose = tok.kind == Kind::Table && lay.toks.iter().any(|t| t.page == tok.page && t.block < tok.block);
            // coarse, root-cause oriented class
            let class: &str = if table_after_prose {
                "table-below-other-content"
            } else if earlier {
                "heading-on-earlier-page"
            } else {
                relation
            };
            // the part of the governing stack that sits on the chunk's own page (what a per-page heading
            // stack can know); used to keep checking behind the known page-reset finding
            let want_same_page: Vec<String> = tok.path.iter().filter(|&&h| lay.heads[h].page == tok.page).map(|&h| lay.heads[h].text.clone()).collect();
            let mut behind_known = false;
            if precondition {
                if got != want {
                    let mut class = class.to_string();
                    if known.page_reset && earlier && !table_after_prose {
                        behind_known = true;
                        if got != want_same_page {
                            class = "heading-on-earlier-page,same-page-part-wrong".to_string();
                        }
                    }
                    if known.table_first && table_after_prose {
                        behind_known = true;
                    }
                    if crumb_reported.insert(class.clone()) {
                        o.fail("C15/breadcrumb", class.clone(), format!("{ename}: chunk {} (pages {:?}, first word {:?} of a {} on page {}) heading_path {:?}, governing headings {:?}", c.index, c.pages, tok.word, tok.kind.name(), tok.page, got, want));
                    }
                } else if eff.propagate {
                    // heading_context is documented as the nearest parent heading
                    let want_ctx = want.last().cloned();
                    let got_ctx = c.heading_context.as_ref().map(|s| norm_ws(s));
                    if got_ctx != want_ctx && crumb_reported.insert(format!("ctx:{class}")) {
                        o.fail("C15/breadcrumb", format!("heading_context,{class}"), format!("{ename}: chunk {} heading_context {:?}, nearest governing heading {:?}", c.index, got_ctx, want_ctx));
                    }
                    exact_checked += 1;
                } else {
                    exact_checked += 1;
                }
            } else {
                // weaker: never names a heading that does not govern the chunk. A heading the classifier
                // missed cannot close its predecessors, so the stack computed over the recognised headings
                // only (what the output itself shows as titles) is accepted as well.
                let want_recognised: Vec<String> = {
                    let mut st: Vec<usize> = Vec::new();
                    for (hi, h) in lay.heads.iter().enumerate() {
                        if h.block > tok.block || (h.block == tok.block && tok.kind != Kind::Heading) {
                            break;
                        }
                        if head_chunk[hi].is_none() {
                            continue;
                        }
                        while st.last().map(|&t| lay.heads[t].level >= h.level).unwrap_or(false) {
                            st.pop();
                        }
                        st.push(hi);
                    }
                    st.iter().map(|&h| lay.heads[h].text.clone()).collect()
                };
                if let Some(bad) = got.iter().find(|g| !want.contains(g) && !want_recognised.contains(g)) {
                    if crumb_reported.insert(format!("weak:{class}")) {
                        o.fail("C15/breadcrumb-names-only-governing-headings", class.to_string(), format!("{ename}: chunk {} (first word {:?}) heading_path {:?} names {:?}; governing headings {:?}", c.index, tok.word, got, bad, want));
                    }
                }
            }
            if behind_known {
                o.excluded("C15/breadcrumb");
            }
            // content/context split
            if !c.full_text.ends_with(c.text.as_str()) {
                o.fail("C15/full-text-carries-text", format!("ctx={}", eff.ctx % 4), format!("{ename}: chunk {} full_text {:?} does not end with text {:?}", c.index, c.full_text, c.text));
            } else if eff.ctx % 4 == 0 && c.full_text != c.text {
                o.fail("C15/full-text-carries-text", "ctx=None-but-prefixed", format!("{ename}: chunk {} full_text {:?} text {:?}", c.index, c.full_text, c.text));
            }
        }
        o.label_if(exact_checked > 0, "breadcrumb-equality-held-on-some-chunk");
        o.label_if(precondition && exact_checked == per_chunk.iter().filter(|p| !p.is_empty()).count(), "breadcrumb-equality-held-on-every-chunk");
    }
    o
}

// ───────────────────────────── generators ─────────────────────────────

fn para() -> impl Strategy<Value = Block> {
    prop::collection::vec(1u8..=9, 1..=4).prop_map(|mut s| {
        // total 3..=25 words
        let mut total: usize = s.iter().map(|&x| x as usize).sum();
        while total > 25 {
            let last = s.len() - 1;
            if s[last] > 1 {
                s[last] -= 1;
            } else {
                s.pop();
            }
            total -= 1;
        }
        if total < 3 {
            s[0] += (3 - total) as u8;
        }
        Block::Para { sentences: s }
    })
}

fn item() -> impl Strategy<Value = Block> {
    prop_oneof![
        6 => para(),
        2 => (any::<bool>(), any::<bool>(), prop::collection::vec(2u8..=7, 1..=4)).prop_map(|(ordered, tight, items)| Block::List { ordered, tight, items }),
        1 => (2u8..=4, 2u8..=3).prop_map(|(rows, cols)| Block::Table { rows, cols }),
        3 => para(),
    ]
}

fn blocks(known: Known) -> impl Strategy<Value = Vec<Block>> {
    // probability (out of 16) of a page break before a heading / between items of a section
    let section = (1u8..=3, 1u8..=4, 0u8..16, prop::collection::vec((item(), 0u8..16), 1..=4)).boxed();
    let preamble = prop_oneof![
        17 => Just(None),
        2 => para().prop_map(Some),
        1 => (2u8..=4, 2u8..=3).prop_map(|(rows, cols)| Some(Block::Table { rows, cols })),
    ];
    let sections = prop_oneof![
        1 => prop::collection::vec(section.clone(), 1..=2),
        5 => prop::collection::vec(section, 3..=6),
    ];
    (preamble, sections, 0u8..8, 0u8..100).prop_map(move |(pre, secs, first_level_bias, mode)| {
        // Behind the known page-reset finding, ~85 % of the documents break pages only in front of a
        // level-1 heading (every page then opens a fresh top-level section, which is outside the affected
        // region, natural overflow aside); the rest keeps breaks inside sections and before sub-headings.
        let clean = known.page_reset && mode >= 15;
        let mut out = Vec::new();
        // blank pages: a leading one in ~6 % of the documents, one between two sections where the break roll is 0
        if mode % 16 == 3 {
            out.push(Block::PageBreak);
        }
        if let Some(p) = pre {
            out.push(p);
        }
        for (si, (level, words, brk_before, items)) in secs.into_iter().enumerate() {
            let brk = si > 0 && brk_before < 6;
            if brk {
                out.push(Block::PageBreak);
                if brk_before == 0 {
                    out.push(Block::PageBreak);
                }
            }
            // most documents open with a level-1 heading
            let level = if (si == 0 && first_level_bias > 1) || (clean && brk) { 1 } else { level };
            out.push(Block::Heading { level, words });
            for (ii, (it, brk)) in items.into_iter().enumerate() {
                if ii > 0 && brk < 4 && !clean {
                    out.push(Block::PageBreak);
                }
                out.push(it);
            }
        }
        out
    })
}

fn cfg() -> impl Strategy<Value = Cfg> {
    let entry = prop_oneof![
        4 => Just(Entry::With),
        2 => (0u8..7).prop_map(Entry::ProfileWith),
        1 => Just(Entry::Default),
        1 => (0u8..7).prop_map(Entry::Profile),
        1 => Just(Entry::Source),
        1 => Just(Entry::Json),
    ];
    let max_tokens = prop_oneof![
        3 => prop::sample::select(vec![5u16, 8, 12, 20]),
        3 => prop::sample::select(vec![40u16, 64, 128]),
        3 => prop::sample::select(vec![256u16, 512]),
        1 => 1u16..600,
    ];
    (entry, max_tokens, prop::sample::select(vec![0u8, 10, 50]), prop::bool::weighted(0.8), prop::bool::weighted(0.8), prop::bool::weighted(0.3), 0u8..4).prop_map(|(entry, max_tokens, overlap, merge_adjacent, propagate, same_type_only, ctx)| Cfg { entry, max_tokens, overlap, merge_adjacent, propagate, same_type_only, ctx })
}

fn strategy(known: Known) -> impl Strategy<Value = Case> {
    let doc = (any::<bool>(), prop::sample::select(vec![10u8, 11]), 2u8..=4, prop::sample::select(vec![10u8, 18, 34]), prop::sample::select(vec![34u8, 40, 48]), prop::bool::weighted(0.25), blocks(known)).prop_map(|(a4, body, lead, head_gap, block_gap, two_tables, blocks)| DocSpec { a4, body, lead, head_gap, block_gap, two_tables, blocks });
    (doc, prop::collection::vec(cfg(), 3..=3)).prop_map(|(doc, cfgs)| Case { doc, cfgs })
}

fn known_of(ctx: &Ctx) -> Known {
    Known {
        page_reset: ctx.known.iter().any(|k| k.status == "known" && k.signature.starts_with("C15/breadcrumb|") && k.signature.contains("on-earlier-page")),
        table_first: ctx.known.iter().any(|k| k.status == "known" && k.signature.starts_with("C15/breadcrumb|") && k.signature.contains("table-below-other-content")),
    }
}

fn run(ctx: &Ctx) {
    let known = known_of(ctx);
    ctx.run_sub("docs", ctx.tier.pick(3_000, 60_000), || strategy(known), move |c| check_with(c, known));
    // floor: breadcrumb equality must actually have been evaluated
    let met = ctx.label_count("precondition-met");
    let miss = ctx.label_count("precondition-miss");
    ctx.extra("breadcrumb_precondition", serde_json::json!({"met": met, "miss": miss}));
    if ctx.violations() == 0 && met + miss > 0 && (met as f64) < 0.6 * (met + miss) as f64 {
        ctx.note(format!("breadcrumb precondition met in only {met} of {} evaluated configurations (< 60 %): generator geometry is outside the partitioner's envelope — harness problem", met + miss));
        let _ = ctx.finish(&def());
        std::process::exit(2);
    }
}

fn replay(ctx: &Ctx, sub: &str, case: &Value) -> Result<Outcome, String> {
    let known = known_of(ctx);
    match sub.trim_start_matches("replay:") {
        "docs" => ctx.replay_case::<Case, _>(case, move |c| check_with(c, known)),
        s => Err(format!("unknown sub-check {s}")),
    }
}
