//! C20 — writing the same document twice gives identical bytes.
use crate::engine::isolate::{Pool, WorkerResult};
use crate::engine::{Ctx, Outcome, PropertyDef};
use crate::props::progdoc::{self, Cfg, Prog};
use oxidize_pdf::annotations::{Annotation, AnnotationType};
use oxidize_pdf::forms::{FormManager, TextField, Widget};
use oxidize_pdf::structure::{Destination, OutlineItem, OutlineTree, PageDestination};
use oxidize_pdf::{Point, Rectangle};
use proptest::prelude::*;
use serde::{Deserialize, Serialize};
use serde_json::Value;
use std::sync::OnceLock;

pub fn def() -> PropertyDef {
    PropertyDef {
        id: "C20",
        level: "exploration",
        rule: "authoring programs enriched with what lives in hash maps (2–4 images and several standard fonts per page, opacity ExtGStates, annotations, outline items, form fields (FormManager fields with linked widgets), ICC colour spaces, tiling patterns, shadings, document info) × every non-encrypted writer configuration; the same Document object is serialised 3×, the same program is rebuilt from scratch and serialised 3× in this process and once in a fresh child process (different RandomState keys) with the clock hook held fixed: all byte-identical. Sub `clock`: the same program serialised at two different fixed clock values (uncompressed classic layout): the files may differ only inside /ModDate and the XMP date values. Non-trivial: at least one page has ≥ 2 entries in a resource category (images or fonts) or the document has ≥ 2 fields/annotations/outline items; distinct by hash of the case.",
        assumptions: &[
            "clock held fixed through hook H2 (verif_clock::set_fixed_clock), creation date set explicitly by the program",
            "the child process is a `vp worker` of the same binary; it rebuilds the document from the serialised program",
        ],
        trusted_base: &["hook H2 only replaces the value assigned in Document::update_modification_date"],
        run,
        replay,
    }
}

#[derive(Clone, Debug, Serialize, Deserialize)]
pub struct Extras {
    pub annotations: Vec<(u8, String)>, // page selector, contents
    pub outline: Vec<(String, u8)>,     // title, page selector
    pub fields: Vec<(String, String)>,  // name, value
    /// page-level resources that live in hash maps and are written as indirect objects:
    /// ICC colour spaces (standard profile index), tiling patterns and shadings on the first page
    #[serde(default)]
    pub icc: Vec<u8>,
    #[serde(default)]
    pub patterns: u8,
    #[serde(default)]
    pub shadings: u8,
}

#[derive(Clone, Debug, Serialize, Deserialize)]
pub struct Case {
    pub prog: Prog,
    pub extras: Extras,
    pub cfg: Cfg,
}

/// The fixed clock is process-global: writers using the default value share a read lock, a writer
/// using another value holds the write lock, so no serialisation ever sees a foreign clock value.
static CLOCK_LOCK: std::sync::RwLock<()> = std::sync::RwLock::new(());

pub fn write(c: &Case, clock: i64) -> Result<Vec<u8>, String> {
    write_n(c, clock, 1).map(|mut v| v.remove(0))
}

fn add_page_resources(page: &mut oxidize_pdf::Page, c: &Case) -> Result<(), String> {
    use oxidize_pdf::graphics::{AxialShading, Color, ColorStop, DeviceColorSpace, IccProfile, PageColorSpace, PaintType, ShadingDefinition, StandardIccProfile, TilingPattern, TilingType};
    let std_profiles = [StandardIccProfile::SRgb, StandardIccProfile::AdobeRgb, StandardIccProfile::ProPhotoRgb, StandardIccProfile::UswcSwopV2, StandardIccProfile::CoatedFogra39, StandardIccProfile::UncoatedFogra29, StandardIccProfile::GrayGamma22];
    for (k, sel) in c.extras.icc.iter().enumerate() {
        if *sel as usize % 8 == 7 {
            page.add_color_space(format!("CS{k}"), PageColorSpace::DeviceAlias(DeviceColorSpace::Rgb)).map_err(|e| format!("add_color_space: {e}"))?;
        } else {
            let prof = IccProfile::from_standard(std_profiles[*sel as usize % 7]);
            page.add_icc_color_space(format!("CS{k}"), &prof).map_err(|e| format!("add_icc_color_space: {e}"))?;
        }
    }
    for k in 0..c.extras.patterns {
        let pat = TilingPattern::new(format!("P{k}"), PaintType::Colored, TilingType::ConstantSpacing, [0.0, 0.0, 10.0 + k as f64, 10.0], 10.0 + k as f64, 10.0).with_content_stream(format!("0 0 {} 5 re f", 3 + k).into_bytes());
        page.add_pattern(format!("P{k}"), pat).map_err(|e| format!("add_pattern: {e}"))?;
    }
    for k in 0..c.extras.shadings {
        let sh = AxialShading::new(format!("Sh{k}"), oxidize_pdf::graphics::Point::new(0.0, 0.0), oxidize_pdf::graphics::Point::new(100.0 + k as f64, 0.0), vec![ColorStop::new(0.0, Color::rgb(1.0, 0.0, 0.0)), ColorStop::new(1.0, Color::rgb(0.0, 0.0, k as f64 / 8.0))]);
        page.add_shading(format!("Sh{k}"), ShadingDefinition::Axial(sh)).map_err(|e| format!("add_shading: {e}"))?;
    }
    Ok(())
}

/// Build the document once and serialise that same `Document` object `times` times.
pub fn write_n(c: &Case, clock: i64, times: usize) -> Result<Vec<Vec<u8>>, String> {
    let (_r, _w);
    if clock == CLOCK {
        _r = Some(CLOCK_LOCK.read().unwrap_or_else(|e| e.into_inner()));
        _w = None;
    } else {
        _w = Some(CLOCK_LOCK.write().unwrap_or_else(|e| e.into_inner()));
        _r = None;
    }
    let mut doc = progdoc::build_document(&c.prog)?;
    oxidize_pdf::verif_clock::set_fixed_clock(Some(clock));
    let n = c.prog.pages.len().max(1);
    if !c.extras.outline.is_empty() {
        let mut t = OutlineTree::new();
        for (title, p) in &c.extras.outline {
            t.add_item(OutlineItem::new(title.clone()).with_destination(Destination::fit(PageDestination::PageNumber((*p as usize % n) as u32))));
        }
        doc.set_outline(t);
    }
    // annotations and fields need page access: rebuild pages with them (Document has no page_mut in the modelled API)
    let page_resources = !c.extras.icc.is_empty() || c.extras.patterns > 0 || c.extras.shadings > 0;
    if !c.extras.annotations.is_empty() || !c.extras.fields.is_empty() || page_resources {
        let mut doc2 = progdoc::build_document(&Prog { pages: vec![], info: c.prog.info.clone() })?;
        let mut fm = FormManager::new();
        for (i, pg) in c.prog.pages.iter().enumerate() {
            let mut page = progdoc::build_page(pg)?;
            for (k, (sel, contents)) in c.extras.annotations.iter().enumerate() {
                if *sel as usize % n == i {
                    let rect = Rectangle::new(Point::new(10.0 + k as f64, 10.0), Point::new(30.0 + k as f64, 30.0));
                    page.add_annotation(Annotation::new(AnnotationType::Text, rect).with_contents(contents.clone()));
                }
            }
            if i == 0 {
                add_page_resources(&mut page, c)?;
                for (k, (name, value)) in c.extras.fields.iter().enumerate() {
                    let rect = Rectangle::new(Point::new(50.0, 50.0 + 20.0 * k as f64), Point::new(200.0, 65.0 + 20.0 * k as f64));
                    let widget = Widget::new(rect);
                    let r = fm.add_text_field(TextField::new(name.clone()).with_value(value.clone()), widget.clone(), None).map_err(|e| format!("add_text_field: {e}"))?;
                    page.add_form_widget_with_ref(widget, r).map_err(|e| format!("widget: {e}"))?;
                }
            }
            doc2.add_page(page);
        }
        if !c.extras.fields.is_empty() {
            doc2.set_form_manager(fm);
        }
        if !c.extras.outline.is_empty() {
            let mut t = OutlineTree::new();
            for (title, p) in &c.extras.outline {
                t.add_item(OutlineItem::new(title.clone()).with_destination(Destination::fit(PageDestination::PageNumber((*p as usize % n) as u32))));
            }
            doc2.set_outline(t);
        }
        doc = doc2;
    }
    let mut out = Vec::new();
    for _ in 0..times {
        oxidize_pdf::verif_clock::set_fixed_clock(Some(clock));
        out.push(doc.to_bytes_with_config(c.cfg.to_lib()).map_err(|e| format!("to_bytes_with_config: {e}"))?);
    }
    Ok(out)
}

const CLOCK: i64 = 1_704_164_645;

/// worker side: payload = JSON case; reply = bytes (or "ERR …")
pub fn worker(payload: &[u8]) -> Vec<u8> {
    match serde_json::from_slice::<Case>(payload) {
        Err(e) => format!("ERR decode {e}").into_bytes(),
        Ok(c) => match write(&c, CLOCK) {
            Ok(b) => b,
            Err(e) => format!("ERR {e}").into_bytes(),
        },
    }
}

fn pool() -> &'static Pool {
    static P: OnceLock<Pool> = OnceLock::new();
    P.get_or_init(|| Pool::new(4, 8 << 30))
}

fn first_diff(a: &[u8], b: &[u8]) -> String {
    let i = a.iter().zip(b).position(|(x, y)| x != y).unwrap_or(a.len().min(b.len()));
    let lo = i.saturating_sub(60);
    let show = |v: &[u8]| String::from_utf8_lossy(&v[lo..(i + 60).min(v.len())]).into_owned();
    format!("lengths {} / {}, first difference at byte {i}: …{:?}… vs …{:?}…", a.len(), b.len(), show(a), show(b))
}

fn region(a: &[u8], i: usize) -> &'static str {
    // which structure does byte i of the file lie in (coarse, for the signature class)
    let before = &a[..i.min(a.len())];
    let last = |pat: &[u8]| before.windows(pat.len()).rposition(|w| w == pat);
    let xref = last(b"/Type /XRef").or_else(|| last(b"/Type/XRef"));
    let trailer = last(b"trailer");
    let res = last(b"/Resources");
    let objstm = last(b"/Type /ObjStm");
    let tail = [("xref-stream-dictionary", xref), ("trailer", trailer), ("resources", res), ("object-stream", objstm)];
    let best = tail.iter().filter_map(|(n, p)| p.map(|p| (p, *n))).max();
    match best {
        Some((p, n)) if i - p < 600 => n,
        _ => "elsewhere",
    }
}

pub fn check(c: &Case) -> Outcome {
    let mut o = Outcome::new();
    let layout = c.cfg.name();
    o.label(format!("layout={layout}"));
    let multi = c.prog.pages.iter().any(|p| p.images.len() >= 2 || p.calls.iter().filter(|x| matches!(x, progdoc::Call::Text { .. })).count() >= 2) || c.extras.fields.len() + c.extras.annotations.len() + c.extras.outline.len() >= 2 || c.extras.icc.len() >= 2 || c.extras.patterns >= 2 || c.extras.shadings >= 2;
    o.nontrivial(multi);
    o.label_if(!c.extras.fields.is_empty(), "form-fields");
    o.label_if(!c.extras.annotations.is_empty(), "annotations");
    o.label_if(!c.extras.outline.is_empty(), "outline");
    o.label_if(c.extras.icc.len() >= 2, "icc>=2");
    o.label_if(c.extras.patterns >= 2, "patterns>=2");
    o.label_if(c.extras.shadings >= 2, "shadings>=2");
    let first = match write(c, CLOCK) {
        Ok(b) => b,
        Err(_) => {
            o.label("authoring-refused");
            return o;
        }
    };
    let lay0 = layout.split('+').next().unwrap().to_string();
    // the same Document object serialised again and again (state left behind by a write must not leak into the next)
    match write_n(c, CLOCK, 3) {
        Ok(v) => {
            for (k, b) in v.iter().enumerate() {
                if *b != first {
                    let i = first.iter().zip(b).position(|(x, y)| x != y).unwrap_or(0);
                    o.fail("C20/same-object-identical", format!("layout={lay0},where={}", region(&first, i)), format!("serialisation {} of the same Document differs from a fresh build: {}", k + 1, first_diff(&first, b)));
                    return o;
                }
            }
        }
        Err(e) => {
            o.fail("C20/same-object-identical", format!("layout={lay0},error"), e);
            return o;
        }
    }
    for k in 0..2 {
        match write(c, CLOCK) {
            Ok(b) if b == first => {}
            Ok(b) => {
                let i = first.iter().zip(&b).position(|(x, y)| x != y).unwrap_or(0);
                o.fail("C20/same-process-identical", format!("layout={lay0},where={}", region(&first, i)), format!("serialisation {} differs: {}", k + 2, first_diff(&first, &b)));
                return o;
            }
            Err(e) => {
                o.fail("C20/same-process-identical", format!("layout={lay0},error"), e);
                return o;
            }
        }
    }
    // fresh process
    let payload = serde_json::to_vec(c).unwrap();
    match pool().run("c20", &payload, std::time::Duration::from_secs(120)) {
        WorkerResult::Done(b) => {
            if b.starts_with(b"ERR ") {
                o.fail("HARNESS/c20-worker", "error", String::from_utf8_lossy(&b).into_owned());
            } else if b != first {
                let i = first.iter().zip(&b).position(|(x, y)| x != y).unwrap_or(0);
                o.fail("C20/across-processes-identical", format!("layout={lay0},where={}", region(&first, i)), first_diff(&first, &b));
            }
        }
        other => o.fail("HARNESS/c20-worker", "died", format!("{other:?}")),
    }
    o
}

fn mask_dates(b: &[u8]) -> Vec<u8> {
    // mask the digits of PDF dates (D:YYYYMMDDHHMMSS…) and ISO 8601 dates (YYYY-MM-DDTHH:MM:SS)
    let mut v = b.to_vec();
    let mut i = 0;
    while i + 16 <= v.len() {
        if &v[i..i + 2] == b"D:" && v[i + 2..i + 16].iter().all(|c| c.is_ascii_digit()) {
            for x in &mut v[i + 2..i + 16] {
                *x = b'#';
            }
            i += 16;
            continue;
        }
        if i + 19 <= v.len() && v[i..i + 4].iter().all(|c| c.is_ascii_digit()) && v[i + 4] == b'-' && v[i + 7] == b'-' && v[i + 10] == b'T' && v[i + 13] == b':' && v[i + 16] == b':' {
            for k in [0, 1, 2, 3, 5, 6, 8, 9, 11, 12, 14, 15, 17, 18] {
                v[i + k] = b'#';
            }
            i += 19;
            continue;
        }
        i += 1;
    }
    v
}

/// Different clock values: only documented time fields may differ.
pub fn check_clock(c: &Case) -> Outcome {
    let mut o = Outcome::new();
    o.nontrivial(true);
    let mut c = c.clone();
    c.cfg = Cfg { xref_streams: false, object_streams: false, compress: false, version: 2 };
    let (a, b) = match (write(&c, CLOCK), write(&c, CLOCK + 86_400 * 37 + 3_723)) {
        (Ok(a), Ok(b)) => (a, b),
        _ => {
            o.label("authoring-refused");
            return o;
        }
    };
    if a == b {
        o.label("clock-not-visible");
    }
    let (ma, mb) = (mask_dates(&a), mask_dates(&b));
    if ma != mb {
        o.fail("C20/only-time-fields-differ", "classic,uncompressed", first_diff(&ma, &mb));
    }
    // the creation date set by the program must be untouched by the clock
    let cd = b"/CreationDate (D:20240102030405";
    if !b.windows(cd.len()).any(|w| w == cd) {
        o.fail("C20/explicit-creation-date-kept", "classic,uncompressed", "the /CreationDate set through the API is not in the file".to_string());
    }
    o
}

fn extras() -> impl Strategy<Value = Extras> {
    (
        prop::collection::vec((any::<u8>(), "[A-Za-z0-9 ]{0,12}"), 0..4),
        prop::collection::vec(("[A-Za-z0-9 ]{1,12}", any::<u8>()), 0..4),
        prop::collection::vec(("[a-z]{1,6}[0-9]", "[A-Za-z0-9 ]{0,10}"), 0..4),
        prop_oneof![2 => Just(vec![]), 1 => prop::collection::vec(any::<u8>(), 1..7)],
        prop_oneof![3 => Just(0u8), 1 => 1u8..5],
        prop_oneof![3 => Just(0u8), 1 => 1u8..5],
    )
        .prop_map(|(annotations, outline, mut fields, icc, patterns, shadings)| {
            let mut seen = std::collections::BTreeSet::new();
            fields.retain(|f| seen.insert(f.0.clone()));
            Extras { annotations, outline, fields, icc, patterns, shadings }
        })
}

fn strategy() -> impl Strategy<Value = Case> {
    (progdoc::prog(), extras(), progdoc::cfg_light()).prop_map(|(prog, extras, cfg)| Case { prog, extras, cfg })
}

fn run(ctx: &Ctx) {
    ctx.set_shrink_budget(300);
    ctx.run_sub("identical", ctx.tier.pick(2_000, 20_000), strategy, check);
    ctx.run_sub("clock", ctx.tier.pick(300, 5_000), strategy, check_clock);
}

fn replay(ctx: &Ctx, sub: &str, case: &Value) -> Result<Outcome, String> {
    match sub.trim_start_matches("replay:") {
        "identical" => ctx.replay_case::<Case, _>(case, check),
        "clock" => ctx.replay_case::<Case, _>(case, check_clock),
        s => Err(format!("unknown sub-check {s}")),
    }
}
