//! C07 — every supported stream filter decodes exactly what a reference encoder encoded.
//!
//! Case = (byte string, chain of 1–3 filter stages with encoder options, DecodeParms form).
//! `build` encodes the bytes with the reference encoders of `refcodec` in reverse chain order,
//! gating every stage by an independent decoder; `check` hands `PdfStream{dict,data}` to the
//! library and demands the original bytes.
use crate::engine::{self, Ctx, Outcome, PropertyDef};
use crate::refcodec::{self as rc, A85Opts, AhxOpts, LzwOpts, Noise, PredParams, RlOpts};
use crate::refpdf::filters as rf;
use oxidize_pdf::parser::objects::{PdfArray, PdfDictionary, PdfName, PdfObject, PdfStream};
use oxidize_pdf::parser::ParseOptions;
use proptest::prelude::*;
use serde::{Deserialize, Serialize};
use serde_json::Value;

pub fn def() -> PropertyDef {
    PropertyDef {
        id: "C07",
        level: "exploration",
        rule: "case = (byte string x: raw ≤ 300 B, seeded random/sparse/periodic/ramp/zero/text patterns ≤ 64 KiB, or 'pair-unique' strings whose length puts the LZW table at 510–514, 1022–1026, 2046–2050, 4093–4097 entries or across a table-full reset; chain of 1–3 stages over {Flate(level 0/1/6/9, sync flushes), LZW(EarlyChange 0/1; weezl or hand encoder with Clear at 4094/4095/4096, periodic Clears, Clear before EOD), ASCIIHex(case, whitespace, NUL whitespace, EOD present/absent, odd digit count, trailer), ASCII85(z, <~, ~> present/absent, whitespace), RunLength(greedy/literal/seeded segmentation, EOD present/absent)} or CCITT G4 alone; Predictor ∈ {absent,1,2,10–15} × Colors 1–4 × BPC {1,2,4,8,16} × Columns 1–64 with per-row PNG filter choice; DecodeParms as dictionary / array / array with null holes, defaults written or omitted). Every stage's encoding is first inverted by an independent decoder (refpdf hand decoders, flate2, fax); a case whose encoding the gate rejects is labelled gate-rejected and not evaluated. Non-trivial: |x| ≥ 2 and (chain ≥ 2 or Predictor ∉ {absent,1} or LZW table ≥ 512 entries); distinct by hash of the case.",
        assumptions: &[
            "reference encoders are correct when an independent decoder inverts them (gate) and the start-up calibration (hand LZW ↔ weezl both variants at every width boundary, PNG row filters ↔ png crate, CCITT ↔ fax decoder) passes",
            "LZW EOD width: the encoder advances its table once after the last data code, as the decoder does (libtiff/weezl behaviour); Clear is always the first code and is emitted when the table is full (ISO 32000-1 §7.4.4.2)",
            "TIFF predictor 2 with sub-byte samples: padding bits at the end of a row are not compared; CCITT: padding bits not compared",
            "predictors on non-final stages use parameters whose row size divides that stage's output (no padding), so the encoder never has to invent a partial row",
            "`<~` before ASCII85 data and a missing EOD marker are generated in labelled classes (`a85-prefix`, `eod=absent`): the library's decoder documents both as accepted",
        ],
        trusted_base: &["refcodec encoders", "refpdf::filters hand decoders (gate)", "flate2, weezl, fax, png crates (calibration/gate)"],
        run,
        replay,
    }
}

// ───────────────────────── case model ─────────────────────────

#[derive(Clone, Debug, Serialize, Deserialize, PartialEq)]
pub enum DataSpec {
    Raw(Vec<u8>),
    Random { len: u32, seed: u64 },
    Sparse { len: u32, seed: u64 },
    Repeat { len: u32, period: u16, seed: u64 },
    Ramp { len: u32, step: u8 },
    Zeros { len: u32 },
    PairUnique { len: u32, seed: u64 },
    Text { len: u32, seed: u64 },
}

impl DataSpec {
    pub fn kind(&self) -> &'static str {
        match self {
            DataSpec::Raw(_) => "raw",
            DataSpec::Random { .. } => "random",
            DataSpec::Sparse { .. } => "sparse",
            DataSpec::Repeat { .. } => "repeat",
            DataSpec::Ramp { .. } => "ramp",
            DataSpec::Zeros { .. } => "zeros",
            DataSpec::PairUnique { .. } => "pair-unique",
            DataSpec::Text { .. } => "text",
        }
    }
    pub fn expand(&self) -> Vec<u8> {
        const MAX: u32 = 70_000;
        match self {
            DataSpec::Raw(v) => v.clone(),
            DataSpec::Random { len, seed } => {
                let mut r = rc::Rng::new(*seed);
                (0..(*len).min(MAX)).map(|_| r.next() as u8).collect()
            }
            DataSpec::Sparse { len, seed } => {
                let mut r = rc::Rng::new(*seed);
                let k = 2 + (seed % 5) as u64;
                (0..(*len).min(MAX)).map(|_| if r.below(16) == 0 { r.next() as u8 } else { (r.next() % k) as u8 }).collect()
            }
            DataSpec::Repeat { len, period, seed } => {
                let mut r = rc::Rng::new(*seed);
                let p: Vec<u8> = (0..(*period).max(1)).map(|_| r.next() as u8).collect();
                (0..(*len).min(MAX) as usize).map(|i| p[i % p.len()]).collect()
            }
            DataSpec::Ramp { len, step } => (0..(*len).min(MAX)).map(|i| (i as u8).wrapping_mul(*step)).collect(),
            DataSpec::Zeros { len } => vec![0u8; (*len).min(MAX) as usize],
            DataSpec::PairUnique { len, seed } => rc::pair_unique((*len).min(20_000) as usize, *seed),
            DataSpec::Text { len, seed } => {
                let mut r = rc::Rng::new(*seed);
                const WORDS: [&str; 12] = ["The ", "stream ", "BT ", "/F1 12 Tf ", "Tj ", "(Hello) ", "0 0 m ", "100 200 l ", "S\n", "q ", "Q\n", "T* "];
                let mut v = Vec::new();
                while v.len() < (*len).min(MAX) as usize {
                    v.extend_from_slice(WORDS[r.below(WORDS.len())].as_bytes());
                }
                v.truncate((*len).min(MAX) as usize);
                v
            }
        }
    }
}

#[derive(Clone, Debug, Serialize, Deserialize, PartialEq)]
pub struct Pred {
    /// 1, 2, 10–15
    pub predictor: u8,
    pub colors: u8,
    pub bpc: u8,
    pub columns: u8,
    /// PNG: choose the row filter per row from `seed` (otherwise predictor−10 for 10–14)
    pub per_row: bool,
    /// bit 0 of the seed also decides whether default-valued parameters are written
    pub seed: u64,
}

#[derive(Clone, Debug, Serialize, Deserialize, PartialEq)]
pub enum Stage {
    Flate { level: u8, flush_every: u16, pred: Option<Pred> },
    Lzw { early: bool, explicit: bool, hand: bool, clear_at: u16, clear_every: u16, clear_before_eod: bool, pred: Option<Pred> },
    AHx { case_mode: u8, ws: u8, nul: bool, seed: u64, eod: bool, odd: bool, trailer: bool },
    A85 { use_z: bool, prefix: bool, eod: bool, ws: u8, nul: bool, seed: u64 },
    RL { mode: u8, max_lit: u8, max_rep: u8, seed: u64, eod: bool },
    Ccitt { columns: u16, black_is_1: bool, write_rows: bool },
}

impl Stage {
    pub fn filter_name(&self) -> &'static str {
        match self {
            Stage::Flate { .. } => "FlateDecode",
            Stage::Lzw { .. } => "LZWDecode",
            Stage::AHx { .. } => "ASCIIHexDecode",
            Stage::A85 { .. } => "ASCII85Decode",
            Stage::RL { .. } => "RunLengthDecode",
            Stage::Ccitt { .. } => "CCITTFaxDecode",
        }
    }
    pub fn short(&self) -> &'static str {
        match self {
            Stage::Flate { .. } => "Flate",
            Stage::Lzw { .. } => "LZW",
            Stage::AHx { .. } => "AHx",
            Stage::A85 { .. } => "A85",
            Stage::RL { .. } => "RL",
            Stage::Ccitt { .. } => "CCITT",
        }
    }
    fn pred(&self) -> Option<&Pred> {
        match self {
            Stage::Flate { pred, .. } | Stage::Lzw { pred, .. } => pred.as_ref(),
            _ => None,
        }
    }
}

#[derive(Clone, Debug, Serialize, Deserialize, PartialEq)]
pub struct Case {
    pub data: DataSpec,
    /// in decode order (= order of the /Filter array)
    pub stages: Vec<Stage>,
    /// 0: name + dict (single) / array + array-with-nulls (chain); 1: arrays everywhere, nulls written even if no stage has parameters; 2: one-element array + dict
    pub parms_form: u8,
}

// ───────────────────────── building the stream ─────────────────────────

pub struct StageBuilt {
    /// bytes this stage has to decode
    pub input: Vec<u8>,
    /// what decoding must give
    pub output: Vec<u8>,
    /// output of the bare filter before the predictor is undone (== output when there is no predictor)
    pub pre: Vec<u8>,
    pub parms: Option<PdfDictionary>,
    pub eff_pred: Option<PredParams>,
    /// (row_bytes, pad_bits) when padding bits of each output row are not to be compared
    pub mask: Option<(usize, usize)>,
    pub lzw: Option<rc::LzwStats>,
}

pub struct Built {
    pub x: Vec<u8>,
    pub encoded: Vec<u8>,
    pub dict: PdfDictionary,
    /// decode order
    pub stages: Vec<StageBuilt>,
    pub labels: Vec<String>,
    pub mask: Option<(usize, usize)>,
}

fn int(v: i64) -> PdfObject {
    PdfObject::Integer(v)
}

fn largest_divisor_le(n: usize, max: usize) -> usize {
    (1..=max.min(n.max(1))).rev().find(|d| n % d == 0).unwrap_or(1)
}

fn eff_pred(p: &Pred, len: usize, is_final: bool) -> PredParams {
    let given = PredParams { predictor: p.predictor, colors: p.colors.clamp(1, 4), bpc: p.bpc, columns: p.columns.max(1) as u16 };
    if is_final || p.predictor == 1 {
        return given;
    }
    if given.row_bits() % 8 == 0 && len % given.row_bytes() == 0 {
        return given;
    }
    PredParams { predictor: p.predictor, colors: 1, bpc: 8, columns: largest_divisor_le(len, 64) as u16 }
}

fn pred_parms(d: &mut PdfDictionary, p: &PredParams, write_defaults: bool) {
    d.insert("Predictor".into(), int(p.predictor as i64));
    if p.predictor == 1 && !write_defaults {
        return;
    }
    if p.colors != 1 || write_defaults {
        d.insert("Colors".into(), int(p.colors as i64));
    }
    if p.bpc != 8 || write_defaults {
        d.insert("BitsPerComponent".into(), int(p.bpc as i64));
    }
    if p.columns != 1 || write_defaults {
        d.insert("Columns".into(), int(p.columns as i64));
    }
}

fn apply_pred(cur: &[u8], p: &Pred, e: &PredParams) -> Vec<u8> {
    match e.predictor {
        1 => cur.to_vec(),
        2 => rc::tiff_predict(cur, e),
        n => {
            let mut r = rc::Rng::new(p.seed);
            let per_row = p.per_row || n == 15;
            rc::png_predict(cur, e, &mut |_| if per_row { r.below(5) as u8 } else { n - 10 })
        }
    }
}

fn ref_parms(e: &PredParams, early: bool) -> rf::Parms {
    rf::Parms { predictor: e.predictor as i64, colors: e.colors as i64, bpc: e.bpc as i64, columns: e.columns as i64, early_change: early as i64 }
}

pub fn eq_masked(a: &[u8], b: &[u8], mask: Option<(usize, usize)>) -> bool {
    match mask {
        None => a == b,
        Some((row, pad)) => {
            if a.len() != b.len() {
                return false;
            }
            let (mut a, mut b) = (a.to_vec(), b.to_vec());
            rc::mask_row_padding(&mut a, row, pad);
            rc::mask_row_padding(&mut b, row, pad);
            a == b
        }
    }
}

/// Encode one stage: `out` is what the stage must decode to. Err = the independent gate rejected.
pub fn encode_stage(st: &Stage, out: &[u8], is_final: bool) -> Result<StageBuilt, String> {
    let mut sb = StageBuilt { input: Vec::new(), output: out.to_vec(), pre: out.to_vec(), parms: None, eff_pred: None, mask: None, lzw: None };
    match st {
        Stage::Flate { level, flush_every, pred } => {
            if let Some(p) = pred {
                let e = eff_pred(p, out.len(), is_final);
                if e.predictor != 1 && out.len() % e.row_bytes() != 0 {
                    return Err("row-size".into());
                }
                sb.pre = apply_pred(out, p, &e);
                let mut d = PdfDictionary::new();
                pred_parms(&mut d, &e, p.seed & 1 == 1);
                sb.parms = Some(d);
                sb.eff_pred = Some(e);
                if e.predictor == 2 && e.pad_bits() > 0 {
                    sb.mask = Some((e.row_bytes(), e.pad_bits()));
                }
            }
            sb.input = rc::zlib(&sb.pre, *level, *flush_every as usize);
            let back = rf::flate(&sb.input).map_err(|_| "flate")?;
            if back != sb.pre {
                return Err("flate".into());
            }
        }
        Stage::Lzw { early, explicit, hand, clear_at, clear_every, clear_before_eod, pred } => {
            let mut d = PdfDictionary::new();
            if let Some(p) = pred {
                let e = eff_pred(p, out.len(), is_final);
                if e.predictor != 1 && out.len() % e.row_bytes() != 0 {
                    return Err("row-size".into());
                }
                sb.pre = apply_pred(out, p, &e);
                pred_parms(&mut d, &e, p.seed & 1 == 1);
                sb.eff_pred = Some(e);
                if e.predictor == 2 && e.pad_bits() > 0 {
                    sb.mask = Some((e.row_bytes(), e.pad_bits()));
                }
            }
            if !*early {
                d.insert("EarlyChange".into(), int(0));
            } else if *explicit {
                d.insert("EarlyChange".into(), int(1));
            }
            if !d.0.is_empty() {
                sb.parms = Some(d);
            }
            sb.input = if *hand {
                rc::lzw_hand(&sb.pre, &LzwOpts { early: *early, clear_at: *clear_at, clear_every: *clear_every as u32, clear_before_eod: *clear_before_eod })
            } else {
                rc::lzw_weezl(&sb.pre, *early).map_err(|_| "weezl-encode")?
            };
            let back = rf::lzw(&sb.input, *early).map_err(|_| "lzw")?;
            if back != sb.pre {
                return Err("lzw".into());
            }
            sb.lzw = Some(rc::lzw_scan(&sb.input, *early));
        }
        Stage::AHx { case_mode, ws, nul, seed, eod, odd, trailer } => {
            sb.input = rc::ascii_hex(out, &AhxOpts { case_mode: *case_mode, noise: Noise { density: *ws, nul: *nul, seed: *seed }, eod: *eod, odd: *odd, trailer: *trailer });
            if rf::ascii_hex(&sb.input).map_err(|_| "ahx")? != out {
                return Err("ahx".into());
            }
        }
        Stage::A85 { use_z, prefix, eod, ws, nul, seed } => {
            sb.input = rc::ascii85(out, &A85Opts { use_z: *use_z, prefix: *prefix, eod: *eod, noise: Noise { density: *ws, nul: *nul, seed: *seed } });
            if rf::ascii85(&sb.input).map_err(|_| "a85")? != out {
                return Err("a85".into());
            }
        }
        Stage::RL { mode, max_lit, max_rep, seed, eod } => {
            sb.input = rc::run_length(out, &RlOpts { mode: *mode, max_lit: *max_lit, max_rep: *max_rep, seed: *seed, eod: *eod });
            if rf::run_length(&sb.input).map_err(|_| "rl")? != out {
                return Err("rl".into());
            }
        }
        Stage::Ccitt { columns, black_is_1, write_rows } => {
            let row = (*columns as usize).div_ceil(8);
            if row == 0 || out.len() % row != 0 || out.len() / row > 60_000 {
                return Err("ccitt-shape".into());
            }
            let rows = (out.len() / row) as u16;
            let pad = row * 8 - *columns as usize;
            sb.input = rc::ccitt_g4(out, *columns, *black_is_1);
            let back = rc::ccitt_g4_decode(&sb.input, *columns, rows, *black_is_1).ok_or("ccitt")?;
            if !eq_masked(&back, out, Some((row, pad))) {
                return Err("ccitt".into());
            }
            let mut d = PdfDictionary::new();
            d.insert("K".into(), int(-1));
            d.insert("Columns".into(), int(*columns as i64));
            if *write_rows {
                d.insert("Rows".into(), int(rows as i64));
            }
            if *black_is_1 {
                d.insert("BlackIs1".into(), PdfObject::Boolean(true));
            }
            sb.parms = Some(d);
            sb.mask = Some((row, pad));
        }
    }
    // predictor gate (independent decoder undoes the predictor)
    if let Some(e) = &sb.eff_pred {
        let early = matches!(st, Stage::Lzw { early: true, .. });
        let back = rf::unpredict(&sb.pre, &ref_parms(e, early)).map_err(|_| "unpredict")?;
        if !eq_masked(&back, out, sb.mask) {
            return Err("unpredict".into());
        }
    }
    Ok(sb)
}

pub fn build(c: &Case) -> Result<Built, String> {
    if c.stages.is_empty() || c.stages.len() > 3 {
        return Err("chain-length".into());
    }
    let mut x = c.data.expand();
    // shape x for the final stage
    match c.stages.last().unwrap() {
        Stage::Ccitt { columns, .. } => {
            let row = (*columns as usize).div_ceil(8).max(1);
            let rows = (x.len() / row).min(120);
            x.truncate(rows * row);
            rc::mask_row_padding(&mut x, row, row * 8 - *columns as usize);
        }
        st => {
            if let Some(p) = st.pred() {
                if p.predictor != 1 {
                    let e = eff_pred(p, x.len(), true);
                    let row = e.row_bytes().max(1);
                    x.truncate(x.len() / row * row);
                    if e.predictor == 2 {
                        rc::mask_row_padding(&mut x, row, e.pad_bits());
                    }
                }
            }
        }
    }
    if c.stages.iter().rev().skip(1).any(|s| matches!(s, Stage::Ccitt { .. })) {
        return Err("ccitt-not-final".into());
    }
    let n = c.stages.len();
    let mut built: Vec<StageBuilt> = Vec::with_capacity(n);
    let mut cur = x.clone();
    for (i, st) in c.stages.iter().enumerate().rev() {
        let sb = encode_stage(st, &cur, i == n - 1)?;
        cur = sb.input.clone();
        built.push(sb);
    }
    built.reverse();
    let mut labels = Vec::new();
    // dictionary
    let mut dict = PdfDictionary::new();
    let any_parms = built.iter().any(|b| b.parms.is_some());
    let name = |s: &Stage| PdfObject::Name(PdfName(s.filter_name().to_string()));
    if n == 1 && c.parms_form == 0 {
        dict.insert("Filter".into(), name(&c.stages[0]));
        if let Some(p) = &built[0].parms {
            dict.insert("DecodeParms".into(), PdfObject::Dictionary(p.clone()));
            labels.push("parms=dict".into());
        } else {
            labels.push("parms=none".into());
        }
    } else if n == 1 && c.parms_form == 2 {
        dict.insert("Filter".into(), PdfObject::Array(PdfArray(vec![name(&c.stages[0])])));
        if let Some(p) = &built[0].parms {
            dict.insert("DecodeParms".into(), PdfObject::Dictionary(p.clone()));
            labels.push("parms=dict(filter-array)".into());
        } else {
            labels.push("parms=none".into());
        }
    } else {
        dict.insert("Filter".into(), PdfObject::Array(PdfArray(c.stages.iter().map(name).collect())));
        if any_parms || c.parms_form == 1 {
            let arr: Vec<PdfObject> = built.iter().map(|b| b.parms.clone().map(PdfObject::Dictionary).unwrap_or(PdfObject::Null)).collect();
            labels.push(if built.iter().any(|b| b.parms.is_none()) { "parms=array+null".into() } else { "parms=array".into() });
            dict.insert("DecodeParms".into(), PdfObject::Array(PdfArray(arr)));
        } else {
            labels.push("parms=none".into());
        }
    }
    dict.insert("Length".into(), int(cur.len() as i64));
    // labels
    labels.push(format!("chain={n}"));
    labels.push(format!("data={}", c.data.kind()));
    labels.push(
        match x.len() {
            0 => "size=0",
            1 => "size=1",
            2..=63 => "size<64",
            64..=1023 => "size<1k",
            1024..=8191 => "size<8k",
            _ => "size>=8k",
        }
        .into(),
    );
    for (st, sb) in c.stages.iter().zip(&built) {
        labels.push(format!("filter={}", st.short()));
        if let Some(e) = &sb.eff_pred {
            labels.push(format!("Predictor={}", e.predictor));
            if e.predictor != 1 {
                labels.push(format!("BPC={}", e.bpc));
                labels.push(format!("Colors={}", e.colors));
                labels.push(if e.columns == 1 { "Columns=1".into() } else if e.columns == 64 { "Columns=64".into() } else { "Columns=2..63".to_string() });
                if e.pad_bits() > 0 {
                    labels.push("row-padding-bits".into());
                }
            }
        } else if matches!(st, Stage::Flate { .. } | Stage::Lzw { .. }) {
            labels.push("Predictor=absent".into());
        }
        match st {
            Stage::Flate { level, flush_every, .. } => {
                labels.push(format!("flate-level={level}"));
                if *flush_every > 0 {
                    labels.push("flate-sync-flush".into());
                }
            }
            Stage::Lzw { early, explicit, hand, clear_before_eod, clear_every, .. } => {
                labels.push(format!("EarlyChange={}{}", *early as u8, if *early && !*explicit { "(default)" } else { "" }));
                labels.push(if *hand { "lzw-enc=hand".into() } else { "lzw-enc=weezl".into() });
                if *hand && *clear_before_eod {
                    labels.push("lzw-clear-before-eod".into());
                }
                if *hand && *clear_every > 0 {
                    labels.push("lzw-periodic-clear".into());
                }
                if let Some(s) = &sb.lzw {
                    for t in [511u32, 512, 1023, 1024, 2047, 2048, 4095, 4096] {
                        for d in [-1i32, 0, 1] {
                            if s.final_table as i32 == t as i32 + d {
                                labels.push(format!("lzw-final-table={}", s.final_table));
                            }
                        }
                    }
                    labels.push(format!("lzw-max-width={}", s.max_width));
                    labels.push(match s.resets {
                        0 => "lzw-resets=0".into(),
                        1 => "lzw-resets=1".into(),
                        _ => "lzw-resets>=2".to_string(),
                    });
                    if s.max_table >= 4096 {
                        labels.push("lzw-table-full(4096)".into());
                    }
                }
            }
            Stage::AHx { ws, nul, eod, odd, case_mode, trailer, .. } => {
                if *ws > 0 {
                    labels.push(if *nul { "ahx-ws+NUL".into() } else { "ahx-ws".into() });
                }
                labels.push(if *eod { "ahx-eod".into() } else { "ahx-eod=absent".into() });
                if *odd && *eod && sb.output.last().map(|b| b & 15 == 0).unwrap_or(false) {
                    labels.push("ahx-odd-digits".into());
                }
                labels.push(format!("ahx-case={case_mode}"));
                if *trailer && *eod {
                    labels.push("ahx-trailer".into());
                }
            }
            Stage::A85 { use_z, prefix, eod, ws, nul, .. } => {
                if *ws > 0 {
                    labels.push(if *nul { "a85-ws+NUL".into() } else { "a85-ws".into() });
                }
                labels.push(if *eod { "a85-eod".into() } else { "a85-eod=absent".into() });
                if *prefix {
                    labels.push("a85-prefix".into());
                }
                if *use_z && sb.input.contains(&b'z') {
                    labels.push("a85-z".into());
                }
                if sb.output.len() % 4 != 0 {
                    labels.push(format!("a85-partial-group={}", sb.output.len() % 4));
                }
                if !*prefix && a85_first_char(&sb.input) == Some(b'<') {
                    labels.push("a85-first-char=<".into());
                }
            }
            Stage::RL { mode, eod, .. } => {
                labels.push(format!("rl-mode={mode}"));
                labels.push(if *eod { "rl-eod".into() } else { "rl-eod=absent".into() });
            }
            Stage::Ccitt { black_is_1, .. } => labels.push(format!("ccitt-BlackIs1={black_is_1}")),
        }
    }
    let mask = built.last().and_then(|b| b.mask);
    Ok(Built { x, encoded: cur, dict, stages: built, labels, mask })
}

fn a85_first_char(data: &[u8]) -> Option<u8> {
    data.iter().copied().find(|&b| !crate::refpdf::is_ws(b))
}

// ───────────────────────── oracle ─────────────────────────

pub type LibResult = Result<Result<Vec<u8>, String>, (String, String)>;

pub fn lib_decode(dict: &PdfDictionary, data: &[u8]) -> LibResult {
    let stream = PdfStream { dict: dict.clone(), data: data.to_vec() };
    let opts = ParseOptions::default();
    engine::catch(|| stream.decode(&opts).map_err(|e| format!("{e}")))
}

pub fn single_dict(st: &Stage, parms: &Option<PdfDictionary>) -> PdfDictionary {
    let mut d = PdfDictionary::new();
    d.insert("Filter".into(), PdfObject::Name(PdfName(st.filter_name().to_string())));
    if let Some(p) = parms {
        d.insert("DecodeParms".into(), PdfObject::Dictionary(p.clone()));
    }
    d
}

fn show(v: &[u8]) -> String {
    let head: Vec<String> = v.iter().take(24).map(|b| format!("{b:02x}")).collect();
    format!("[{} bytes: {}{}]", v.len(), head.join(" "), if v.len() > 24 { " …" } else { "" })
}

fn describe(r: &LibResult) -> String {
    match r {
        Ok(Ok(v)) => show(v),
        Ok(Err(e)) => format!("Err({e})"),
        Err((m, l)) => format!("panic: {m} at {l}"),
    }
}

fn first_diff(a: &[u8], b: &[u8]) -> String {
    match a.iter().zip(b).position(|(x, y)| x != y) {
        Some(i) => format!("first difference at byte {i}"),
        None => format!("common prefix of {} bytes, lengths {} vs {}", a.len().min(b.len()), a.len(), b.len()),
    }
}

fn stage_passes(st: &Stage, sb: &StageBuilt) -> (bool, LibResult) {
    let r = lib_decode(&single_dict(st, &sb.parms), &sb.input);
    (matches!(&r, Ok(Ok(v)) if eq_masked(v, &sb.output, sb.mask)), r)
}

/// arithmetic-overflow panics surface at different sites (the library line or core's `Sum`): one coarse kind
pub fn panic_kind(msg: &str, loc: &str) -> String {
    if msg.contains("with overflow") {
        "arithmetic-overflow".to_string()
    } else {
        engine::panic_class(msg, loc)
    }
}

fn pred_class(e: &Option<PredParams>) -> &'static str {
    match e.map(|e| e.predictor) {
        None => "absent",
        Some(1) => "1",
        Some(2) => "2",
        Some(_) => "png",
    }
}

/// Returns None when the library decodes this stage on its own; otherwise (clause, class, detail).
/// Attribution to a narrower class is only made after the narrower cause has been verified by
/// re-encoding without the suspected feature.
fn diagnose_stage(st: &Stage, sb: &StageBuilt, is_final: bool) -> Option<(&'static str, String, String)> {
    let (ok, r) = stage_passes(st, sb);
    if ok {
        return None;
    }
    let detail = format!("stage {} {:?}: input {} → expected {}, library gave {}{}", st.short(), st, show(&sb.input), show(&sb.output), describe(&r), if let Ok(Ok(v)) = &r { format!(" ({})", first_diff(v, &sb.output)) } else { String::new() });
    let generic = match st {
        Stage::Flate { .. } => format!("filter=Flate,Predictor={}", pred_class(&sb.eff_pred)),
        Stage::Lzw { early, .. } => format!("filter=LZW,EarlyChange={},Predictor={}", *early as u8, pred_class(&sb.eff_pred)),
        s => format!("filter={}", s.short()),
    };
    let class = match st {
        Stage::Flate { .. } | Stage::Lzw { .. } if sb.eff_pred.map(|e| e.predictor) == Some(2) => {
            // verified cause: the library returns the differenced samples untouched
            if matches!(&r, Ok(Ok(v)) if *v == sb.pre) {
                "Predictor=2".to_string()
            } else {
                generic
            }
        }
        Stage::A85 { use_z, prefix, eod, ws, nul, seed } => {
            let mut cur = st.clone();
            let mut class = None;
            if *nul && *ws > 0 {
                cur = Stage::A85 { use_z: *use_z, prefix: *prefix, eod: *eod, ws: *ws, nul: false, seed: *seed };
                if let Ok(sb2) = encode_stage(&cur, &sb.output, is_final) {
                    if stage_passes(&cur, &sb2).0 {
                        class = Some("filter=A85,ws=NUL".to_string());
                    }
                }
            }
            if class.is_none() && !*prefix && a85_first_char(&sb.input) == Some(b'<') {
                if let Stage::A85 { use_z, eod, ws, nul, seed, .. } = cur.clone() {
                    let with_prefix = Stage::A85 { use_z, prefix: true, eod, ws, nul, seed };
                    if let Ok(sb2) = encode_stage(&with_prefix, &sb.output, is_final) {
                        if stage_passes(&with_prefix, &sb2).0 {
                            class = Some("filter=A85,first-char=<".to_string());
                        }
                    }
                }
            }
            class.unwrap_or(generic)
        }
        Stage::AHx { case_mode, ws, nul, seed, eod, odd, trailer } if *nul && *ws > 0 => {
            let cur = Stage::AHx { case_mode: *case_mode, ws: *ws, nul: false, seed: *seed, eod: *eod, odd: *odd, trailer: *trailer };
            match encode_stage(&cur, &sb.output, is_final) {
                Ok(sb2) if stage_passes(&cur, &sb2).0 => "filter=AHx,ws=NUL".to_string(),
                _ => generic,
            }
        }
        _ => generic,
    };
    match &r {
        // a panic keeps the (verified) attribution in front of the panic site
        Err((m, l)) => Some(("C07/no-panic", format!("{class},{}", panic_kind(m, l)), detail)),
        _ => Some(("C07/round-trip", class, detail)),
    }
}

pub fn nontrivial(c: &Case, b: &Built) -> bool {
    b.x.len() >= 2
        && (c.stages.len() >= 2
            || b.stages.iter().any(|s| s.eff_pred.map(|e| e.predictor != 1).unwrap_or(false))
            || b.stages.iter().any(|s| s.lzw.as_ref().map(|l| l.max_table >= 512).unwrap_or(false)))
}

pub fn check(c: &Case) -> Outcome {
    let mut o = Outcome::new();
    let b = match build(c) {
        Ok(b) => b,
        Err(why) => {
            o.label("gate-rejected");
            o.label(format!("gate-rejected:{why}"));
            return o;
        }
    };
    o.label("evaluated");
    for l in &b.labels {
        o.label(l.clone());
    }
    o.nontrivial(nontrivial(c, &b));
    let r = lib_decode(&b.dict, &b.encoded);
    if matches!(&r, Ok(Ok(v)) if eq_masked(v, &b.x, b.mask)) {
        return o;
    }
    // the chain failed: find the responsible stage(s) by decoding each one on its own
    let n = c.stages.len();
    let mut explained = false;
    for (i, (st, sb)) in c.stages.iter().zip(&b.stages).enumerate() {
        if let Some((clause, class, detail)) = diagnose_stage(st, sb, i == n - 1) {
            o.fail(clause, class, detail);
            explained = true;
        }
    }
    if !explained {
        let detail = format!("every stage decodes on its own, the chain does not: expected {}, library gave {}", show(&b.x), describe(&r));
        match &r {
            Err((m, l)) => o.fail("C07/no-panic", engine::panic_class(m, l), detail),
            _ => o.fail("C07/round-trip", "chain", detail),
        }
    } else if n > 1 {
        o.excluded("C07/round-trip(chain as a whole)");
    }
    o
}

// ───────────────────────── generators ─────────────────────────

fn pred_some() -> impl Strategy<Value = Pred> {
    (
        prop::sample::select(vec![2u8, 10, 11, 12, 13, 14, 15]),
        1u8..=4,
        prop::sample::select(vec![1u8, 2, 4, 8, 16]),
        prop_oneof![3 => 1u8..=64, 1 => Just(1u8), 1 => Just(64u8)],
        any::<bool>(),
        any::<u64>(),
    )
        .prop_map(|(predictor, colors, bpc, columns, per_row, seed)| Pred { predictor, colors, bpc, columns, per_row, seed })
}

fn pred_strategy() -> impl Strategy<Value = Option<Pred>> {
    prop_oneof![
        4 => Just(None),
        1 => any::<u64>().prop_map(|seed| Some(Pred { predictor: 1, colors: 1, bpc: 8, columns: 1, per_row: false, seed })),
        6 => pred_some().prop_map(Some),
    ]
}

fn flate_stage(pred: impl Strategy<Value = Option<Pred>>) -> impl Strategy<Value = Stage> {
    (prop::sample::select(vec![0u8, 1, 6, 9]), prop_oneof![3 => Just(0u16), 1 => 1u16..600], pred).prop_map(|(level, flush_every, pred)| Stage::Flate { level, flush_every, pred })
}

fn lzw_stage(pred: impl Strategy<Value = Option<Pred>>) -> impl Strategy<Value = Stage> {
    (
        any::<bool>(),
        any::<bool>(),
        any::<bool>(),
        prop::sample::select(vec![4094u16, 4094, 4095, 4096, 4096]),
        prop_oneof![10 => Just(0u16), 1 => 1u16..4, 2 => 1u16..700],
        prop::bool::weighted(0.15),
        pred,
    )
        .prop_map(|(early, explicit, hand, clear_at, clear_every, clear_before_eod, pred)| Stage::Lzw { early, explicit, hand, clear_at, clear_every, clear_before_eod, pred })
}

fn ws_density() -> impl Strategy<Value = u8> {
    prop_oneof![2 => Just(0u8), 2 => 1u8..6, 1 => 6u8..60]
}

fn ahx_stage() -> impl Strategy<Value = Stage> {
    (0u8..3, ws_density(), prop::bool::weighted(0.1), any::<u64>(), prop::bool::weighted(0.8), any::<bool>(), any::<bool>())
        .prop_map(|(case_mode, ws, nul, seed, eod, odd, trailer)| Stage::AHx { case_mode, ws, nul, seed, eod, odd, trailer })
}

fn a85_stage() -> impl Strategy<Value = Stage> {
    (any::<bool>(), prop::bool::weighted(0.2), prop::bool::weighted(0.8), ws_density(), prop::bool::weighted(0.1), any::<u64>())
        .prop_map(|(use_z, prefix, eod, ws, nul, seed)| Stage::A85 { use_z, prefix, eod, ws, nul, seed })
}

fn rl_stage() -> impl Strategy<Value = Stage> {
    (0u8..3, prop_oneof![2 => Just(128u8), 1 => 1u8..=128], prop_oneof![2 => Just(128u8), 1 => 2u8..=128], any::<u64>(), prop::bool::weighted(0.8))
        .prop_map(|(mode, max_lit, max_rep, seed, eod)| Stage::RL { mode, max_lit, max_rep, seed, eod })
}

fn any_stage() -> impl Strategy<Value = Stage> {
    prop_oneof![
        3 => flate_stage(pred_strategy()),
        3 => lzw_stage(pred_strategy()),
        2 => ahx_stage(),
        2 => a85_stage(),
        2 => rl_stage(),
    ]
}

fn outer_stage() -> impl Strategy<Value = Stage> {
    prop_oneof![2 => ahx_stage(), 2 => a85_stage(), 1 => rl_stage(), 1 => flate_stage(Just(None))]
}

fn data_strategy() -> impl Strategy<Value = DataSpec> {
    prop_oneof![
        4 => prop::collection::vec(any::<u8>(), 0..64).prop_map(DataSpec::Raw),
        2 => prop::collection::vec(prop::sample::select(vec![0u8, 0, 0, 1, 84, 85, 255, 128, 0x54, 0x3c]), 0..300).prop_map(DataSpec::Raw),
        3 => (0u32..1024, any::<u64>()).prop_map(|(len, seed)| DataSpec::Random { len, seed }),
        2 => (1024u32..8192, any::<u64>()).prop_map(|(len, seed)| DataSpec::Random { len, seed }),
        1 => (8192u32..65536, any::<u64>()).prop_map(|(len, seed)| DataSpec::Random { len, seed }),
        3 => (0u32..20000, any::<u64>()).prop_map(|(len, seed)| DataSpec::Sparse { len, seed }),
        2 => (0u32..20000, 1u16..300, any::<u64>()).prop_map(|(len, period, seed)| DataSpec::Repeat { len, period, seed }),
        1 => (0u32..5000, any::<u8>()).prop_map(|(len, step)| DataSpec::Ramp { len, step }),
        1 => (0u32..66000).prop_map(|len| DataSpec::Zeros { len }),
        2 => (0u32..6000, any::<u64>()).prop_map(|(len, seed)| DataSpec::Text { len, seed }),
        1 => (0u32..4500, any::<u64>()).prop_map(|(len, seed)| DataSpec::PairUnique { len, seed }),
    ]
}

fn general_case() -> impl Strategy<Value = Case> {
    (data_strategy(), prop::collection::vec(any_stage(), 1..=3), 0u8..3).prop_map(|(data, stages, parms_form)| Case { data, stages, parms_form })
}

/// LZW as the final stage (so that it sees x itself), x sized to put the table at a width boundary.
fn lzw_boundary_case() -> impl Strategy<Value = Case> {
    let targets: Vec<u32> = [511u32, 512, 1023, 1024, 2047, 2048, 4095, 4096].iter().flat_map(|t| [t - 1, *t, t + 1]).chain([4093, 4094]).collect();
    (
        prop::sample::select(targets),
        any::<u64>(),
        prop::collection::vec(outer_stage(), 0..=2),
        lzw_stage(prop_oneof![5 => Just(None), 1 => any::<u64>().prop_map(|seed| Some(Pred { predictor: 1, colors: 1, bpc: 8, columns: 1, per_row: false, seed }))]),
        0u8..3,
    )
        .prop_map(|(t, seed, mut stages, lzw, parms_form)| {
            stages.push(lzw);
            // decoder-side table length at EOD = 257 + number of data codes (one code per byte here)
            Case { data: DataSpec::PairUnique { len: t - 257, seed }, stages, parms_form }
        })
}

fn lzw_reset_case() -> impl Strategy<Value = Case> {
    (
        prop_oneof![
            2 => (3830u32..3850, any::<u64>()).prop_map(|(len, seed)| DataSpec::PairUnique { len, seed }),
            2 => (3850u32..9000, any::<u64>()).prop_map(|(len, seed)| DataSpec::PairUnique { len, seed }),
            2 => (5000u32..40000, any::<u64>()).prop_map(|(len, seed)| DataSpec::Random { len, seed }),
            1 => (20000u32..66000, any::<u64>()).prop_map(|(len, seed)| DataSpec::Sparse { len, seed }),
        ],
        prop::collection::vec(outer_stage(), 0..=1),
        lzw_stage(Just(None)),
        0u8..3,
    )
        .prop_map(|(data, mut stages, lzw, parms_form)| {
            stages.push(lzw);
            Case { data, stages, parms_form }
        })
}

fn predictor_case() -> impl Strategy<Value = Case> {
    (
        prop_oneof![
            3 => (0u32..3000, any::<u64>()).prop_map(|(len, seed)| DataSpec::Random { len, seed }),
            3 => (0u32..3000, any::<u64>()).prop_map(|(len, seed)| DataSpec::Sparse { len, seed }),
            1 => (0u32..3000, any::<u8>()).prop_map(|(len, step)| DataSpec::Ramp { len, step }),
            1 => prop::collection::vec(any::<u8>(), 0..40).prop_map(DataSpec::Raw),
        ],
        prop::collection::vec(outer_stage(), 0..=1),
        prop_oneof![flate_stage(pred_some().prop_map(Some)), lzw_stage(pred_some().prop_map(Some))],
        0u8..3,
    )
        .prop_map(|(data, mut stages, last, parms_form)| {
            stages.push(last);
            Case { data, stages, parms_form }
        })
}

fn ccitt_case() -> impl Strategy<Value = Case> {
    (
        prop_oneof![
            (0u32..1500, any::<u64>()).prop_map(|(len, seed)| DataSpec::Sparse { len, seed }),
            (0u32..600, any::<u64>()).prop_map(|(len, seed)| DataSpec::Random { len, seed }),
            (0u32..1500, 1u16..40, any::<u64>()).prop_map(|(len, period, seed)| DataSpec::Repeat { len, period, seed }),
        ],
        1u16..=256,
        any::<bool>(),
        any::<bool>(),
        0u8..3,
    )
        .prop_map(|(data, columns, black_is_1, write_rows, parms_form)| Case { data, stages: vec![Stage::Ccitt { columns, black_is_1, write_rows }], parms_form })
}

fn ascii_noise_case() -> impl Strategy<Value = Case> {
    (
        prop_oneof![
            prop::collection::vec(any::<u8>(), 0..24).prop_map(DataSpec::Raw),
            prop::collection::vec(prop::sample::select(vec![0u8, 0, 0, 0, 255, 0x54, 0x55, 0x56, 0x57, 1]), 0..40).prop_map(DataSpec::Raw),
            (0u32..200, any::<u64>()).prop_map(|(len, seed)| DataSpec::Text { len, seed }),
        ],
        prop_oneof![ahx_stage(), a85_stage()],
        prop::collection::vec(any_stage(), 0..=1),
        0u8..3,
    )
        .prop_map(|(data, first, rest, parms_form)| {
            let mut stages = vec![first];
            stages.extend(rest);
            Case { data, stages, parms_form }
        })
}

pub fn strategy() -> impl Strategy<Value = Case> {
    prop_oneof![
        48 => general_case(),
        18 => lzw_boundary_case(),
        7 => lzw_reset_case(),
        14 => predictor_case(),
        5 => ccitt_case(),
        8 => ascii_noise_case(),
    ]
    .boxed()
}

/// Cases without CCITT (C08 reuses them: CCITT has no bounded decoder).
pub fn strategy_bounded() -> impl Strategy<Value = Case> {
    prop_oneof![
        50 => general_case(),
        15 => lzw_boundary_case(),
        7 => lzw_reset_case(),
        18 => predictor_case(),
        10 => ascii_noise_case(),
    ]
    .boxed()
}

pub fn calibrate_or_exit(ctx: &Ctx) {
    match rc::calibrate() {
        Ok(n) => ctx.extra("refcodec_calibration", serde_json::json!({"checks": n, "result": "ok"})),
        Err(e) => {
            eprintln!("[{}] refcodec calibration failed: {e}", ctx.id);
            std::process::exit(2);
        }
    }
}

fn run(ctx: &Ctx) {
    calibrate_or_exit(ctx);
    ctx.run_sub("roundtrip", ctx.tier.pick(80_000, 800_000), strategy, check);
    let rejected = ctx.label_count("gate-rejected");
    let evaluated = ctx.label_count("evaluated");
    ctx.extra("gate", serde_json::json!({"evaluated": evaluated, "gate_rejected": rejected}));
    if rejected * 100 > evaluated.max(1) {
        ctx.note(format!("gate rejected {rejected} of {} generated encodings (> 1 %): reference encoder problem", rejected + evaluated));
    }
}

fn replay(ctx: &Ctx, sub: &str, case: &Value) -> Result<Outcome, String> {
    match sub.trim_start_matches("replay:") {
        "roundtrip" => ctx.replay_case::<Case, _>(case, check),
        s => Err(format!("unknown sub-check {s}")),
    }
}
